"""C03 — serialise-then-parse is lossless; serialisation is a fixpoint.

model: lean/CssVerif/Model/StrCodec.lean (content codecs: unicodesub/_repl, cleanstring, helper.string / stringvalue /
uri / urivalue / normalize, the token recognisers); theorems: lean/CssVerif/Props/C03.lean
translator: tools/gen/c03_productions.py -> lean/CssVerif/Gen/C03Productions.lean
correspondence: (1) every generated pattern vs CPython's compiled pattern vs the hand recogniser, (2) the codec
functions on a content stream over the whole character range, (3) what the DOM stores for a token text in every place
that stores string / URL / identifier / comment content, and what the serializer writes for it.
oracle (implementation only): sheet.cssText -> parseString -> cssText bytes and DOM projection, on generated sheets of
all rule kinds x the content stream, after DOM edits, per node type set back on its own, and on all shipped sheets.
"""
import logging
import os

from lib.framework import Check, enc, dec, time_limit
from gen import c03_productions, relib
from harness import c03_content as C
from harness import c03_sheets as S
from harness import c03_canon as K

PATTERN_NAMES = ['STRING', 'URI', 'IDENT', 'COMMENT', 'unicodesub', 'stringsub', 'simpleescapes', 'forbidden_in_uri']


def quiet():
    import cssutils
    cssutils.log.setLevel(logging.FATAL)
    cssutils.ser.prefs.useDefaults()
    return cssutils


def lower_ok(s):
    """str.lower() agrees with the ASCII-only fold of the model on this text"""
    return all((c.lower() == c) if ord(c) > 127 else True for c in s)


def opt(r):
    return 'ERR IndexError' if r is None else 'OK ' + enc(r)


class C03(Check):
    id = 'C03'
    props_module = 'CssVerif.Props.C03'
    driver_exe = 'drv_c03'
    sources = ('cssutils/serialize.py', 'cssutils/css/cssstylesheet.py', 'cssutils/css/cssstylerule.py',
               'cssutils/css/cssstyledeclaration.py', 'cssutils/css/property.py', 'cssutils/css/cssmediarule.py',
               'cssutils/css/csspagerule.py', 'cssutils/css/marginrule.py', 'cssutils/css/cssfontfacerule.py', 'cssutils/helper.py', 'cssutils/tokenize2.py', 'cssutils/cssproductions.py',
               'cssutils/util.py', 'cssutils/css/value.py', 'cssutils/css/selector.py', 'cssutils/css/csscomment.py',
               'cssutils/css/cssimportrule.py', 'cssutils/css/cssnamespacerule.py', 'cssutils/css/csscharsetrule.py')
    trusted_base = (
        'hand-written model lean/CssVerif/Model/StrCodec.lean of the content codecs, tied to the source by the '
        'correspondence of this run (functions, stored DOM values, written text)',
        'translator tools/gen/c03_productions.py (+ tools/gen/relib.py): the STRING/URI/IDENT/COMMENT productions and '
        'the unicodesub / cleanstring / _simpleescapes / _match_forbidden_in_uri patterns as Re terms, regenerated '
        'from the source on every run and compared with CPython\'s compiled patterns on the content stream',
        'sheet level: hand model lean/CssVerif/Model/SheetCanon.lean of the serializer\'s layout (token level) on top of '
        'C02\'s structure kernel (Model/Struct.lean, AtRules.lean, SheetSpec.lean, tied by C02), tied on every run by the '
        'canon stream: driver tokens = the real tokenizer on the real cssText of generated spelled sheets',
    )
    assumptions = (
        'sre-faithfulness of Re.first for the supported regex subset (checked on every run against the compiled patterns)',
        'str.lower() = ASCII fold on the generated alphabet (cased non-ASCII letters are not generated for normalize)',
        'str.isspace() / \\s = the 25 code points (ranges) listed in isSpaceU (compared with CPython on every run)',
    )
    rule = ('content stream: token texts built from plain characters of every class the code distinguishes (ASCII, '
            'controls, non-ASCII, astral, lone surrogate, all white space kinds), escaped backslashes, hex escapes of 33 '
            'code points x 1-6 digits x 7 terminators, simple escapes, escaped line breaks, both quotes; '
            'non-trivial = distinct token text / value containing a backslash, a quote, a line break or a non-ASCII character; '
            'canon stream: abstract sheets of the C02 generator (all rule kinds, empty rules included) x structure-level '
            'spellings (white space, comments in gaps, letter case, simple escapes, quote styles, stand-alone semicolons), '
            'opaque parts in the form the implementation\'s own sub-serializers give them')

    # ------------------------------------------------------------------------------------------
    def translate(self, ctx):
        files, pats, asts = c03_productions.generate(ctx.repo)
        self._pats, self._asts = pats, asts
        # the driver links the C05 tokenizer model (Model/Tok.lean) for the model-to-model cross-check; its tables
        # have to describe the same tree
        from gen import c05_productions
        _d, text = c05_productions.build(ctx.repo)
        rel = 'CssVerif/Gen/C05Productions.lean'
        path = os.path.join(ctx.lean, rel)
        old = open(path, encoding='utf-8').read() if os.path.exists(path) else ''
        body = lambda t: t.split('-/', 1)[-1]          # the header only carries source hashes
        files[rel] = old if old and body(old) == body(text) else text
        return files

    # ------------------------------------------------------------------------------------------
    def run(self, ctx):
        cssutils = quiet()
        try:
            rng = ctx.sub_rng('c03')
            import time
            times = {}

            def ph(fn, *a):
                t0 = time.time()
                ctx.phase(fn, *a)
                times[fn.__name__] = round(time.time() - t0, 1)
            ph(self.corr_patterns, ctx, cssutils, rng)
            ph(self.corr_functions, ctx, cssutils, rng)
            ph(self.corr_safe, ctx, cssutils, rng)
            self.setup_impl(cssutils)
            ph(self.corr_image, ctx, cssutils, rng)
            ph(self.corr_canon, ctx, cssutils)
            ph(self.oracle_corpus, ctx, cssutils)
            ph(self.oracle_structural, ctx, cssutils, rng)
            ph(self.oracle_namespaces, ctx, cssutils, rng)
            ph(self.oracle_media, ctx, cssutils, rng)
            ph(self.oracle_setters, ctx, cssutils, rng)
            ph(self.oracle_encodings, ctx, cssutils, rng)
            ph(self.oracle_tokenpairs, ctx, cssutils, rng)
            ph(self.slots, ctx, cssutils, rng)
            ph(self.oracle_composite, ctx, cssutils, rng)
            ph(self.oracle_shipped, ctx, cssutils)
            ctx.notes['phase-seconds'] = times
            if os.environ.get('C03_TIMES'):
                print('phase seconds:', times)
        finally:
            cssutils.ser.prefs.useDefaults()

    def setup_impl(self, cssutils):
        from cssutils import tokenize2
        S.init(cssutils)
        self.parser = cssutils.CSSParser(fetcher=lambda url: (None, ''))
        self.tk = tokenize2.Tokenizer()

    # -- sheet level: `serialise` of Model/SheetCanon.lean vs the tokens of the real cssText ----------------
    def corr_canon(self, ctx, cssutils):
        K.run(ctx, cssutils)

    # -- (1) generated patterns vs compiled patterns vs hand recognisers ------------------------------
    def compiled(self, cssutils):
        from cssutils import helper, tokenize2
        tk = tokenize2.Tokenizer()
        d = {name: m.__self__ for name, m in tk.tokenmatches}
        d['unicodesub'] = tokenize2.Tokenizer.unicodesub.__self__
        d['stringsub'] = tokenize2.Tokenizer.stringsub.__self__
        d['simpleescapes'] = helper._simpleescapes.__self__
        d['forbidden_in_uri'] = helper._match_forbidden_in_uri.__self__
        return d

    def corr_patterns(self, ctx, cssutils, rng):
        if not hasattr(self, '_pats'):
            self._pats, _tk = c03_productions.patterns(ctx.repo)
        comp = self.compiled(cssutils)
        # the translator read the same pattern text that the live objects were compiled from
        for name in PATTERN_NAMES:
            if comp[name].pattern != self._pats[name][0]:
                ctx.disagree('translator: pattern text of %s' % name, name, comp[name].pattern, self._pats[name][0])
        texts = []
        for _ in range(ctx.n(1500, 30000)):
            r = rng.random()
            if r < 0.25:
                q, body = C.string_token(rng, 5)
                t = q + body + q + C.raw_text(rng, 2)
            elif r < 0.45:
                t = rng.choice(['url(', 'url( ', 'url(\t', 'URL(', 'u\\rl(', '\\75 rl(', 'url']) + \
                    rng.choice([C.url_unquoted_body(rng, 4), '"%s"' % C.string_token(rng, 3, '"')[1],
                                "'%s'" % C.string_token(rng, 3, "'")[1], C.raw_text(rng, 3)]) + \
                    rng.choice([')', ' )', ')x', '', ' \n)', ')' + C.raw_text(rng, 2)])
            elif r < 0.6:
                t = C.ident_text(rng, 4) + C.raw_text(rng, 2)
            elif r < 0.7:
                t = C.comment_text(rng, 5) + C.raw_text(rng, 2)
            else:
                t = C.raw_text(rng, 7)
            if len(t) <= 24:
                texts.append(t)
        lines, cases = [], []
        for t in texts:
            for name in PATTERN_NAMES:
                lines.append('re %s %s' % (name, enc(t)))
                cases.append((name, t, 're'))
                if name != 'forbidden_in_uri':
                    lines.append('hand %s %s' % (name, enc(t)))
                    cases.append((name, t, 'hand'))
        out = ctx.driver(lines) if ctx.model_ok else [None] * len(lines)
        for (name, t, which), m in zip(cases, out):
            with time_limit(10):
                mo = comp[name].match(t)
            got = 'NONE' if mo is None else 'N %d' % mo.end()
            if which == 're':
                ctx.case(key=('pat', name, t), nontrivial=mo is not None and mo.end() > 1, kind='pattern:' + name)
                if m is not None and m != got:
                    ctx.disagree('generated pattern %s (Re.first) vs compiled pattern' % name, t, got, m)
            else:
                if m is None:
                    continue
                if name == 'URI':
                    # the hand recogniser covers the literal `url(` prefix and the non-backtracking cases only
                    if m != 'NONE' and m != got:
                        ctx.disagree('hand recogniser lexUriPlain vs compiled URI production', t, got, m)
                    ctx.count('hand:URI:' + ('applies' if m != 'NONE' else 'n/a'))
                elif m != got:
                    ctx.disagree('hand recogniser for %s vs compiled pattern' % name, t, got, m)

    # -- (2) the codec functions ----------------------------------------------------------------------
    def corr_functions(self, ctx, cssutils, rng):
        from cssutils import helper, tokenize2, util
        base = util.Base()
        tk = tokenize2.Tokenizer()
        lines, cases = [], []

        def add(op, arg, impl_fn, kind):
            lines.append('%s %s' % (op, enc(arg)))
            cases.append((op, arg, impl_fn, kind))

        def tokval(kind, found, expect_type):
            """value the tokenizer gives the token that starts the text (must be the whole text)"""
            def f(_):
                toks = list(tk.tokenize(found))
                if len(toks) != 1 or toks[0][0] != expect_type:
                    return None
                return enc(toks[0][1])
            lines.append('tokval %s %s' % (kind, enc(found)))
            cases.append(('tokval', found, f, 'tokval:' + expect_type))
            if kind in ('s', 'o'):
                # model-to-model: this check's hand matcher vs the C05 tokenizer model (regex-driven) on the same text
                lines.append('tokc05 %s %s' % (kind, enc(found)))
                cases.append(('tokc05', found, lambda _: 'SAME', 'tokc05:' + expect_type))

        for _ in range(ctx.n(2500, 50000)):
            s = C.raw_text(rng, 8)
            add('string', s, lambda x: enc(helper.string(x)), 'string')
            add('uri', s, lambda x: enc(helper.uri(x)), 'uri')
            add('forb', s, lambda x: '1' if helper._match_forbidden_in_uri(x) else '0', 'forb')

            def sv(x):
                try:
                    return opt(helper.stringvalue(x))
                except IndexError:
                    return opt(None)
            add('stringvalue', s, sv, 'stringvalue')
            q = rng.choice(['"', "'", ''])
            u = rng.choice(['url(', 'url( ', 'URL(', 'x', '']) + q + s + q + rng.choice([')', ' )', '', ')\xa0'])

            def uv(x):
                try:
                    return opt(helper.urivalue(x))
                except IndexError:
                    return opt(None)

            def utv(x):
                try:
                    return opt(base._uritokenvalue(('URI', x, 1, 1)))
                except IndexError:
                    return opt(None)
            add('urivalue', u, uv, 'urivalue')
            add('uritokenvalue', u, utv, 'uritokenvalue')
            if lower_ok(s):
                add('normalize', s, lambda x: enc(helper.normalize(x)), 'normalize')
            # comments are kept verbatim
            if '*/' not in s and not s.endswith('*') and not s.startswith('/'):
                tokval('r', '/*' + s + '*/', 'COMMENT')
        for _ in range(ctx.n(2500, 50000)):
            q, body = C.string_token(rng, 7)
            tokval('s', q + body + q, 'STRING')
            tokval('o', C.ident_text(rng, 5), 'IDENT')
            tokval('s', 'url(' + C.url_unquoted_body(rng, 6) + ')', 'URI')
            q2, body2 = C.string_token(rng, 5)
            tokval('s', 'url(' + rng.choice(['', ' ']) + q2 + body2 + q2 + rng.choice(['', ' ']) + ')', 'URI')
        out = ctx.driver(lines) if ctx.model_ok else [None] * len(lines)
        for (op, arg, f, kind), m in zip(cases, out):
            got = f(arg)
            if got is None:
                ctx.count('skipped:' + kind + ':not-one-token')
                continue
            ctx.case(key=(op, arg), nontrivial=any(c in arg for c in '\\"\'\n\r\f') or not arg.isascii(), kind=kind,
                     sample={'op': op, 'arg': arg, 'impl': got if op in ('forb',) else dec_opt(got)})
            if m is not None and m != got:
                ctx.disagree('codec function ' + op + ' (' + kind + ')', arg, got, m)

    # -- (3) the Safe predicates: exactly the values that survive write-then-read --------------------
    SAFE_PIECES = ['\\', '"', 'a', 'g', '\n', ' ', "'", ')', '110000', '\x01', '\r']

    def safe_values(self, ctx, rng):
        import itertools
        vals = []
        for n in range(0, ctx.n(4, 5) + 1):
            for t in itertools.product(self.SAFE_PIECES, repeat=n):
                vals.append(''.join(t))
        for _ in range(ctx.n(3000, 60000)):
            vals.append(C.raw_text(rng, 7))
        return vals

    def impl_str_rt(self, cssutils, tk, v):
        """helper.string(v) tokenized by the real tokenizer and read back with stringvalue: (written, value|None)"""
        from cssutils import helper
        w = helper.string(v)
        toks = list(tk.tokenize(w))
        if len(toks) != 1 or toks[0][0] != 'STRING':
            return w, None
        return w, helper.stringvalue(toks[0][1])

    def impl_uri_rt(self, cssutils, tk, v):
        from cssutils import helper
        w = helper.uri(v)
        toks = list(tk.tokenize(w))
        if len(toks) != 1 or toks[0][0] != 'URI':
            return w, None
        return w, helper.urivalue(toks[0][1])

    def corr_safe(self, ctx, cssutils, rng):
        from cssutils import tokenize2
        tk = tokenize2.Tokenizer()
        vals = self.safe_values(ctx, rng)
        lines = []
        for v in vals:
            lines.append('strclass ' + enc(v))
            lines.append('uriclass ' + enc(v))
        out = ctx.driver(lines) if ctx.model_ok else [None] * len(lines)
        for i, v in enumerate(vals):
            for which, m, rt, mirror in (('string', out[2 * i], self.impl_str_rt, C.str_class),
                                         ('uri', out[2 * i + 1], self.impl_uri_rt, C.uri_class)):
                w, back = rt(cssutils, tk, v)
                ok = back == v
                mir = mirror(v) or 'safe'
                ctx.case(key=('safe', which, v), nontrivial='\\' in v or '"' in v, kind='safe:%s:%s' % (which, mir),
                         sample={'stored': v, 'written': w, 'reread': back, 'class': mir})
                if m is not None and m != mir:
                    ctx.disagree('Safe class (%s): Lean predicate vs python mirror' % which, v, mir, m)
                if ok != (mir == 'safe'):
                    ctx.disagree('Safe (%s) is exactly "written value reads back" on the implementation' % which,
                                 {'stored': v, 'written': w}, {'reread': back, 'ok': ok}, mir)

    # -- (3b) what the parser can store: every short STRING token text --------------------------------
    IMAGE_ALPHABET = ['\\', '"', "'", 'a', 'g', ' ', '\n', '2', '7', '5', 'c']

    def corr_image(self, ctx, cssutils, rng):
        """exhaustive small scope: for every STRING token text q+body+q with body over an 11-letter alphabet, the stored
        value (implementation) equals strD (model), and it is unsafe only where the documented source regions say so"""
        import itertools
        from cssutils import helper
        tk = self.tk if hasattr(self, 'tk') else None
        if tk is None:
            from cssutils import tokenize2
            tk = tokenize2.Tokenizer()
        lines, cases = [], []
        n_max = ctx.n(5, 6)
        bodies = []
        for n in range(0, n_max + 1):
            for tup in itertools.product(self.IMAGE_ALPHABET, repeat=n):
                bodies.append((''.join(tup), n == n_max and n_max > 4))
        # around the two source regions, three more characters on either side
        for core in ('\\\\\\a ', '\\\\\\a', '\\5c\\a ', '\\\\\\\n\\a ', '\\\\\\22 ', '\\5c \\22 ', '\\\\\\d\n', '\\"'):
            for a in range(0, 3):
                for b in range(0, 3 - a + 1):
                    for pre in itertools.product(self.IMAGE_ALPHABET, repeat=a):
                        for post in itertools.product(self.IMAGE_ALPHABET, repeat=b):
                            bodies.append((''.join(pre) + core + ''.join(post), False))
        for body, one_quote_only in bodies:
            if True:
                for q in ('"', "'"):
                    if one_quote_only and q == "'":
                        continue
                    t = q + body + q
                    toks = list(tk.tokenize(t))
                    if len(toks) != 1 or toks[0][0] != 'STRING':
                        continue
                    v = helper.stringvalue(toks[0][1])
                    cls = C.str_class(v)
                    ctx.case(key=('image', t), nontrivial='\\' in body, kind='image:' + (cls or 'safe'))
                    if cls is not None and not (cls == 'dq' and C.region_escaped_dquote(body, q)):
                        ctx.disagree('the documented source region (escaped double quote) covers every STRING token stored with an unsafe value',
                                     t, v, cls)
                    if '\\' in body:
                        lines.append('strD ' + enc(t))
                        cases.append((t, v))
        out = ctx.driver(lines) if ctx.model_ok else []
        for (t, v), m in zip(cases, out):
            if m != 'OK ' + enc(v):
                ctx.disagree('stored value of a STRING token (exhaustive small scope)', t, v, dec_opt(m))
        ctx.notes['image_exhaustive_max_body_length'] = n_max

    # == sheet level ==================================================================================
    CLAUSE_FIX = 'serialising the reparsed serialisation gives byte-identical text'
    CLAUSE_DOM = 'parsing the serialisation gives an equivalent DOM (rules, selectors, declarations, values, ' \
                 'priorities, media, import targets, comments)'

    # preference variants for the reparse-equivalence clause: (what is set, rule kinds the preference is documented
    # to leave out of the output, so they are left out of both projections)
    VARIANTS = {
        'default': (None, ()),
        'keepUsedNamespaceRulesOnly': ('usedns', ('namespace',)),
        'minified': ('minified', ('namespace', 'comment', 'unknown')),
    }

    def roundtrip(self, cssutils, sheet, variant='default'):
        """(t1, t2, p1, p2) of a DOM. Besides the variant, the only non-default preference is resolveVariables=False:
        with the default the serializer replaces var() by the variable's value and drops @variables rules, which is
        lossy by design."""
        how, drop = self.VARIANTS[variant]
        try:
            if how == 'minified':
                cssutils.ser.prefs.useMinified()
            elif how == 'usedns':
                cssutils.ser.prefs.keepUsedNamespaceRulesOnly = True
            cssutils.ser.prefs.resolveVariables = False
            S.MODE['minified'] = how == 'minified'
            S.MODE['drop'] = drop
            with time_limit(30):
                t1 = sheet.cssText
                p1 = S.project(cssutils, sheet)
                try:
                    s2 = self.parser.parseString(t1)
                except UnicodeDecodeError as e:
                    # the serialised bytes cannot even be decoded again
                    return t1, ('reparse raised %r' % (e,)).encode('ascii', 'replace'), p1, None
                t2 = s2.cssText
                p2 = S.project(cssutils, s2)
            return t1, t2, p1, p2
        finally:
            S.MODE['minified'] = False
            S.MODE['drop'] = ()
            cssutils.ser.prefs.useDefaults()

    def judge(self, ctx, cssutils, sheet, witness, regions, kind, variant='default'):
        """the oracle proper: fixpoint + equivalent DOM; a failure inside a known region is attributed to it"""
        t1, t2, p1, p2 = self.roundtrip(cssutils, sheet, variant)
        fix_ok, dom_ok = t1 == t2, p1 == p2
        if variant != 'default':
            # only the reparse-equivalence clause is claimed under other preferences: e.g. a namespace used only by a rule
            # that serialises to nothing is kept by keepUsedNamespaceRulesOnly the first time and dropped the second time
            fix_ok = True
        ctx.count('oracle:%s:%s' % (kind, 'ok' if fix_ok and dom_ok else 'fails-in-known-region' if regions else 'FAILS'))
        if fix_ok and dom_ok:
            return True
        known = sorted(regions)[0] if regions else None
        detail = {'serialised': t1.decode('utf-8', 'replace')[:2000], 'reserialised': t2.decode('utf-8', 'replace')[:2000],
                  'regions': sorted(regions), 'preferences': variant}
        if not dom_ok and p2 is not None:
            for a, b in zip(p1, p2):
                if a != b:
                    detail['dom_first_difference'] = [repr(a)[:800], repr(b)[:800]]
                    break
            detail['dom_rule_counts'] = [len(p1), len(p2)]
        if known is None and variant == 'default' and isinstance(witness, dict) and 'css' in witness and \
                not any(witness.get(k) for k in ('op', 'ops', 'edits', 'edits_applied', 'node', 'file', 'serialised_after_edits')):
            # a source text alone fails outside every known region: report the smallest text found that still does
            small = self.shrink_css(cssutils, witness['css'], fix_ok)
            if small is not None and len(small) < len(witness['css']):
                detail['original_css'] = witness['css'][:2000]
                witness = dict(witness, css=small, shrunk=True)
        ctx.violate(self.CLAUSE_FIX if not fix_ok else self.CLAUSE_DOM, witness, detail, known=known)
        return False

    def fails_alone(self, cssutils, css, fix_was_ok):
        """does `css` (a source text) break the same clause, outside every known region?"""
        try:
            with time_limit(10):
                sheet = self.parser.parseString(css)
                if self.regions_of(cssutils, [css], encoding=sheet.encoding) or self.dom_regions(cssutils, sheet):
                    return False
                t1, t2, p1, p2 = self.roundtrip(cssutils, sheet)
        except Exception:
            return False
        return (t1 == t2) == fix_was_ok and not (t1 == t2 and p1 == p2)

    def shrink_css(self, cssutils, css, fix_was_ok, trials=120, seconds=8.0):
        """delta debugging over the token texts of `css` (characters when the tokens do not tile the text)"""
        import time
        t0 = time.time()
        try:
            toks = list(self.tk.tokenize(css, fullsheet=True))
            pieces = S.raw_texts(css, toks[:-1] if toks and toks[-1][0] == 'EOF' else toks)
        except Exception:
            pieces = None
        if not pieces:
            pieces = list(css)
        if not self.fails_alone(cssutils, ''.join(pieces), fix_was_ok):
            return None
        n = 2
        while len(pieces) >= 2 and trials > 0 and time.time() - t0 < seconds:
            size = max(1, len(pieces) // n)
            removed = False
            for start in range(0, len(pieces), size):
                cand = pieces[:start] + pieces[start + size:]
                trials -= 1
                if cand and self.fails_alone(cssutils, ''.join(cand), fix_was_ok):
                    pieces, n, removed = cand, max(n - 1, 2), True
                    break
                if trials <= 0 or time.time() - t0 >= seconds:
                    break
            if not removed:
                if size == 1:
                    break
                n = min(len(pieces), n * 2)
        return ''.join(pieces)

    def regions_of(self, cssutils, texts, raws=(), encoding='utf-8', ident_form='either', edit_texts=()):
        regs = set()
        for t in texts:
            regs |= S.token_regions(cssutils, t, self.tk, encoding, ident_form)
        for t in edit_texts:
            regs |= S.token_regions(cssutils, t, self.tk, encoding, ident_form, base_depth=1)
        regs.discard('!unexplained-unsafe-string')
        for how, raw in raws:
            cls = C.uri_class(raw) if how == 'uri' else (C.uri_class(raw) or C.str_class(raw))
            if cls:
                regs |= {x for x in [S.kf_for_class(cls, 'setter')] if x}
            if S.bs_before_unencodable(raw, encoding):
                regs.add('C03-backslash-before-unencodable')
        return regs

    def dom_regions(self, cssutils, sheet):
        """regions that are a property of the edited DOM rather than of a token"""
        regs = set()
        has_default = any(r.type == S.RULE.NAMESPACE_RULE and not r.prefix for r in sheet.cssRules)
        import codecs
        try:
            cname = codecs.lookup(sheet.encoding).name
            probe = '@charset "'.encode(sheet.encoding)
        except (LookupError, UnicodeError):
            cname, probe = None, b'@charset "'
        if cname == 'utf-8-sig':
            # written with a BOM, which wins over the @charset rule on reparse: the rule then says utf-8
            regs.add('C03-charset-utf-8-sig')
        elif probe != b'@charset "' and not (cname or '').startswith(('utf-16', 'utf-32')):
            # neither a BOM nor a readable @charset rule: the bytes are decoded as UTF-8
            regs.add('C03-charset-not-ascii-compatible')

        def walk(rules):
            for r in rules:
                if r.type == S.RULE.STYLE_RULE and has_default:
                    for sel in r.selectorList:
                        for item in sel.seq:
                            if isinstance(item.value, tuple) and item.value[0] is None and \
                                    (item.type.endswith('type-selector') or item.type.endswith('universal')):
                                # parsed before the sheet had a default namespace: written `|name`
                                regs.add('C03-default-namespace-after-selectors')
                if r.type == S.RULE.PAGE_RULE:
                    margins = [m.margin for m in r.cssRules]
                    if len(set(margins)) != len(margins):
                        # add() / insertRule() do not merge a second block for the same margin box, the parser does
                        regs.add('C03-page-duplicate-margin')
                if r.type == S.RULE.MEDIA_RULE:
                    walk(r.cssRules)
                elif r.type == S.RULE.PAGE_RULE:
                    for m in r.cssRules:
                        # the @page parser re-reads a margin rule from its tokens WITHOUT white space and comments,
                        # so only a DOM edit can put a comment or a calc() with `+`/`-` there
                        toks = list(self.tk.tokenize(m.style.cssText))
                        if any(t[0] == 'COMMENT' or (t[0] == 'FUNCTION' and t[1].lower() == 'calc(') for t in toks):
                            regs.add('C03-margin-rule-edit')
        walk(sheet.cssRules)
        return regs

    # -- corpus: minimised past failures / the witnesses of the findings, run first ----------------------
    def oracle_corpus(self, ctx, cssutils):
        import json
        d = os.path.join(ctx.verif, 'tools', 'corpus', 'C03')
        if not os.path.isdir(d):
            return
        for fn in sorted(os.listdir(d)):
            if not fn.endswith('.json'):
                continue
            for entry in json.load(open(os.path.join(d, fn))):
                src = entry['css']
                sheet = self.parser.parseString(src)
                regs = self.regions_of(cssutils, [src], encoding=sheet.encoding)
                ctx.case(key=('corpus', src), nontrivial=True, kind='corpus')
                ok = self.judge(ctx, cssutils, sheet, {'css': src, 'corpus': fn}, regs, 'corpus')
                if entry.get('expect') == 'ok' and not ok and regs:
                    # a corpus entry that used to round trip must not hide inside a region
                    ctx.violate(self.CLAUSE_DOM, {'css': src, 'corpus': fn}, {'note': 'corpus entry expected to round trip'})

    # -- structural edits by index: every rule kind inserted at every position of sheets with every rule kind ----
    def oracle_structural(self, ctx, cssutils, rng):
        full = ctx.tier_counts == 'thorough'
        for src in S.structural_bases(rng, full):
            n = self.parser.parseString(src).cssRules.length
            for op in S.structural_ops(n):
                with time_limit(30):
                    sheet = self.parser.parseString(src)
                    accepted = S.apply_op(cssutils, sheet, op)
                ctx.case(key=('structural', src, tuple(op)), nontrivial=accepted, kind='structural:%s:%s' % (op[0], 'accepted' if accepted else 'refused'))
                if not accepted:
                    continue
                witness = {'css': src, 'op': op, 'serialised_after_edit': sheet.cssText.decode('utf-8', 'replace')}
                for variant in (('default', 'keepUsedNamespaceRulesOnly', 'minified') if full or op[0] != 'insertRule'
                                else ('default',)):
                    self.judge(ctx, cssutils, sheet, dict(witness, preferences=variant), self.dom_regions(cssutils, sheet),
                               'structural', variant)

    # -- namespaced selectors in every position x namespace operations x preference variants ------------
    def oracle_namespaces(self, ctx, cssutils, rng):
        full = ctx.tier_counts == 'thorough'
        for src, op in S.namespace_cases(rng, full):
            with time_limit(30):
                sheet = self.parser.parseString(src)
                accepted = S.apply_op(cssutils, sheet, op)
            ctx.case(key=('ns', src, tuple(op)), nontrivial=True, kind='namespace:%s:%s' % (op[0], 'accepted' if accepted else 'refused'))
            if not accepted:
                continue
            witness = {'css': src, 'op': op, 'serialised_after_edit': sheet.cssText.decode('utf-8', 'replace')}
            for variant in ('default', 'keepUsedNamespaceRulesOnly', 'minified'):
                self.judge(ctx, cssutils, sheet, dict(witness, preferences=variant), self.dom_regions(cssutils, sheet),
                           'namespace', variant)

    # -- media lists: media types in every letter case x append / delete / assign / mediaText ------------------
    def oracle_media(self, ctx, cssutils, rng):
        full = ctx.tier_counts == 'thorough'
        for src, op in S.media_cases(rng, full):
            with time_limit(30):
                sheet = self.parser.parseString(src)
                accepted = S.apply_op(cssutils, sheet, op)
            ctx.case(key=('media', src, tuple(op)), nontrivial=True, kind='media:%s:%s' % (op[0], 'accepted' if accepted else 'refused'))
            if not accepted:
                continue
            witness = {'css': src, 'op': op, 'serialised_after_edit': sheet.cssText.decode('utf-8', 'replace')}
            self.judge(ctx, cssutils, sheet, witness, self.dom_regions(cssutils, sheet), 'media')

    # -- attribute setters of single nodes ---------------------------------------------------------------------
    def oracle_setters(self, ctx, cssutils, rng):
        full = ctx.tier_counts == 'thorough'
        for src, op in S.setter_cases(rng, full):
            with time_limit(30):
                sheet = self.parser.parseString(src)
                accepted = S.apply_op(cssutils, sheet, op)
            ctx.case(key=('setter', src, repr(op)), nontrivial=True, kind='setter:%s:%s' % (op[0], 'accepted' if accepted else 'refused'))
            if not accepted:
                continue
            raws = [('uri-or-string', op[2])] if op[0] == 'importHref' else []
            regs = self.regions_of(cssutils, [src], raws, encoding=sheet.encoding) | self.dom_regions(cssutils, sheet)
            witness = {'css': src, 'op': op, 'serialised_after_edit': sheet.cssText.decode('utf-8', 'replace')}
            self.judge(ctx, cssutils, sheet, witness, regs, 'setter')

    # -- every slot under sheet encodings that can / cannot encode the content -------------------------------
    def oracle_encodings(self, ctx, cssutils, rng):
        full = ctx.tier_counts == 'thorough'
        for src in S.encoding_cases(rng, full):
            with time_limit(30):
                sheet = self.parser.parseString(src)
            regs = self.regions_of(cssutils, [src], encoding=sheet.encoding) | self.dom_regions(cssutils, sheet)
            ctx.case(key=('enc', src), nontrivial=True, kind='encoding:' + sheet.encoding.lower()[:12])
            self.judge(ctx, cssutils, sheet, {'css': src}, regs, 'encoding')

    # -- unknown at-rules: pairs of punctuation tokens must not fuse or change when the white space between them goes ----
    def oracle_tokenpairs(self, ctx, cssutils, rng):
        full = ctx.tier_counts == 'thorough'
        for src in S.tokenpair_cases(rng, full):
            with time_limit(30):
                sheet = self.parser.parseString(src)
            regs = self.regions_of(cssutils, [src], encoding=sheet.encoding) | self.dom_regions(cssutils, sheet)
            ctx.case(key=('pair', src), nontrivial=True, kind='tokenpair')
            self.judge(ctx, cssutils, sheet, {'css': src}, regs, 'tokenpair')

    # -- (3) one content item in one slot: what is stored, what is written, does it survive -------------
    SLOTS = {
        'string': [
            ('value', 'a{content:%s}', lambda sh: sh.cssRules[0].style.getProperty('content').propertyValue[0].value, 'strD',
             lambda sh: sh.cssRules[0].style.getProperty('content').propertyValue.cssText, 'string', '%s'),
            ('import', '@import %s;', lambda sh: sh.cssRules[0].href, 'strD',
             lambda sh: sh.cssRules[0].cssText, 'string', '@import %s;'),
            ('namespace', '@namespace p %s;', lambda sh: sh.cssRules[0].namespaceURI, 'strD',
             lambda sh: sh.cssRules[0].cssText, 'string', '@namespace p %s;'),
            ('attrib', 'a[b=%s]{c:d}', lambda sh: [i.value for i in sh.cssRules[0].selectorList[0].seq if i.type == 'STRING'][0],
             'strD', lambda sh: sh.cssRules[0].selectorText, 'string', 'a[b=%s]'),
        ],
        'url': [
            ('value', 'a{background:%s}', lambda sh: sh.cssRules[0].style.getProperty('background').propertyValue[0].uri, 'uriD',
             lambda sh: sh.cssRules[0].style.getProperty('background').propertyValue.cssText, 'uri', '%s'),
            ('import', '@import %s;', lambda sh: sh.cssRules[0].href, 'uriDTok',
             lambda sh: sh.cssRules[0].cssText, 'uri', '@import %s;'),
            ('namespace', '@namespace p %s;', lambda sh: sh.cssRules[0].namespaceURI, 'uriDTok',
             lambda sh: sh.cssRules[0].cssText, 'string', '@namespace p %s;'),
        ],
        'ident': [
            ('value', 'a{b:%s}', lambda sh: sh.cssRules[0].style.getProperty('b').propertyValue[0].value, 'tokval o', None, None, None),
            ('class', '.%s{b:c}', lambda sh: sh.cssRules[0].selectorList[0].seq[0].value[1:], 'tokval o', None, None, None),
            ('id', '#%s{b:c}', lambda sh: sh.cssRules[0].selectorList[0].seq[0].value[1:], 'tokval o', None, None, None),
            ('type', '%s{b:c}', lambda sh: sh.cssRules[0].selectorList[0].seq[0].value[1], 'tokval o', None, None, None),
            ('propname', 'a{%s:c}', None, None, None, None, None),
            ('fnarg', 'a{b:f(%s)}', None, None, None, None, None),
            ('unit', 'a{b:1%s}', None, None, None, None, None),
            ('function', 'a{b:%s(1)}', None, None, None, None, None),
            ('prefix', '@namespace %s "u";%s|a{b:c}', None, None, None, None, None),
            ('page', '@page %s{b:c}', None, None, None, None, None),
            ('pseudo', 'a:%s{b:c}', None, None, None, None, None),
            ('atkeyword', '@%s x;', None, None, None, None, None),
            ('attrname', 'a[%s]{b:c}', None, None, None, None, None),
            ('attrvalue', 'a[b=%s]{c:d}', None, None, None, None, None),
            ('unknown', '@foo %s;', None, None, None, None, None),
        ],
        'comment': [
            ('top', '%s a{b:c}', lambda sh: sh.cssRules[0].cssText, 'tokval r', None, None, None),
            ('block', 'a{%s b:c}', None, None, None, None, None),
            ('blockend', 'a{b:c;%s}', None, None, None, None, None),
            ('value', 'a{b:c %s d}', None, None, None, None, None),
            ('selector', 'a %s b{c:d}', None, None, None, None, None),
            ('media', '@media all{%s a{b:c}}', None, None, None, None, None),
            ('import', '@import "x" %s;', None, None, None, None, None),
            ('pagename', '@page a%s:first{b:c}', None, None, None, None, None),
            ('page', '@page %s :left{b:c}', None, None, None, None, None),
            ('unknown', '@foo a %s b;', None, None, None, None, None),
            ('unknownblock', '@foo {a:b %s}', None, None, None, None, None),
        ],
    }

    # how the identifier of a slot is written back: as stored, or in normalised form (helper.normalize)
    IDENT_FORM = {'value': 'verbatim', 'class': 'verbatim', 'id': 'verbatim', 'type': 'verbatim', 'attrname': 'verbatim',
                  'attrvalue': 'verbatim', 'page': 'verbatim', 'prefix': 'verbatim', 'unknown': 'verbatim',
                  'fnarg': 'verbatim', 'unit': 'normalized', 'function': 'normalized', 'pseudo': 'normalized',
                  'atkeyword': 'normalized', 'varname': 'normalized', 'propname': 'either'}

    def gen_item(self, rng, kind):
        if kind == 'string':
            q, body = C.string_token(rng, rng.choice([3, 7]))
            return q + body + q
        if kind == 'url':
            if rng.random() < 0.5:
                return 'url(' + rng.choice(['', ' ']) + C.url_unquoted_body(rng, 5) + rng.choice(['', ' ']) + ')'
            q, body = C.string_token(rng, 5)
            return 'url(' + rng.choice(['', ' ']) + q + body + q + rng.choice(['', '\t']) + ')'
        if kind == 'ident':
            return C.ident_text(rng, 4)
        return C.comment_text(rng, 6)

    def slots(self, ctx, cssutils, rng):
        from cssutils import helper
        lines, todo = [], []
        per = ctx.n(450, 20000)
        for kind, slots in self.SLOTS.items():
            for _ in range(per):
                item = self.gen_item(rng, kind)
                slot = rng.choice(slots)
                name, tmpl, get_stored, model_op, get_written, written_by, wtmpl = slot
                src = tmpl.replace('%s', item)
                if kind != 'comment':
                    toks = list(self.tk.tokenize(item))
                    if len(toks) != 1 or toks[0][0] != {'string': 'STRING', 'url': 'URI', 'ident': 'IDENT'}[kind]:
                        ctx.count('slot:%s:generated-text-is-not-one-token' % kind)
                        continue
                with time_limit(30):
                    sheet = self.parser.parseString(src)
                regs = self.regions_of(cssutils, [src], encoding=sheet.encoding,
                                       ident_form=self.IDENT_FORM.get(name, 'either') if kind == 'ident' else 'either')
                nontriv = '\\' in item or not item.isascii()
                ctx.case(key=('slot', kind, name, item), nontrivial=nontriv, kind='slot:%s:%s' % (kind, name),
                         sample={'css': src, 'serialised': sheet.cssText.decode('utf-8', 'replace')})
                self.judge(ctx, cssutils, sheet, {'css': src, 'slot': '%s/%s' % (kind, name), 'content': item}, regs,
                           'slot-' + kind)
                # correspondence: stored value and written text, model vs DOM
                if get_stored is None or not ctx.model_ok:
                    continue
                try:
                    stored = get_stored(sheet)
                except (IndexError, AttributeError, TypeError):
                    ctx.count('slot:%s:%s:not-stored' % (kind, name))
                    continue
                if stored is None:
                    ctx.count('slot:%s:%s:not-stored' % (kind, name))
                    continue
                lines.append('%s %s' % (model_op, enc(item)))
                todo.append(('stored', kind, name, item, stored))
                if get_written is not None:
                    lines.append('%s %s' % (written_by, enc(stored)))
                    todo.append(('written', kind, name, (item, wtmpl), get_written(sheet)))
        out = ctx.driver(lines) if lines else []
        for (what, kind, name, item, impl), m in zip(todo, out):
            if what == 'stored':
                want = m[3:] if m.startswith('OK ') else m
                if want != enc(impl):
                    ctx.disagree('value stored in the DOM for a %s token (%s slot)' % (kind, name), item, impl,
                                 dec_opt(m))
            else:
                item, wtmpl = item
                want = wtmpl.replace('%s', dec(m))
                if want != impl:
                    ctx.disagree('text written by the serializer for a stored %s (%s slot)' % (kind, name), item, impl, want)

    # -- generated sheets of all rule kinds, DOM edits, set-back per node type -------------------------
    def oracle_composite(self, ctx, cssutils, rng):
        import xml.dom
        n = ctx.n(260, 15000)
        for i in range(n):
            risk = rng.choice([0.0, 0.0, 0.02, 0.05])
            gen = S.Gen(rng, S.Content(rng, risk))
            src = gen.sheet(rng.randint(2, 6))
            with time_limit(60):
                try:
                    sheet = self.parser.parseString(src)
                except xml.dom.DOMException:
                    ctx.count('composite:parse-raised')
                    continue
            texts, raws, ops, etexts = [src], [], [], []
            for _ in range(rng.choice([0, 0, 1, 3, 6])):
                with time_limit(60):
                    r = S.random_edit(cssutils, rng, sheet, gen)
                if r is None:
                    ctx.count('edit:rejected-or-n/a')
                    continue
                ops.append(r[0])
                etexts += r[1]
                raws += r[2]
                ctx.count('edit:' + r[0])
            regs = self.regions_of(cssutils, texts, raws, encoding=sheet.encoding, edit_texts=etexts)
            regs |= self.dom_regions(cssutils, sheet)
            kinds = sorted({r.type for r in sheet.cssRules})
            ctx.case(key=('sheet', src, tuple(ops)), nontrivial=len(kinds) > 1 or bool(ops), kind='sheet:edits=%d' % len(ops),
                     sample={'css': src[:400], 'edits': ops})
            witness = {'css': src, 'edits': [list(x) for x in zip(ops, [])] or ops, 'seed_note': 'composite #%d' % i}
            if ops:
                witness = {'css': src, 'edits_applied': ops, 'serialised_after_edits': sheet.cssText.decode('utf-8', 'replace')}
            ok = self.judge(ctx, cssutils, sheet, witness, regs, 'sheet')
            if ok:
                self.judge(ctx, cssutils, sheet, dict(witness, preferences='keepUsedNamespaceRulesOnly'), regs, 'sheet-usedns',
                           'keepUsedNamespaceRulesOnly')
            if ok or not regs:
                self.setback(ctx, cssutils, sheet, regs, witness)

    def setback(self, ctx, cssutils, sheet, regs, witness):
        """every serialisable node type, read and set back on a fresh object of its own"""
        import xml.dom
        css = cssutils.css
        known = sorted(regs)[0] if regs else None
        cssutils.ser.prefs.resolveVariables = False
        try:
            self.setback_(ctx, cssutils, sheet, regs, witness, css, known)
        finally:
            cssutils.ser.prefs.useDefaults()

    def setback_(self, ctx, cssutils, sheet, regs, witness, css, known):
        import xml.dom

        def check(kind, text, make, read, **extra):
            ctx.count('setback:' + kind)
            try:
                with time_limit(30):
                    obj = make(text)
                    back = read(obj)
            except xml.dom.DOMException as e:
                back = 'raised ' + type(e).__name__
            if back != text:
                ctx.violate('a %s whose text is read and set back on its own gives the same text' % kind,
                            dict(witness, node=kind, text=text), {'got': back}, known=known)

        cls = {S.RULE.STYLE_RULE: css.CSSStyleRule, S.RULE.MEDIA_RULE: css.CSSMediaRule, S.RULE.PAGE_RULE: css.CSSPageRule,
               S.RULE.FONT_FACE_RULE: css.CSSFontFaceRule, S.RULE.IMPORT_RULE: css.CSSImportRule,
               S.RULE.COMMENT: css.CSSComment, S.RULE.UNKNOWN_RULE: css.CSSUnknownRule,
               S.RULE.CHARSET_RULE: css.CSSCharsetRule}
        nsmap = dict((p, u) for p, u in sheet.namespaces.items())
        for r in sheet.cssRules:
            text = r.cssText
            if not text:
                continue
            uses_ns = r.type in (S.RULE.STYLE_RULE, S.RULE.MEDIA_RULE) and '|' in text
            if r.type in cls and not uses_ns:
                def make(t, k=cls[r.type]):
                    o = k()
                    o.cssText = t
                    return o
                check('rule:' + r.typeString, text, make, lambda o: o.cssText)
            if r.type == S.RULE.STYLE_RULE:
                st = r.style.cssText

                def mk_style(t):
                    o = css.CSSStyleDeclaration()
                    o.cssText = t
                    return o
                check('style declaration', st, mk_style, lambda o: o.cssText)
                for sel in r.selectorList:
                    stext = sel.selectorText

                    def mk_sel(t):
                        return css.Selector((t, nsmap)) if nsmap else css.Selector(t)
                    check('selector', stext, mk_sel, lambda o: o.selectorText)
                for prop in r.style.getProperties(all=True):
                    if not prop.wellformed:
                        continue
                    vt = prop.propertyValue.cssText

                    def mk_pv(t):
                        return css.PropertyValue(t)
                    check('property value', vt, mk_pv, lambda o: o.cssText)
            if r.type in (S.RULE.MEDIA_RULE, S.RULE.IMPORT_RULE):
                mt = r.media.mediaText

                def mk_ml(t):
                    o = cssutils.stylesheets.MediaList()
                    o.mediaText = t
                    return o
                check('media list', mt, mk_ml, lambda o: o.mediaText)

    # -- the sheets shipped with the repository -----------------------------------------------------------
    def oracle_shipped(self, ctx, cssutils):
        import glob
        files = []
        for base in ('sheets', os.path.join('cssutils', 'tests', 'sheets')):
            for pat in ('*.css', os.path.join('*', '*.css')):
                files += sorted(glob.glob(os.path.join(ctx.repo, base, pat)))
        ctx.notes['shipped_sheets'] = len(files)
        seen = set()
        for f in files:
            data = open(f, 'rb').read()
            rel = os.path.relpath(f, ctx.repo)
            if data in seen:
                # sheets/ and cssutils/tests/sheets/ hold the same files: identical bytes give the identical run
                ctx.count('shipped:same-bytes-as-checked')
                continue
            seen.add(data)
            try:
                with time_limit(120):
                    sheet = self.parser.parseString(data, href='file://' + f)
            except UnicodeDecodeError:
                ctx.count('shipped:undecodable')   # tests/sheets/test.css is deliberately mis-encoded
                continue
            try:
                text = sheet.cssText.decode(sheet.encoding, 'replace')
            except LookupError:
                text = sheet.cssText.decode('utf-8', 'replace')
            regs = self.regions_of(cssutils, [data.decode(sheet.encoding, 'replace')], encoding=sheet.encoding)
            ctx.case(key=('shipped', rel), nontrivial=True, kind='shipped')
            self.judge(ctx, cssutils, sheet, {'file': rel}, regs, 'shipped')

    # ------------------------------------------------------------------------------------------
    def known(self, ctx, finding):
        """replay the witness of a known finding on the implementation: does it still fail?"""
        cssutils = quiet()
        S.init(cssutils)
        self.parser = cssutils.CSSParser(fetcher=lambda url: (None, ''))
        try:
            w = finding['witness']['data']
            sheet = self.parser.parseString(w['css'])
            for op in w.get('ops', []):
                obj = sheet
                for step in op['path']:
                    obj = obj[step] if isinstance(step, int) else getattr(obj, step)
                setattr(obj, op['attr'], op['value'])
            if 'op' in w:
                S.apply_op(cssutils, sheet, w['op'])
            t1, t2, p1, p2 = self.roundtrip(cssutils, sheet)
            return not (t1 == t2 and p1 == p2)
        finally:
            cssutils.ser.prefs.useDefaults()

    def replay(self, ctx, data):
        cssutils = quiet()
        S.init(cssutils)
        self.parser = cssutils.CSSParser(fetcher=lambda url: (None, ''))
        from cssutils import tokenize2
        self.tk = tokenize2.Tokenizer()
        w = data.get('witness') or {}
        try:
            if data.get('kind') == 'impl-violates' and 'op' in w:
                sheet = self.parser.parseString(w['css'])
                if S.apply_op(cssutils, sheet, w['op']):
                    self.judge(ctx, cssutils, sheet, w, self.dom_regions(cssutils, sheet), 'replay', w.get('preferences', 'default'))
            elif data.get('kind') == 'impl-violates' and 'css' in w and 'edits_applied' not in w and 'node' not in w:
                sheet = self.parser.parseString(w['css'])
                regs = self.regions_of(cssutils, [w['css']], encoding=sheet.encoding)
                self.judge(ctx, cssutils, sheet, w, regs, 'replay')
            elif data.get('kind') == 'impl-violates' and 'file' in w:
                f = os.path.join(ctx.repo, w['file'])
                sheet = self.parser.parseString(open(f, 'rb').read(), href='file://' + f)
                self.judge(ctx, cssutils, sheet, w, set(), 'replay')
            elif data.get('kind') == 'impl-violates' and 'serialised_after_edits' in w:
                sheet = self.parser.parseString(w['serialised_after_edits'])
                self.judge(ctx, cssutils, sheet, w, set(), 'replay')
            else:
                self.run(ctx)
        finally:
            cssutils.ser.prefs.useDefaults()


def dec_opt(s):
    if s.startswith('OK '):
        return dec(s[3:])
    if s.startswith('ERR'):
        return s
    try:
        return dec(s)
    except Exception:
        return s


CHECK = C03()
