"""generators, renderers and protocol encoders for the C15 check (abstract sheets / selectors / operations)

SItem   ('q', k, ps, name)  k in t,u,a,n   ps in 'N','A','E',('P', prefix)
        ('o', val, ser, src)               any other item: value in Selector.seq, serialised text, source text
        ('x',)                             a character the selector grammar rejects
SrcRule ('ns', p, u, 'c0c1c2') | ('style', sels) | ('media', [sels, …]) | ('other', kind)
Op      ('parse', init, src) ('insns', p, u, idx, io) ('insnstext', p, u, ccc, idx, io) ('setns', p, u) ('delns', p)
        ('delrule', i) ('setprefix', i, q) ('setsel', i, sels) ('insstyle', sels, idx, io)
        ('insobj', sels, nsdict, idx, io)
"""
from lib.framework import enc

PFX = ['p', 'q', 'r', 'P']
URIS = ['u1', 'u2', 'u3', 'a', 'urn:x']
NAMES = ['a', 'b', 'abc', 'x', 'e1']
OKINDS = ['charset', 'import', 'comment', 'variables', 'page', 'fontface', 'unknown']
KIND_TEXT = {'charset': '@charset "utf-8";', 'import': '@import "x.css";', 'comment': '/*c*/',
             'variables': '@variables { v: 1 }', 'page': '@page { margin: 0 }',
             'fontface': '@font-face { font-family: f }', 'unknown': '@foo bar;'}


def ser_of(typ, val):
    """what the serializer writes for a non-qualified item"""
    if typ in ('child', 'adjacent-sibling', 'following-sibling'):
        return ' %s ' % val
    if typ == 'STRING':
        return '"%s"' % val
    return val


# ------------------------------------------------------------------------------------------------
# rendering to CSS text
def render_ps(ps):
    if ps == 'N':
        return ''
    if ps == 'A':
        return '*|'
    if ps == 'E':
        return '|'
    return ps[1] + '|'


def render_item(it):
    if it[0] == 'q':
        _, k, ps, name = it
        return render_ps(ps) + name
    if it[0] == 'o':
        return it[3]
    return '!'


def render_sel(sel):
    return ''.join(render_item(i) for i in sel)


def render_sels(sels):
    return ', '.join(render_sel(s) for s in sels)


def render_ns(p, u, ccc):
    out = '@namespace '
    if ccc[0] == '1':
        out += '/*a*/ '
    if p:
        out += p + ' '
    if ccc[1] == '1':
        out += '/*b*/ '
    out += '"%s"' % u
    if ccc[2] == '1':
        out += ' /*c*/'
    return out + ';'


def render_rule(r):
    if r[0] == 'ns':
        return render_ns(r[1], r[2], r[3])
    if r[0] == 'style':
        return render_sels(r[1]) + ' { x: 1 }'
    if r[0] == 'media':
        return '@media print { ' + ' '.join(render_sels(s) + ' { x: 1 }' for s in r[1]) + ' }'
    return KIND_TEXT[r[1]]


def render_src(src):
    return '\n'.join(render_rule(r) for r in src)


# ------------------------------------------------------------------------------------------------
# protocol words (see lean/Drv/C15.lean)
def ps_word(ps):
    return ps if isinstance(ps, str) else 'P' + enc(ps[1])


def sitem_word(it):
    if it[0] == 'q':
        return 'q:%s:%s:%s' % (it[1], ps_word(it[2]), enc(it[3]))
    if it[0] == 'o':
        return 'o:%s:%s' % (enc(it[1]), enc(it[2]))
    return 'x'


def ssel_word(sel):
    return '+'.join(sitem_word(i) for i in sel)


def ssels_word(sels):
    return ','.join(ssel_word(s) for s in sels)


def dict_word(d):
    return 'D' + ','.join('%s~%s' % (enc(k), enc(v)) for k, v in (d.items() if isinstance(d, dict) else d))


def src_word(src):
    out = []
    for r in src:
        if r[0] == 'ns':
            out.append('N=%s:%s:%s' % (enc(r[1]), enc(r[2]), r[3]))
        elif r[0] == 'style':
            out.append('S=' + ssels_word(r[1]))
        elif r[0] == 'media':
            out.append('M=' + '/'.join(ssels_word(s) for s in r[1]))
        else:
            out.append('O=' + r[1])
    return ';'.join(out) or '_'


def idx_word(i):
    return 'n' if i is None else str(i)


def resolve_item(d, it):
    """independent small resolver, used only to hand the model the items of a foreign style rule object"""
    if it[0] == 'o':
        return 'o:%s:%s' % (enc(it[1]), enc(it[2]))
    _, k, ps, name = it
    if k == 'a' and ps in ('N', 'E'):
        return 'b:' + enc(name)
    if ps == 'A':
        ns = 'a'
    elif ps == 'N':
        ns = 'u' + enc(d['']) if '' in d else 'n'
    elif ps == 'E':
        ns = 'u-'
    else:
        ns = 'u' + enc(d[ps[1]])
    return 'q:%s:%s:%s' % (k, ns, enc(name))


def wop_line(wop):
    """protocol line of a two-sheet operation (see lean/Drv/C15.lean)"""
    k = wop[0]
    if k == 'w':
        return 'w %d %s' % (wop[1], op_line(wop[2]))
    if k == 'wgrab':
        return 'wgrab %d %d %s' % (wop[1], wop[2], ssels_word(wop[3]))
    if k == 'wshare':
        return 'wshare %d %s %d' % (wop[1], idx_word(wop[2]), wop[3])
    if k == 'wobjsel':
        return 'wobjsel %s' % ssels_word(wop[1])
    raise ValueError(k)


def wop_from_json(o):
    def item(i):
        if i[0] == 'q':
            ps = i[2] if isinstance(i[2], str) else ('P', i[2][1])
            return ('q', i[1], ps, i[3])
        return tuple(i)

    def sels(x):
        return [[item(i) for i in s] for s in x]
    if o[0] == 'w':
        return ('w', o[1], from_json_op(o[2]))
    if o[0] == 'wgrab':
        return ('wgrab', o[1], o[2], sels(o[3]))
    if o[0] == 'wobjsel':
        return ('wobjsel', sels(o[1]))
    return tuple(o)


def op_line(op):
    k = op[0]
    if k == 'parse':
        return 'parse %s %s' % (dict_word(op[1]), src_word(op[2]))
    if k == 'insns':
        return 'insns %s %s %s %d' % (enc(op[1]), enc(op[2]), idx_word(op[3]), op[4])
    if k == 'insnstext':
        return 'insnstext %s %s %s %s %d' % (enc(op[1]), enc(op[2]), op[3], idx_word(op[4]), op[5])
    if k == 'setns':
        return 'setns %s %s' % (enc(op[1]), enc(op[2]))
    if k == 'delns':
        return 'delns %s' % enc(op[1])
    if k == 'delrule':
        return 'delrule %d' % op[1]
    if k == 'setprefix':
        return 'setprefix %d %s' % (op[1], enc(op[2]))
    if k == 'setsel':
        return 'setsel %d %s' % (op[1], ssels_word(op[2]))
    if k == 'insstyle':
        return 'insstyle %s %s %d' % (ssels_word(op[1]), idx_word(op[2]), op[3])
    if k == 'setnstext':
        return 'setnstext %d %s %s %s' % (op[1], enc(op[2]), enc(op[3]), op[4])
    if k == 'rawdel':
        return 'rawdel %d' % op[1]
    if k == 'insmedia':
        return 'insmedia %d %s %s' % (op[1], ssels_word(op[2]), idx_word(op[3]))
    if k == 'insobj':
        d = dict(op[2])
        w = ','.join('+'.join(resolve_item(d, i) for i in sel) for sel in op[1])
        return 'insobj %s %s %d' % (w, idx_word(op[3]), op[4])
    raise ValueError(k)


# ------------------------------------------------------------------------------------------------
def sel_named_prefixes(sel):
    return [i[2][1] for i in sel if i[0] == 'q' and isinstance(i[2], tuple)]


def named_prefixes(op):
    sels = op[2] if op[0] in ('setsel', 'insmedia') else op[1]
    return [p for s in sels for p in sel_named_prefixes(s)]


def mentions_prefix(op):
    if op[0] in ('insns', 'insnstext', 'setns', 'delns', 'setprefix', 'setnstext'):
        return True
    if op[0] in ('setsel', 'insstyle', 'insobj', 'insmedia'):
        sels = op[2] if op[0] in ('setsel', 'insmedia') else op[1]
        return any(i[0] == 'q' and i[2] != 'N' for s in sels for i in s)
    if op[0] == 'parse':
        return any(r[0] == 'ns' for r in op[2])
    return False


def tup(x):
    if isinstance(x, list):
        return tuple(tup(y) for y in x)
    return x


def to_json_op(op):
    return json_safe(op)


def json_safe(x):
    if isinstance(x, (tuple, list)):
        return [json_safe(y) for y in x]
    if isinstance(x, dict):
        return [[k, v] for k, v in x.items()]
    return x


def from_json_op(o):
    """lists back to the tuple shapes used above"""
    k = o[0]

    def item(i):
        if i[0] == 'q':
            ps = i[2] if isinstance(i[2], str) else ('P', i[2][1])
            return ('q', i[1], ps, i[3])
        return tuple(i)

    def sels(x):
        return [[item(i) for i in s] for s in x]

    def rule(r):
        if r[0] == 'style':
            return ('style', sels(r[1]))
        if r[0] == 'media':
            return ('media', [sels(s) for s in r[1]])
        return tuple(r)
    if k == 'parse':
        return ('parse', tuple((a, b) for a, b in o[1]), [rule(r) for r in o[2]])
    if k == 'setsel':
        return ('setsel', o[1], sels(o[2]))
    if k == 'insmedia':
        return ('insmedia', o[1], sels(o[2]), o[3])
    if k == 'insstyle':
        return ('insstyle', sels(o[1]), o[2], o[3])
    if k == 'insobj':
        return ('insobj', sels(o[1]), tuple((a, b) for a, b in o[2]), o[3], o[4])
    return tuple(o)


def from_json(h):
    return [from_json_op(o) for o in h]


# ------------------------------------------------------------------------------------------------
# generators
def O(val, typ=None, src=None):
    return ('o', val, ser_of(typ, val), src if src is not None else ser_of(typ, val))


def gen_ps(rng, prefixes, allow_any=True):
    r = rng.random()
    if r < 0.30:
        return 'N'
    if r < 0.42 and allow_any:
        return 'A'
    if r < 0.52:
        return 'E'
    if prefixes:
        return ('P', rng.choice(prefixes))
    return 'N'


def gen_compound(rng, prefixes, last):
    items = []
    r = rng.random()
    if r < 0.55:
        items.append(('q', 't', gen_ps(rng, prefixes), rng.choice(NAMES)))
    elif r < 0.75:
        items.append(('q', 'u', gen_ps(rng, prefixes), '*'))
    nmods = rng.choice([0, 0, 1, 1, 2]) if items else rng.choice([1, 1, 2])
    for _ in range(nmods):
        m = rng.random()
        if m < 0.15:
            items.append(O('.' + rng.choice(['c', 'k'])))
        elif m < 0.25:
            items.append(O('#' + rng.choice(['i', 'j'])))
        elif m < 0.70:
            items.append(O('['))
            items.append(('q', 'a', gen_ps(rng, prefixes), rng.choice(NAMES)))
            v = rng.random()
            if v < 0.3:
                items.append(O('='))
                items.append(O(rng.choice(['v', 'w'])))
            elif v < 0.45:
                items.append(O('='))
                items.append(O('s', 'STRING'))
            items.append(O(']'))
        elif m < 0.80:
            items.append(O(':hover'))
        else:
            items.append(O(':not('))
            if rng.random() < 0.7:
                items.append(('q', 'n', gen_ps(rng, prefixes), rng.choice(NAMES)))
            else:
                items.append(('q', 'u', gen_ps(rng, prefixes), '*'))
            items.append(O(')'))
    if last and rng.random() < 0.08:
        items.append(O('::after'))
    return items


def gen_selector(rng, prefixes, bad=0.02):
    n = rng.choice([1, 1, 1, 2, 2, 3])
    items = []
    for i in range(n):
        if i:
            c = rng.choice([' ', ' ', '>', '+', '~'])
            if c == ' ':
                items.append(O(' ', 'descendant', rng.choice([' ', '  '])))
            else:
                typ = {'>': 'child', '+': 'adjacent-sibling', '~': 'following-sibling'}[c]
                items.append(O(c, typ, rng.choice([c, ' %s ' % c, '%s ' % c])))
        items += gen_compound(rng, prefixes, i == n - 1)
    if rng.random() < bad:
        items.insert(rng.randint(1, len(items)), ('x',))
    return items


def gen_sels(rng, prefixes, bad=0.02):
    return [gen_selector(rng, prefixes, bad) for _ in range(rng.choice([1, 1, 1, 2, 3]))]


def gen_dict(rng):
    d = {}
    for _ in range(rng.choice([0, 1, 2, 2, 3])):
        d[rng.choice(PFX + [''])] = rng.choice(URIS + ([''] if rng.random() < 0.05 else []))
    return d


def pick_prefixes(rng, declared, undeclared=0.08):
    """prefixes a generated selector may use: mostly declared ones"""
    ps = [p for p in declared if p]
    if rng.random() < undeclared:
        ps = ps + [rng.choice(['zz'] + PFX)]
    return ps


def gen_start(rng):
    src = []
    if rng.random() < 0.2:
        src.append(('other', 'charset'))
    if rng.random() < 0.2:
        src.append(('other', 'comment'))
    if rng.random() < 0.2:
        src.append(('other', 'import'))
    declared = []
    for _ in range(rng.choice([0, 1, 1, 2, 2, 3, 4])):
        p = rng.choice(PFX + ['', ''])
        u = rng.choice(URIS) if rng.random() > 0.01 else '*'
        ccc = ''.join(rng.choice('0001') for _ in range(3))
        src.append(('ns', p, u, ccc))
        declared.append(p)
        if rng.random() < 0.1:
            src.append(('other', 'comment'))
    if rng.random() < 0.15:
        src.append(('other', 'variables'))
    for _ in range(rng.choice([0, 1, 2, 2, 3, 4])):
        r = rng.random()
        if r < 0.65:
            src.append(('style', gen_sels(rng, pick_prefixes(rng, declared))))
        elif r < 0.80:
            src.append(('media', [gen_sels(rng, pick_prefixes(rng, declared)) for _ in range(rng.choice([1, 2]))]))
        else:
            src.append(('other', rng.choice(['page', 'fontface', 'unknown', 'comment'])))
    if rng.random() < 0.12 and len(src) > 1:
        # out of order: move one rule somewhere else
        i = rng.randrange(len(src))
        r = src.pop(i)
        src.insert(rng.randrange(len(src) + 1), r)
    init = ()
    if rng.random() < 0.04:
        init = tuple(gen_dict(rng).items())
    return ('parse', init, src)


class HistoryGen:
    """iterator over the operations of one history; parameters are chosen looking at the implementation's
    current sheet (so that indices hit rules of the right kind most of the time)"""
    def __init__(self, rng):
        self.rng = rng
        self.n = rng.choice([1, 2, 3, 4, 5, 6, 8, 10])
        self.i = -1
        self.kind = 'gen'
        self.im = None

    def bind(self, im):
        self.im = im

    def __iter__(self):
        return self

    def __next__(self):
        self.i += 1
        if self.i == 0:
            return gen_start(self.rng)
        if self.i > self.n:
            raise StopIteration
        return self.gen_op()

    def gen_idx(self, n):
        r = self.rng.random()
        if r < 0.25:
            return None
        if r < 0.30:
            return n + self.rng.choice([1, 2])
        return self.rng.randint(0, n)

    def gen_op(self):
        rng, sheet = self.rng, self.im.sheet
        rules = list(sheet.cssRules)
        n = len(rules)
        ns_idx = [i for i, r in enumerate(rules) if r.type == r.NAMESPACE_RULE]
        st_idx = [i for i, r in enumerate(rules) if r.type == r.STYLE_RULE]
        declared = list(dict(sheet.namespaces.items()))
        uris_here = [rules[i].namespaceURI for i in ns_idx]
        pfx_here = [rules[i].prefix for i in ns_idx]

        def some_prefix():
            r = rng.random()
            if r < 0.45 and pfx_here:
                return rng.choice(pfx_here)
            if r < 0.6:
                return ''
            return rng.choice(PFX)

        def some_uri():
            r = rng.random()
            if r < 0.45 and uris_here:
                return rng.choice(uris_here)
            if r < 0.48:
                return ''
            return rng.choice(URIS)

        def ns_pos():
            r = rng.random()
            if r < 0.2:
                return None
            if ns_idx and r < 0.7:
                return max(0, min(n, rng.choice(ns_idx) + rng.choice([0, 0, 1, 1, -1])))
            return self.gen_idx(n)

        k = rng.choices(['insns', 'insnstext', 'setns', 'delns', 'delrule', 'setprefix', 'setsel', 'insstyle',
                         'insobj', 'parse', 'setnstext', 'rawdel', 'insmedia'],
                        weights=[14, 8, 16, 10, 10, 9, 12, 10, 5, 2, 5, 2, 4])[0]
        if k == 'insmedia':
            md_idx = [i for i, r in enumerate(rules) if r.type == r.MEDIA_RULE]
            if md_idx:
                i = rng.choice(md_idx)
                m = len(rules[i].cssRules)
                x = rng.random()
                idx = None if x < 0.4 else (m + 1 if x < 0.47 else rng.randint(0, m))
                return ('insmedia', i, gen_sels(rng, pick_prefixes(rng, declared), bad=0.04), idx)
            k = 'insstyle'
        if k == 'setnstext' and ns_idx:
            i = rng.choice(ns_idx)
            u = rules[i].namespaceURI if rng.random() < 0.75 else some_uri() or 'u9'
            r = rng.random()
            p = '' if r < 0.2 else (rng.choice(pfx_here) if r < 0.5 else rng.choice(PFX + ['s']))
            return ('setnstext', i, p, u, ''.join(rng.choice('0001') for _ in range(3)))
        if k == 'rawdel' and n:
            i = rng.choice(ns_idx) if ns_idx and rng.random() < 0.7 else rng.randrange(n)
            return ('rawdel', i, rng.choice(['del', 'pop']))
        if k in ('setnstext', 'rawdel'):
            k = 'setns'
        if getattr(self, 'follow_up', False) and ns_idx:
            # after an insert between @namespace rules: touch the surviving rule objects with a setter
            self.follow_up = False
            if rng.random() < 0.7:
                return ('setprefix', rng.choice(ns_idx), rng.choice(pfx_here + ['s']))
            return ('setns', rng.choice(pfx_here), rng.choice(uris_here))
        if k == 'insns':
            if len(ns_idx) >= 2 and rng.random() < 0.25:
                # a rule OBJECT between two existing @namespace rules that takes the URI of the earlier and the
                # prefix of the later one: the clean-up removes the earlier rule and may then be refused
                a, b = sorted(rng.sample(range(len(ns_idx)), 2))
                self.follow_up = True
                return ('insns', pfx_here[b], uris_here[a], rng.randint(ns_idx[a] + 1, ns_idx[b]), 0)
            return ('insns', some_prefix(), some_uri(), ns_pos(), int(rng.random() < 0.35))
        if k == 'insnstext':
            ccc = ''.join(rng.choice('0001') for _ in range(3))
            u = some_uri() or rng.choice(URIS)
            return ('insnstext', some_prefix(), u, ccc, ns_pos(), int(rng.random() < 0.35))
        if k == 'setns':
            return ('setns', some_prefix(), some_uri())
        if k == 'delns':
            return ('delns', some_prefix() if rng.random() < 0.9 else 'zz')
        if k == 'delrule':
            if ns_idx and rng.random() < 0.7:
                return ('delrule', rng.choice(ns_idx))
            return ('delrule', rng.randint(0, n + 1))
        if k == 'setprefix':
            if not ns_idx:
                return ('delns', some_prefix())
            r = rng.random()
            q = '' if r < 0.15 else (rng.choice(pfx_here) if r < 0.35 else rng.choice(PFX + ['s', 't']))
            return ('setprefix', rng.choice(ns_idx), q)
        if k == 'setsel':
            if not st_idx:
                return ('insstyle', gen_sels(rng, pick_prefixes(rng, declared)), None, 1)
            return ('setsel', rng.choice(st_idx), gen_sels(rng, pick_prefixes(rng, declared), bad=0.04))
        if k == 'insstyle':
            return ('insstyle', gen_sels(rng, pick_prefixes(rng, declared), bad=0.04), self.gen_idx(n),
                    int(rng.random() < 0.4))
        if k == 'insobj':
            d = gen_dict(rng)
            if rng.random() < 0.6:
                # a rule that could have come from a sheet with the same declarations
                d = dict(sheet.namespaces.items())
            sels = gen_sels(rng, [p for p in d if p], bad=0)
            return ('insobj', sels, tuple(d.items()), self.gen_idx(n), int(rng.random() < 0.4))
        return gen_start(rng)


class WorldGen:
    """operations of one two-sheet history: two parsed start sheets, then a style rule object is taken from one of
    them and followed while it is inserted into the other sheet, deleted from either, re-targeted, and while
    namespace operations run on both sheets"""
    SIDE_KINDS = ('insns', 'insnstext', 'setns', 'delns', 'delrule', 'setprefix', 'setsel', 'insstyle', 'setnstext')

    def __init__(self, rng):
        self.rng = rng
        self.n = rng.choice([3, 4, 5, 6, 8, 10])
        self.i = -1
        self.kind = 'world'
        self.w = None

    def bind(self, w):
        self.w = w

    def __iter__(self):
        return self

    def __next__(self):
        self.i += 1
        if self.i < 2:
            st = gen_start(self.rng)
            src = [r for r in st[2] if r != ('other', 'variables')]
            if not any(r[0] == 'style' for r in src):
                src.append(('style', gen_sels(self.rng, [r[1] for r in src if r[0] == 'ns' and r[1]], bad=0)))
            return ('w', self.i, ('parse', (), src))
        if self.i > self.n + 1:
            raise StopIteration
        return self.gen_op()

    def side_op(self, side):
        g = HistoryGen(self.rng)
        g.bind(self.w.s[side])
        for _ in range(20):
            op = g.gen_op()
            if op[0] in self.SIDE_KINDS:
                return ('w', side, op)
        return ('w', side, ('setns', 'p', 'u1'))

    def gen_op(self):
        rng, w = self.rng, self.w
        sheets = [w.s[0].sheet, w.s[1].sheet]
        decl = [list(dict(s.namespaces.items())) for s in sheets]
        if w.obj is None:
            cands = [(sd, i) for sd in (0, 1) for i, r in enumerate(sheets[sd].cssRules) if r.type == r.STYLE_RULE]
            if cands and rng.random() < 0.85:
                sd, i = rng.choice(cands)
                return ('wgrab', sd, i, gen_sels(rng, pick_prefixes(rng, decl[sd], 0.03), bad=0.01))
            sd = rng.randrange(2)
            return ('w', sd, ('insstyle', gen_sels(rng, pick_prefixes(rng, decl[sd], 0.03), bad=0), None, 1))
        obj = w.obj
        where = [[i for i, x in enumerate(s.cssRules) if x is obj] for s in sheets]
        r = rng.random()
        if r < 0.25:
            to = [sd for sd in (0, 1) if not where[sd]]
            if to:
                sd = rng.choice(to)
                n = len(sheets[sd].cssRules)
                x = rng.random()
                idx = None if x < 0.4 else (n + 1 if x < 0.45 else rng.randint(0, n))
                return ('wshare', sd, idx, int(rng.random() < 0.4))
        if r < 0.40:
            sd = rng.randrange(2)
            return ('wobjsel', gen_sels(rng, pick_prefixes(rng, decl[sd], 0.03), bad=0.02))
        if r < 0.58:
            sides = [sd for sd in (0, 1) if where[sd]]
            if sides:
                sd = rng.choice(sides)
                i = where[sd][0]
                if rng.random() < 0.5:
                    return ('w', sd, ('delrule', i))
                return ('w', sd, ('setsel', i, gen_sels(rng, pick_prefixes(rng, decl[rng.randrange(2)], 0.03), bad=0.02)))
        return self.side_op(rng.randrange(2))


def world_boundary_histories():
    P = lambda p: ('P', p)
    ns = lambda p, u, c='000': ('ns', p, u, c)
    st = lambda *sels: ('style', [list(s) for s in sels])
    A = ('w', 0, ('parse', (), [ns('p', 'u1'), st([T(P('p'), 'a')])]))
    B = ('w', 1, ('parse', (), [ns('q', 'u1'), ns('r', 'u2'), st([T(P('r'), 'b')])]))
    g = ('wgrab', 0, 1, [[T(P('p'), 'a')]])
    h = []
    # one object in two lists: follows the sheet it was inserted into last
    h.append([A, B, g, ('wshare', 1, None, 1), ('wobjsel', [[T(P('r'), 'c')]]), ('w', 0, ('delns', 'p')),
              ('w', 1, ('setns', 'z', 'u2')), ('w', 0, ('delrule', 0)), ('w', 1, ('setns', 'y', 'u2')),
              ('wobjsel', [[T('N', 'c')]]), ('wshare', 0, None, 1)])
    # the proper move: out of A first, then into B
    h.append([A, B, g, ('w', 0, ('delrule', 1)), ('wshare', 1, 1, 0), ('wshare', 1, 2, 0), ('w', 1, ('setns', 'z', 'u1')),
              ('w', 1, ('delns', 'z')), ('w', 0, ('delns', 'p'))])
    # positions: rules inserted and removed in front of the object, in both lists
    h.append([A, B, g, ('wshare', 1, 2, 0), ('w', 1, ('insstyle', [[T('N', 'x')]], 2, 0)),
              ('w', 0, ('insstyle', [[T('N', 'y')]], 1, 0)), ('w', 1, ('insns', 'k', 'u3', 0, 0)),
              ('w', 1, ('delrule', 3)), ('w', 0, ('setsel', 2, [[T(P('q'), 'd')]])), ('w', 1, ('delrule', 3)),
              ('wobjsel', [[T(P('p'), 'e')]])])
    # detached inside B (A.deleteRule), then a rejected @namespace insert into B rolls back and re-parents it
    h.append([('w', 0, ('parse', (), [ns('p', 'u3'), st([T('N', 'b')])])),
              ('w', 1, ('parse', (), [ns('p', 'a'), ns('', 'urn:x'), st([T(P('p'), 'a')]), st([T('N', 'x')])])),
              ('wgrab', 0, 1, [[T('A', 'x')]]), ('wshare', 1, None, 1), ('w', 0, ('delrule', 1)),
              ('w', 1, ('insns', '', 'a', 1, 0)), ('w', 1, ('setns', 'k', 'a'))])
    # the target sheet does not declare the namespace at all
    h.append([A, ('w', 1, ('parse', (), [st([T('N', 'b')])])), g, ('wshare', 1, None, 1)])
    return h


# ------------------------------------------------------------------------------------------------
def T(ps, name):
    return ('q', 't', ps, name)


def boundary_histories():
    """hand-written histories around the places where the code branches (one line each)"""
    P = lambda p: ('P', p)
    ns = lambda p, u, c='000': ('ns', p, u, c)
    st = lambda *sels: ('style', [list(s) for s in sels])
    a_p = [T(P('p'), 'a')]
    h = []
    base = [ns('p', 'u1'), st(a_p)]
    h.append([('parse', (), base), ('insns', 'p', 'u2', 1, 0)])
    h.append([('parse', (), base), ('insns', 'p', 'u2', 0, 0)])                 # clean-up raises
    h.append([('parse', (), [ns('q', 'u1'), ns('p', 'u2'),
                             st([T(P('q'), 'x')], [T(P('p'), 'y')], [O('['), ('q', 'a', P('p'), 'abc'), O(']')])]),
              ('insns', 'p', 'u1', 1, 0), ('setprefix', 0, 'p'), ('setprefix', 1, 'q'), ('setns', 'q', 'u1')])
    h.append([('parse', (), [ns('q', 'u'), ns('p', 'u2'), st([T(P('q'), 'x')])]), ('insns', 'p', 'u', None, 1)])
    h.append([('parse', (), [ns('p', 'u1'), st([T('N', 'a')])]), ('insns', 'p', 'u2', 0, 0)])
    h.append([('parse', (), base), ('insns', 'q', 'u1', 0, 0), ('insns', 'q', 'u1', 1, 0), ('delns', 'q'),
              ('delns', 'zz'), ('delrule', 0)])
    h.append([('parse', (), base), ('setns', 'p', 'u2'), ('setns', 'q', 'u1'), ('insnstext', 'q', 'u1', '000', None, 1)])
    h.append([('parse', (), [ns('p', 'u1'), ns('q', 'u2'), st(a_p), st([T(P('q'), 'b')])]), ('setprefix', 0, 'q')])
    h.append([('parse', (), [ns('', 'd'), ns('p', 'u1'), st([T('N', 'a')]),
                             st([T(P('p'), 'b'), O('['), ('q', 'a', P('p'), 'c'), O(']'), O('['), ('q', 'a', 'N', 'd'), O(']')])]),
              ('delns', ''), ('setns', 'p', 'd'), ('setns', '', 'u1'), ('setns', '', 'd')])
    h.append([('parse', (), [st([T('N', 'a')], [O('['), ('q', 'a', 'N', 'abc'), O(']')], [T('A', 'b')], [T('E', 'c')],
                               [('q', 'u', 'N', '*')])]), ('setns', '', 'u')])
    h.append([('parse', (), [ns('p', 'u'), st([O('['), ('q', 'a', P('p'), 'att'), O(']')]),
                             st([O(':not('), ('q', 'n', P('p'), 'a'), O(')')])]), ('setns', '', 'u')])
    h.append([('parse', (), [ns('p', 'a'), st([O('['), ('q', 'a', 'N', 'abc'), O(']')])]), ('delns', 'p')])
    h.append([('parse', (), [('other', 'variables'), ns('p', 'u'), st(a_p)])])
    h.append([('parse', (('p', 'u'),), [st(a_p)])])
    h.append([('parse', (), [ns('p', 'u1'), ns('q', 'u2'), ns('p', 'u2'), st(a_p), st([T(P('q'), 'a')])])])
    h.append([('parse', (), [ns('p', 'u'), ns('q', 'u'), st(a_p), st([T(P('q'), 'a')])]),
              ('setsel', 1, [[T(P('zz'), 'a')]]), ('insstyle', [[T(P('zz'), 'a')]], None, 0),
              ('insstyle', [[T(P('q'), 'e')]], 0, 0), ('insstyle', [[T(P('q'), 'e')]], 1, 0)])
    h.append([('parse', (), [ns('', 'd', '000'), st([T('N', 'a')])]), ('setprefix', 0, 'z')])
    h.append([('parse', (), [ns('p', 'u', '100'), st(a_p)]), ('setprefix', 0, 'k')])
    h.append([('parse', (), [ns('p', 'u', '010'), st(a_p)]), ('setprefix', 0, 'k'), ('setprefix', 0, '')])
    h.append([('parse', (), [('other', 'charset')]), ('insns', 'p', 'u', 0, 1)])
    h.append([('parse', (), [('other', 'charset'), ('other', 'import'), ('other', 'comment'), st([T('N', 'a')])]),
              ('insns', 'p', 'u', None, 1), ('insns', 'p2', 'u2', 1, 0), ('insns', 'p2', 'u2', 4, 0),
              ('insns', 'p2', 'u2', 3, 0), ('insns', 'p3', 'u3', 9, 0), ('insns', '', '', 2, 0),
              ('delrule', 9), ('insnstext', 'p4', 'u4', '000', 3, 0), ('insnstext', '', 'u5', '000', 3, 0),
              ('insnstext', 'p6', 'u6', '111', 3, 0)])
    h.append([('parse', (), [ns('p', 'u2'), st([T('N', 'b')])]),
              ('insobj', [[T(P('q'), 'a')]], (('q', 'u9'),), None, 1)])
    h.append([('parse', (), [ns('p', 'u1'), ('media', [[a_p], [[T(P('q'), 'b')]]])]), ('delns', 'p')])
    h.append([('parse', (), [ns('p', '*'), st([('q', 'u', P('p'), '*')])]), ('delns', 'p')])
    h.append([('parse', (), [ns('', 'd'), ns('q', 'e'), st([T('N', 'a')]), st([T(P('q'), 'b')])]),
              ('setnstext', 1, '', 'e', '000')])
    h.append([('parse', (), [ns('p', 'd', '010'), st(a_p)]), ('setnstext', 0, 'q', 'other', '000'),
              ('setnstext', 0, 'q', 'd', '101'), ('setnstext', 0, '', 'd', '000')])
    h.append([('parse', (), [ns('', 'd'), ns('p', 'u1'), ('media', [[[T('N', 'a')]]])]),
              ('insmedia', 2, [[T('N', 'b')], [T(P('p'), 'c')]], None), ('insmedia', 2, [[T(P('zz'), 'c')]], 0),
              ('insmedia', 2, [[T('E', 'e')]], 0), ('insmedia', 2, [[T('A', 'f')]], 4), ('delns', 'p'),
              ('delns', '')])
    h.append([('parse', (), base), ('rawdel', 0, 'del')])
    h.append([('parse', (), base), ('rawdel', 0, 'pop')])
    h.append([('parse', (), [ns('p', 'u1'), ns('q', 'u2'), st(a_p)]), ('rawdel', 1, 'del'), ('rawdel', 1, 'pop')])
    return h
