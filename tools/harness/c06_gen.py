"""C06: generator of style sheets (source text) that exercise every branch of the serializer.

Grammar stream: style / @media (nested) / @import / @namespace / @page with margin boxes / @font-face / @charset /
@variables / unknown at-rules / comments at rule, declaration, selector and value level / values with hashes,
numbers, strings, urls, functions, calc, var, IE expressions.  A share of the output is deliberately odd
(invalid properties, duplicates with different case/escapes, unknown at-rules inside declaration blocks, quoted
braces, empty blocks) because the content filters act exactly there.
"""

IDENTS = ['e\\ ', 'a', 'b', 'div', 'p', 'x', 'li', 'em', 'body', 'h1', 'td', 'A', 's\\pan']
CLASSES = ['c', 'x', 'main', 'nav-1', 'B']
PROPS = ['color', 'background', 'margin', 'padding', 'font-family', 'font', 'width', 'height', 'content', 'border',
         'top', 'left', 'display', 'background-color', 'line-height', 'z-index', 'opacity', 'src', 'x', 'foo-bar',
         '-moz-box', 'COLOR', 'c\\olor', 'Margin', 'unicode-range', 'quotes', 'filter']
UNITS = ['px', 'em', 'ex', 'cm', 'mm', 'in', 'pt', 'pc', '%', 'deg', 's', 'ms', 'Hz', 'PX', '', '']
KEYWORDS = ['red', 'blue', 'none', 'auto', 'inherit', 'bold', 'serif', 'left', 'solid', 'block', 'transparent', 'Red']
COMMENTS = ['/*c*/', '/* a b */', '/**/', '/* x\n y */', '/*;}{*/', '/*"*/']
MEDIA = ['screen', 'print', 'all', 'tv', 'handheld', 'projection', 'SCREEN', 'aural', 'braille']
MARGINS = ['@top-left', '@top-center', '@bottom-right', '@left-middle', '@TOP-right', '@bottom-left-corner']
STRINGS = ['"s"', "'s'", '"a b"', '""', '"a\\"b"', "'a\\'b'", '"}"', '"{"', '";"', '"a\\a b"', '"x/*y*/"', "'\"'",
           '"\\\\"', '"ä"', '" "', '"a,b"', '"+"']
URLS = ['url("a\\7f b")', 'url(a)', 'url(a.png)', 'url("a b")', "url('x')", 'url(a\\ b)', 'url()', 'url("a)b")', 'url( x )', 'URL(y)',
        'url(http://e.org/a?b=c&d)']
HASHES = ['#aabcbb', '#abbacc', '#aabbc0', '#fff', '#aabbcc', '#AABBCC', '#abcdef', '#aabbcd', '#112233', '#a1b2c3', '#AaBbCc', '#00000000', '#12']


def number(r):
    k = r.random()
    if k < 0.15:
        return '0'
    if k < 0.25:
        return r.choice(['0.0', '00', '0.50', '.5', '-.5', '+.5', '-0.5', '+0.25', '1.0', '1.50', '-0', '+0', '0.000001',
                         '1e3', '10.10', '100', '-1', '+1', '0.999999', '1.0000001', '123456789.5', '00.5', '-00.50'])
    sign = r.choice(['', '', '', '-', '+'])
    if k < 0.6:
        return sign + str(r.randint(0, 200))
    return sign + r.choice(['0', '', '1', '12']) + '.' + r.choice(['5', '25', '50', '05', '125', '0', '90'])


def dimension(r):
    return number(r) + r.choice(UNITS)


def comment(r):
    return r.choice(COMMENTS)


def ws(r):
    return r.choice(['', '', ' ', ' ', '  ', '\n', '\t', ' /*w*/ ']) if r.random() < 0.5 else ' '


def func(r, depth=0):
    k = r.random()
    if k < 0.2:
        a = [str(r.randint(0, 255)) for _ in range(3)]
        return r.choice(['rgb(%s)', 'RGB(%s)', 'rgb( %s )']) % r.choice([',', ', ', ' , ']).join(a)
    if k < 0.3:
        return 'rgba(%d, %d%%, 3, %s)' % (r.randint(0, 255), r.randint(0, 100), r.choice(['0.5', '.5', '1', '0']))
    if k < 0.4:
        return 'hsl(%d, %d%%, %d%%)' % (r.randint(0, 360), r.randint(0, 100), r.randint(0, 100))
    if k < 0.5:
        return 'attr(%s)' % r.choice(IDENTS)
    if k < 0.6:
        return 'counter(%s, %s)' % (r.choice(IDENTS), r.choice(KEYWORDS))
    name = r.choice(['f', 'foo', 'linear-gradient', 'translate', 'F'])
    args = [component(r, depth + 1) for _ in range(r.randint(0, 3))]
    return '%s(%s)' % (name, r.choice([', ', ',', ' , ', ' ']).join(args))


def calc(r, depth=0):
    def term():
        k = r.random()
        if k < 0.6:
            return dimension(r)
        if k < 0.75 and depth < 2:
            return '(%s)' % expr()
        if k < 0.85:
            return 'var(%s)' % r.choice(['zz', 'q9'])   # not defined: a resolved value inside calc() may be no number
        return number(r)

    def expr():
        s = term()
        for _ in range(r.randint(0, 3)):
            s += r.choice([' + ', ' - ', ' * ', ' / ', '*', '/', ' +  ']) + term()
        return s
    return r.choice(['calc(%s)', 'calc( %s )', 'CALC(%s)']) % expr()


def component(r, depth=0):
    k = r.random()
    if k < 0.25:
        return dimension(r)
    if k < 0.40:
        return r.choice(KEYWORDS)
    if k < 0.50:
        return r.choice(HASHES)
    if k < 0.58:
        return r.choice(STRINGS)
    if k < 0.66:
        return r.choice(URLS)
    if k < 0.78 and depth < 3:
        return func(r, depth)
    if k < 0.84 and depth < 2:
        return calc(r, depth)
    if k < 0.90:
        return r.choice(['var(a)', 'var(B)', 'var(zz)', 'var(a, 2px)', 'var(zz, red)', 'var(b,"s")', 'VAR(a)'])
    if k < 0.93:
        return r.choice(['U+0-7F', 'u+4??', 'U+26'])
    if k < 0.96:
        return r.choice(["expression(a+b)", "expression(document.body.clientWidth > 800 ? '800px' : 'auto')",
                         "progid:DXImageTransform.Microsoft.gradient(startColorstr='#80000000', endColorstr='#80000000')",
                         'alpha(opacity=50)'])
    return r.choice(IDENTS)


def value(r):
    n = r.choice([1, 1, 1, 2, 2, 3, 4])
    parts = [component(r)]
    for _ in range(n - 1):
        sep = r.choice([' ', ' ', ' ', ', ', ',', ' / ', '/', '  ', ' /*c*/ ', '\n'])
        parts.append(sep + component(r))
    return ''.join(parts)


def priority(r):
    k = r.random()
    if k < 0.75:
        return ''
    return r.choice([' !important', '!important', ' ! important', ' !IMPORTANT', ' !Im\\portant', ' !/*c*/important',
                     ' !important /*c*/', ' !x'])


def declaration(r):
    k = r.random()
    if k < 0.06:
        return comment(r)
    if k < 0.10:
        return r.choice(['@x y', '@foo "s" 1', '@bar {a b}', '@x "}"', '@X'])
    if k < 0.13:
        return r.choice(['color', 'color:', ':red', 'a b: c', 'color: red blue green !', '*color: red', '_width:1px',
                         'x: }', 'x: ]', 'color: #12345', '$a: b'])
    name = r.choice(PROPS)
    if name in ('color', 'background-color', 'COLOR', 'c\\olor') and r.random() < 0.7:
        v = r.choice(HASHES + KEYWORDS + ['rgb(1,2,3)', '4', 'rgb(1, 2, 3)', 'RED', '#FFF'])
    elif name in ('width', 'height', 'margin', 'padding', 'top', 'left', 'Margin') and r.random() < 0.7:
        v = ' '.join(dimension(r) for _ in range(r.randint(1, 4)))
    else:
        v = value(r)
    pre = r.choice(['', '', '', '/*n*/'])
    return '%s%s%s:%s%s%s' % (pre, name, ws(r) if r.random() < 0.2 else '', ws(r) if r.random() < 0.5 else '', v, priority(r))


def block(r, nmax=6, allow_empty=True):
    n = r.choice([0, 1, 1, 2, 2, 3, 4, nmax]) if allow_empty else r.randint(1, 4)
    ds = [declaration(r) for _ in range(n)]
    if ds and r.random() < 0.3:
        # duplicate a name with another spelling / priority
        ds.append(r.choice(['color: blue', 'COLOR: green !important', 'c\\olor: #aabbcc', 'margin: 0', 'color: red']))
    if ds and r.random() < 0.12:
        # the same name declared !important more than once
        ds += ['color: red !important', r.choice(['color: blue !important', 'COLOR: blue !important', 'margin: 1px']),
               r.choice(['color: green', 'c\\olor: green !important'])][:r.choice([2, 3])]
    sep = r.choice([';', '; ', ';\n', ' ; '])
    body = sep.join(ds)
    if ds and r.random() < 0.4:
        body += ';'
    if r.random() < 0.15:
        body += r.choice([' /*last*/', '/*last*/;', ' @x y;'])
    return body


def simple_selector(r, ns):
    k = r.random()
    s = ''
    if k < 0.55:
        s = r.choice(IDENTS)
    elif k < 0.65:
        s = '*'
    if ns and r.random() < 0.3:
        s = r.choice(ns + ['*', '']) + '|' + (s or r.choice(IDENTS))
    for _ in range(r.choice([0, 0, 1, 1, 2])):
        j = r.random()
        if j < 0.3:
            s += '.' + r.choice(CLASSES)
        elif j < 0.45:
            s += '#' + r.choice(['i', 'id1', 'X'])
        elif j < 0.6:
            s += r.choice(['[x]', '[x=y]', '[x="y z"]', "[x~='y']", '[lang|=en]', '[x^=y]', '[x$="y"]', '[x*=y]', '[ x = y ]'])
        elif j < 0.8:
            s += r.choice([':hover', ':first-child', '::after', ':before', ':LINK', ':lang(en)', ':not(.x)', ':not(a)',
                           ':nth-child(2n+1)', ':nth-child(2n + 1)', ':nth-child(odd)', ':nth-of-type(-n+3)',
                           ':nth-child( 3 )', ':nth-last-child(2n-1)'])
        else:
            s += r.choice(['/*s*/', ':focus', '.a.b'])
    return s or r.choice(IDENTS)


def selector(r, ns):
    s = simple_selector(r, ns)
    for _ in range(r.choice([0, 0, 0, 1, 1, 2, 3])):
        s += r.choice([' ', ' ', ' > ', '>', ' + ', '+', ' ~ ', '~', '  ', ' /*c*/ ']) + simple_selector(r, ns)
    return s


def selector_list(r, ns):
    return r.choice([', ', ',', ' , ', ',\n']).join(selector(r, ns) for _ in range(r.choice([1, 1, 1, 2, 3])))


def style_rule(r, ns):
    return '%s%s{%s}' % (selector_list(r, ns), ws(r), block(r))


def media_query(r):
    k = r.random()
    if k < 0.5:
        return r.choice(MEDIA)
    if k < 0.8:
        return '%s%s and (%s: %s)' % (r.choice(['', '', 'only ', 'not ']), r.choice(MEDIA),
                                      r.choice(['min-width', 'max-width', 'color', 'device-aspect-ratio']), dimension(r))
    if k < 0.9:
        return '(%s: %s)' % (r.choice(['min-width', 'orientation']), r.choice(['100px', 'landscape', '1.5em']))
    return '%s and (color)' % r.choice(MEDIA)


def media_list(r):
    return r.choice([', ', ',', ' , ']).join(media_query(r) for _ in range(r.choice([1, 1, 2, 3])))


def media_rule(r, ns, depth=0):
    inner = []
    for _ in range(r.choice([0, 1, 1, 2, 3])):
        k = r.random()
        if k < 0.6:
            inner.append(style_rule(r, ns))
        elif k < 0.7:
            inner.append(comment(r))
        elif k < 0.8 and depth < 2:
            inner.append(media_rule(r, ns, depth + 1))
        elif k < 0.86:
            inner.append(page_rule(r))
        elif k < 0.92:
            inner.append(unknown_rule(r))
        else:
            inner.append(font_face(r))
    kw = r.choice(['@media', '@media', '@MEDIA', '@med\\ia'])
    return '%s %s%s%s{%s}' % (kw, media_list(r), r.choice(['', '', ' /*m*/']), ws(r), ws(r).join(inner))


def page_rule(r):
    sel = r.choice(['', '', ' :first', ' :left', ' :right', ' name', ' name:first', ':FIRST'])
    parts = [block(r, 3)]
    for _ in range(r.choice([0, 0, 1, 2])):
        parts.append('%s%s{%s}' % (r.choice(MARGINS), ws(r), block(r, 2)))
    if r.random() < 0.2:
        parts.append(comment(r))
    kw = r.choice(['@page', '@page', '@PAGE'])
    return '%s%s%s{%s}' % (kw, sel, ws(r), ';'.join(parts) if r.random() < 0.5 else ' '.join(
        p + (';' if i == 0 and p.strip() else '') for i, p in enumerate(parts)))


def font_face(r):
    ds = ['font-family: %s' % r.choice(['x', '"My Font"', 'a, b']), 'src: %s' % r.choice(URLS)]
    if r.random() < 0.4:
        ds.append(r.choice(['foo: bar', 'font-weight: bold', 'color: red', 'unicode-range: U+0-7F', comment(r)]))
    if r.random() < 0.15:
        ds = []
    r.shuffle(ds)
    return '%s%s{%s}' % (r.choice(['@font-face', '@font-face', '@FONT-FACE']), ws(r), '; '.join(ds))


def unknown_rule(r, depth=0):
    kw = r.choice(['@foo', '@x', '@three-dee', '@-moz-document', '@FOO', '@keyframes'])

    def tok():
        k = r.random()
        if k < 0.3:
            return r.choice(IDENTS)
        if k < 0.45:
            return dimension(r)
        if k < 0.55:
            return r.choice(STRINGS)
        if k < 0.62:
            return r.choice(URLS)
        if k < 0.7:
            return r.choice(['+', '>', '~', ',', ':', '/', '=', '*', '-', '.', '!', '%'])
        if k < 0.76:
            return r.choice(['(a b)', '[x]', '(1 + 2)', 'f(a, b)', '[a=b]'])
        if k < 0.8:
            return comment(r)
        if k < 0.85:
            return r.choice(HASHES)
        return r.choice(['1 + 2', '2n+1', 'a:b', 'a , b', '1px+2px'])

    prelude = ' '.join(tok() for _ in range(r.randint(0, 4)))
    if r.random() < 0.45:
        return '%s %s;' % (kw, prelude)
    inner = []
    for _ in range(r.randint(0, 4)):
        k = r.random()
        if k < 0.5:
            inner.append(tok())
        elif k < 0.65:
            inner.append('%s: %s;' % (r.choice(PROPS), component(r)))
        elif k < 0.8 and depth < 2:
            inner.append('{ %s }' % ' '.join(tok() for _ in range(r.randint(0, 3))))
        elif k < 0.9 and depth < 2:
            inner.append(unknown_rule(r, depth + 1))
        else:
            inner.append('%s { %s }' % (r.choice(IDENTS), block(r, 2)))
    return '%s %s%s{%s}' % (kw, prelude, ws(r), ' '.join(inner))


def sheet(r, size=None):
    """returns CSS source text"""
    out = []
    ns = []
    if r.random() < 0.2:
        out.append(r.choice(['@charset "utf-8";', '@charset "ascii";', '@charset "iso-8859-1";']))
    if r.random() < 0.2:
        out.append(comment(r))
    for _ in range(r.choice([0, 0, 0, 1, 2])):
        href = r.choice(['"x.css"', "'y.css'", 'url(z.css)', 'url("a b.css")', 'url( q.css )'])
        media = '' if r.random() < 0.5 else ' ' + media_list(r)
        name = r.choice(['', '', '', ' "nm"'])
        c = r.choice(['', '', ' /*i*/'])
        out.append('%s%s %s%s%s;' % (r.choice(['@import', '@import', '@IMPORT', '@im\\port']), c, href, media, name))
    for _ in range(r.choice([0, 0, 0, 1, 2, 3])):
        prefix = r.choice(['p', 'q', 'svg', ''])
        uri = r.choice(['"u"', '"http://x/y"', 'url(v)', '"w"', '""'])
        out.append('%s %s%s%s;' % (r.choice(['@namespace', '@namespace', '@NAMESPACE']), prefix, ' ' if prefix else '', uri))
        if prefix and prefix not in ns:
            ns.append(prefix)
    if r.random() < 0.25:
        vs = []
        for _ in range(r.randint(0, 3)):
            vs.append('%s: %s' % (r.choice(['a', 'B', 'b', 'c1', 'A']), component(r)))
        if vs and r.random() < 0.3:
            # the block ends with an escaped blank (part of the last value, not white space)
            vs.append('%s: %s' % (r.choice(['a', 'b']), r.choice(['e\\ ', 'x e\\ ', '1px e\\ '])))
            if r.random() < 0.2:
                vs.append(comment(r))
        out.append('%s {%s}' % (r.choice(['@variables', '@variables', '@VARIABLES']), '; '.join(vs)))
    n = size if size is not None else r.choice([1, 1, 2, 2, 3, 4, 6])
    for _ in range(n):
        k = r.random()
        if k < 0.50:
            out.append(style_rule(r, ns))
        elif k < 0.62:
            out.append(media_rule(r, ns))
        elif k < 0.70:
            out.append(page_rule(r))
        elif k < 0.76:
            out.append(font_face(r))
        elif k < 0.86:
            out.append(unknown_rule(r))
        elif k < 0.94:
            out.append(comment(r))
        elif k < 0.97:
            out.append(r.choice(['<!--', '-->']))
        else:
            out.append(r.choice(['a{}', '@media all{}', '@page{}', 'a{/*only*/}', '@media print{a{}}', '@font-face{}']))
    return r.choice(['\n', ' ', '', '\n\n']).join(out)
