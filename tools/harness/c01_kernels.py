"""C01 — tie of the composed kernels (Model/ParseAll.lean: text -> tokens -> sheet dispatcher -> selector machine /
media engine) to the code.

Implementation side (worker): the text is tokenized by the real tokenizer and parsed by parseString while the two
setters the dispatcher hands preludes to — SelectorList.selectorText = (tokens, namespaces) and
MediaList.mediaText = tokens — are wrapped: every call is recorded with its token list, the namespaces that apply,
and what came out (wellformed, or the exception).

Model side (driver): `pipe` runs the whole composition on the text (what stays opaque — property values, bodies of
the other at-rules, @namespace — is answered by the real sub-parsers on the token lists the model shows, exactly as in
C04); `selcall` / `mediacall` run the selector machine / media engine on every recorded prelude.

Compared: the token stream, the tokenizer's stop reason and iteration count, the cssRules projection (C04's),
the outcome of every recorded call (ok+wellformed / raised / outside the media model's domain), and the domain
predicates the totality theorems assume (`selDom` must hold on every recorded selector prelude — that is theorem
`stream_selDom`; `mediaDom` is the stated guard of `media_engine_total_partial`, and how often it fails is counted).
"""
import json

from lib.framework import enc, time_limit, TimeLimit
from harness import c04 as K


def wire(toks):
    return ','.join('%s:%s' % (t[0], enc(t[1])) for t in toks) or '-'


def ns_wire(d):
    return '&'.join('%s=%s' % (enc(p), enc(u)) for p, u in d.items()) or '-'


_REC = None


def _install():
    """wrap the two setters (in this worker process only)"""
    global _REC
    if _REC is not None:
        return _REC
    K.cu()
    from cssutils.css.selectorlist import SelectorList
    from cssutils.stylesheets.medialist import MediaList
    rec = {'sel': [], 'media': []}
    sget, sset = SelectorList.selectorText.fget, SelectorList.selectorText.fset
    mget, mset = MediaList.mediaText.fget, MediaList.mediaText.fset

    def nsdict(ns):
        try:
            return dict(ns.namespaces)
        except AttributeError:
            return dict(ns)

    def sel_set(self, value):
        toks = None
        if isinstance(value, tuple) and not isinstance(value[0], str):
            toks = list(value[0])
            value = (list(toks), value[1])
            try:
                ns = self.parentRule.parentStyleSheet.namespaces
            except AttributeError:
                ns = value[1]
            try:
                nsd = nsdict(ns)
            except Exception:
                nsd = None
        try:
            sset(self, value)
        except BaseException as e:
            if toks is not None:
                rec['sel'].append((nsd, toks, 'RAISE ' + type(e).__name__))
            raise
        if toks is not None:
            rec['sel'].append((nsd, toks, bool(self.wellformed)))

    def media_set(self, value):
        toks = None
        if isinstance(value, list):
            toks = list(value)
            value = list(toks)
        try:
            mset(self, value)
        except BaseException as e:
            if toks is not None:
                rec['media'].append((toks, 'RAISE ' + type(e).__name__))
            raise
        if toks is not None:
            rec['media'].append((toks, bool(self.wellformed)))

    SelectorList.selectorText = property(sget, sel_set)
    MediaList.mediaText = property(mget, media_set)
    _REC = rec
    return rec


def _proj_items_unresolved(style):
    """C04's projection of a declaration block, with a declaration's value shown as written: C04's model side
    renders values outside any sheet, where `var()` cannot be resolved"""
    c = K.cu()
    old = c.ser.prefs.resolveVariables
    c.ser.prefs.resolveVariables = False
    try:
        return _orig_proj_items(style)
    finally:
        c.ser.prefs.resolveVariables = old


_orig_proj_items = K.proj_items_real
K.proj_items_real = _proj_items_unresolved


def kernel_case(text):
    """worker: real tokens (with / without comments), recorded prelude calls, cssRules projection"""
    rec = _install()
    rec['sel'].clear()
    rec['media'].clear()
    c = K.cu()
    from cssutils.tokenize2 import Tokenizer
    out = {}
    out['toks1'] = [tuple(t) for t in Tokenizer(doComments=True).tokenize(text, fullsheet=True)]
    out['toks0'] = [tuple(t) for t in Tokenizer(doComments=False).tokenize(text, fullsheet=True)]
    try:
        sheet = c.CSSParser(fetcher=K.null_fetcher).parseString(text)
        out['real'] = K.strip_proj(K.proj_rules_real(sheet.cssRules))
    except Exception as e:
        out['real'] = ['RAISE', type(e).__name__]
    out['sel'] = [(ns, [(t[0], t[1]) for t in toks], r) for ns, toks, r in rec['sel']]
    out['media'] = [([(t[0], t[1]) for t in toks], r) for toks, r in rec['media']]
    return out


def model_pipes(ctx, texts, toklists):
    """-> (tree | str | None, Orc) per text; the oracle iteration of C04 with the `pipe` request"""
    n = len(texts)
    orcs = [K.Orc(t) for t in toklists]
    res = [None] * n
    if not ctx.model_ok:
        return list(zip(res, orcs))
    encs = [enc(t) for t in texts]
    out = ctx.driver(['nsq 1 %s' % e for e in encs])
    for i, line in enumerate(out):
        try:
            keys = json.loads(line)
        except ValueError:
            res[i] = 'nsq: ' + line
            continue
        for key in keys:
            orcs[i].ask('n:%s' % key)
    pending = [i for i in range(n) if res[i] is None]
    for rnd in range(8):
        if not pending:
            break
        # the machines answer `s:` and `m:`; those entries are sent too (the driver ignores them) but never decide
        lines = []
        for i in pending:
            ent = [e for e in orcs[i].entries().split(',') if e[:2] in ('v:', 'a:', 'n:')]
            lines.append('pipe 1 %s %s' % (encs[i], ','.join(ent) or '-'))
        out = ctx.driver(lines)
        nxt = []
        for i, line in zip(pending, out):
            if not line.startswith('{'):
                res[i] = line
                continue
            tree = json.loads(line)
            missing = [q for q in K.shown_queries(tree['rules']) if q not in orcs[i].table]
            for q in missing:
                orcs[i].ask(q)
            if any(q[:2] in ('v:', 'a:', 'n:') for q in missing):
                nxt.append(i)        # an opaque answer was missing: the model has to run again with it
            else:
                res[i] = tree
        pending = nxt
    for i in pending:
        res[i] = 'oracle iteration did not converge'
    return list(zip(res, orcs))
