"""C11 harness, implementation side: prior states, observable snapshots, field fingerprints.

Everything here talks to the real cssutils only; nothing depends on the Lean model."""
import logging
import xml.dom

GOOD_IMPORT = 'i { top: 0 }'
BAD_IMPORT = 'j { top: 0 } $$$ {'


class Fetch:
    """fetcher for @import: *.css -> a clean sheet; names containing `bad` -> a sheet with a syntax error.
    Remembers what it served (the region predicate of finding C11-import-fetch needs it)."""

    def __init__(self):
        self.served = []

    def __call__(self, url):
        self.served.append(url)
        if 'bad' in url:
            return None, BAD_IMPORT
        if 'missing' in url:
            return None
        return None, GOOD_IMPORT


def cssutils_mod():
    import cssutils
    cssutils.log.setLevel(logging.FATAL)
    return cssutils


def parse_sheet(text, fetch=None):
    cu = cssutils_mod()
    fetch = fetch or Fetch()
    p = cu.CSSParser(fetcher=fetch, raiseExceptions=False)
    sheet = p.parseString(text, href='http://example.test/base/main.css')
    sheet._fetcher = fetch      # DOM edits of @import rules after parsing use the same fetcher
    return sheet, fetch


# ---------------------------------------------------------------------------------------------------
# observable snapshot (property level): what the public API shows, with object identities of list members
class Ids:
    def __init__(self):
        self.map = {}

    def __call__(self, o):
        if o is None:
            return None
        return self.map.setdefault(id(o), len(self.map))


def _text(o, attr):
    try:
        v = getattr(o, attr)
    except xml.dom.DOMException as e:      # a getter must not raise, note it rather than hide it
        return 'RAISES:' + type(e).__name__
    if isinstance(v, bytes):
        v = v.decode('utf-8', 'replace')
    return v


def snap_value(v, ids):
    return ('Value', type(v).__name__, ids(v), _text(v, 'cssText'), getattr(v, 'wellformed', None),
            getattr(v, 'type', None), repr(getattr(v, 'value', None)))


def snap_propertyvalue(pv, ids):
    if pv is None:
        return None
    items = []
    try:
        for v in pv:
            items.append(snap_value(v, ids))
    except Exception as e:     # noqa: BLE001
        items.append('ITER-RAISES:' + type(e).__name__)
    return ('PropertyValue', ids(pv), _text(pv, 'cssText'), _text(pv, 'value'), pv.wellformed, tuple(items))


def snap_property(p, ids):
    return ('Property', ids(p), _text(p, 'cssText'), p.name, p.literalname, _text(p, 'value'), p.priority,
            p.literalpriority, p.wellformed, snap_propertyvalue(p.propertyValue, ids), ids(p.parent))


def snap_style(st, ids):
    if st is None:
        return None
    props = tuple(snap_property(p, ids) for p in st.getProperties(all=True))
    eff = tuple(ids(p) for p in st.getProperties())
    keys = tuple(st.keys())
    # name-level queries: item(i), and per normalised name the properties / value / priority found under it
    byname = tuple((k, tuple(ids(p) for p in st.getProperties(k, all=True)), st.getPropertyValue(k),
                    st.getPropertyPriority(k)) for k in keys)
    items = tuple(st.item(i) for i in range(st.length))
    return ('Style', ids(st), _text(st, 'cssText'), st.length, keys, items, byname, props, eff,
            tuple(type(c).__name__ for c in st.children()), ids(st.parentRule))


def snap_selector(s, ids):
    lit = tuple((str(i.type), i.value if isinstance(i.value, (str, tuple)) else type(i.value).__name__)
                for i in s.seq)
    return ('Selector', ids(s), _text(s, 'selectorText'), lit, s.specificity, s.wellformed, repr(s.element),
            tuple(sorted(s._getUsedUris())), ids(s.parent))


def snap_selectorlist(sl, ids):
    if sl is None:
        return None
    return ('SelectorList', ids(sl), _text(sl, 'selectorText'), sl.length, sl.wellformed,
            tuple(snap_selector(s, ids) for s in sl), ids(sl.parentRule))


def snap_mq(mq, ids):
    lit = tuple(i.value if isinstance(i.value, str) else type(i.value).__name__ for i in mq.seq)
    return ('MediaQuery', ids(mq), _text(mq, 'mediaText'), lit, mq.mediaType, mq.wellformed)


def snap_medialist(ml, ids):
    if ml is None:
        return None
    return ('MediaList', ids(ml), _text(ml, 'mediaText'), ml.length, ml.wellformed,
            tuple(snap_mq(item.value, ids) for item in ml), ids(ml.parentRule))


def snap_variables(v, ids):
    if v is None:
        return None
    lit = tuple(i.value[0] for i in v.seq if i.type == 'var')      # names as written
    return ('Variables', ids(v), _text(v, 'cssText'), v.length, tuple(v.keys()), lit,
            tuple(v.item(i) for i in range(v.length)),
            tuple(v.getVariableValue(k) for k in v.keys()), ids(v.parentRule))


def snap_rule(r, ids, depth=0):
    cu = cssutils_mod()
    t = r.type
    # `_keyword` = the at-keyword as written: serialised when cssutils.ser.prefs.defaultAtKeyword is False (serialize.py:355)
    base = ('Rule', type(r).__name__, ids(r), t, _text(r, 'cssText'), r.wellformed, getattr(r, 'atkeyword', None),
            ids(r.parentRule), ids(r.parentStyleSheet), getattr(r, '_keyword', None))
    extra = []
    if t == r.STYLE_RULE:
        extra = [snap_selectorlist(r.selectorList, ids), snap_style(r.style, ids), _text(r, 'selectorText')]
    elif t == r.CHARSET_RULE:
        extra = [r.encoding]
    elif t == r.IMPORT_RULE:
        ss = r.styleSheet
        extra = [r.href, r.hreftype, r.name, snap_medialist(r.media, ids), getattr(r, 'hrefFound', None),
                 ids(ss), None if ss is None else _text(ss, 'cssText'), None if ss is None else ss.title]
    elif t == r.MEDIA_RULE:
        extra = [snap_medialist(r.media, ids), r.name, tuple(snap_rule(x, ids, depth + 1) for x in r.cssRules)]
    elif t == r.FONT_FACE_RULE:
        extra = [snap_style(r.style, ids), r.valid]
    elif t == r.PAGE_RULE:
        extra = [_text(r, 'selectorText'), r.specificity, snap_style(r.style, ids),
                 tuple(snap_rule(x, ids, depth + 1) for x in r.cssRules),
                 tuple(getattr(x, 'margin', None) for x in r.cssRules)]
    elif t == r.NAMESPACE_RULE:
        extra = [r.prefix, r.namespaceURI]
    elif t == r.VARIABLES_RULE:
        extra = [snap_variables(r.variables, ids)]
    elif t == r.MARGIN_RULE:
        extra = [r.margin, snap_style(r.style, ids)]
    elif t == r.UNKNOWN_RULE or t == r.COMMENT:
        extra = []
    del cu
    return base + tuple(extra)


def snap_sheet(s, ids):
    if s is None:
        return None
    try:
        ns = tuple(sorted((k or '', v) for k, v in s.namespaces.items()))
    except xml.dom.DOMException as e:
        ns = 'RAISES:' + type(e).__name__
    return ('Sheet', ids(s), _text(s, 'cssText'), s.encoding, ns, tuple(snap_rule(r, ids) for r in s.cssRules),
            snap_variables(s.variables, ids), snap_medialist(s.media, ids), s.title, s.href, s.disabled,
            ids(s.ownerRule), ids(s.parentStyleSheet))


def snap_any(o, ids):
    cu = cssutils_mod()
    c, st = cu.css, cu.stylesheets
    if o is None:
        return None
    if isinstance(o, c.CSSStyleSheet):
        return snap_sheet(o, ids)
    if isinstance(o, c.CSSRule):
        return snap_rule(o, ids)
    if isinstance(o, c.CSSStyleDeclaration):
        return snap_style(o, ids)
    if isinstance(o, c.Property):
        return snap_property(o, ids)
    if isinstance(o, c.PropertyValue):
        return snap_propertyvalue(o, ids)
    if isinstance(o, c.Value):
        return snap_value(o, ids)
    if isinstance(o, c.SelectorList):
        return snap_selectorlist(o, ids)
    if isinstance(o, c.Selector):
        return snap_selector(o, ids)
    if isinstance(o, st.MediaList):
        return snap_medialist(o, ids)
    if isinstance(o, st.MediaQuery):
        return snap_mq(o, ids)
    if isinstance(o, c.CSSVariablesDeclaration):
        return snap_variables(o, ids)
    if isinstance(o, c.CSSRuleList):
        return ('RuleList', tuple(snap_rule(r, ids) for r in o))
    if type(o).__name__ in ('_Namespaces', '_SimpleNamespaces'):
        return ('Namespaces', tuple(sorted((k or '', v) for k, v in o.items())))
    if isinstance(o, (str, int, float, bool, tuple)):
        return o
    return ('Other', type(o).__name__)


def snapshot(objs):
    """snapshot of a list of root objects (target, owner rule, sheet, argument objects) with shared identities"""
    ids = Ids()
    return tuple(snap_any(o, ids) for o in objs)


def diff(a, b, path=''):
    """first few paths at which two snapshots differ"""
    out = []
    if type(a) is not type(b) or (isinstance(a, tuple) and len(a) != len(b)):
        return [(path, a, b)]
    if isinstance(a, tuple):
        for i, (x, y) in enumerate(zip(a, b)):
            out += diff(x, y, '%s/%s' % (path, x[0] + str(i) if isinstance(x, tuple) and x and isinstance(x[0], str)
                                         else i))
            if len(out) > 4:
                break
        return out
    return [] if a == b else [(path, a, b)]


# ---------------------------------------------------------------------------------------------------
# field fingerprints (script level): the value of `self.<field>` as a canonical, content-based structure
def get_path(obj, path):
    """`seqs[1]._seq`, `__nametoken`, `_cssRules` relative to obj; private names are unmangled by trying the MRO"""
    cur = obj
    for part in path.replace(']', '').split('.'):
        name, *idx = part.split('[')
        if name.startswith('__') and not name.endswith('__'):
            for k in type(cur).__mro__:
                m = '_%s%s' % (k.__name__.lstrip('_'), name)
                if hasattr(cur, m):
                    name = m
                    break
        cur = getattr(cur, name)
        for i in idx:
            cur = cur[int(i)]
    return cur


def fp(v, ids, depth=0):
    """content fingerprint of an arbitrary attribute value"""
    cu = cssutils_mod()
    if depth > 6:
        return '...'
    if v is None or isinstance(v, (str, int, float, bool, bytes)):
        return v
    if isinstance(v, (tuple, list)):
        return (type(v).__name__,) + tuple(fp(x, ids, depth + 1) for x in v)
    if isinstance(v, dict):
        return ('dict',) + tuple(sorted((repr(k), repr(fp(x, ids, depth + 1))) for k, x in v.items()))
    if isinstance(v, cu.util.Seq):
        return ('Seq',) + tuple((fp(i.value, ids, depth + 1), str(i.type)) for i in v)
    if isinstance(v, cu.util.Item):
        return ('Item', fp(v.value, ids, depth + 1), str(v.type))
    s = snap_any(v, ids)
    if isinstance(s, tuple) and s and s[0] == 'Other':
        return ('obj', type(v).__name__, ids(v))
    return s


def field_fp(target, field, args, ids):
    """fingerprint of script field `field` of `target` (`@name` = the argument object called name)"""
    if field.startswith('@'):
        a = args.get(field[1:], None)
        return ('arg', fp(a, ids), ids(getattr(a, '_parentRule', None)) if a is not None else None,
                ids(getattr(a, '_parentStyleSheet', None)) if a is not None else None)
    try:
        v = get_path(target, field)
    except AttributeError:
        return ('unset',)
    return fp(v, ids)
