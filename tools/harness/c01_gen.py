"""Input generators for C01 (and reusable by other checks): malformed / boundary / depth / width streams.

Every choice comes from the random.Random instance passed in, so a case replays from (seed, stream, index)."""

AT = ['@charset', '@import', '@namespace', '@media', '@page', '@font-face', '@variables', '@x', '@top-left',
      '@MEDIA', '@\\69mport', '@charset ', '@-moz-document']
OPEN = ['{', '(', '[', 'f(', 'url(', 'var(', 'rgb(', 'calc(', 'not(', ':not(', ':nth-child(', 'expression(',
        'hsl(', 'attr(', 'counter(', 'RGB(', 'rgba(']
CLOSE = ['}', ')', ']']
PUNCT = [';', ':', ',', '!', '>', '+', '~', '*', '.', '#', '|', '=', '/', '-', '$', '%', '&', '^', '<', '?', '`',
         '\\', '@', '||', '::']
WORDS = ['a', 'b', 'color', 'red', 'important', 'screen', 'and', 'not', 'only', 'all', 'print', 'x-y', '_z', '-moz-a',
         'url', 'U+0-7F', 'u+4??', 'inherit', 'min-width', 'e', 'n', '2n', 'odd', 'from', 'to']
NUMS = ['0', '1', '-1', '+1', '1.5', '.5', '-.5', '1px', '1em', '100%', '1e3', '2n+1', '-n', '1.', '00', '1x\\a y',
        '0.0px', '12345678901234567890', '1' + '0' * 40 + '.5px', '#fff', '#ffffff', '#x', '#1', '#']
STRS = ['"s"', "'s'", '"', "'", '"a\\"b"', "'a\\'b'", '"a\\\nb"', '"a\nb"', '"\\', "'\\", '"\\41 "', '"\\5c "',
        '"\\110000"', '""', "''", '"/*"', '"*/"']
COMMENTS = ['/**/', '/* c */', '/*', '/***/', '/* * / */', '/*/', '*/', '/**', '/*\n*/', '<!--', '-->', '<!-', '--']
PUNCT_ASCII = '!"#$%&\'()*+,-./:;<=>?@[\\]^_`{|}~ '
ESCP = ['\\' + c for c in PUNCT_ASCII]
SEL = ['p|a', '*|*', '|a', 'p|*', '[p|b=c]', '*|a', 'a|', '|', '||', 'p|', ':not(p|a)', ':not(*|*)', '.c', '#i', ':hover',
       '::before', ':nth-child(2n+1)', ':lang(fr)', '[a]', '[a="b"]', '[a~=b]', '[a|=b]', '>', '+', '~']
ESC = ['\\', '\\41', '\\41 ', '\\000041', '\\0000410', '\\a', '\\\n', '\\\r\n', '\\g', '\\{', '\\}', '\\;', '\\"',
       '\\110000', '\\0', '\\d800', '\\5c', '\\5c 41']
WS = [' ', '\n', '\t', '\r\n', '\r', '\f', '  ', '\x0b', '\xa0', ' ']
ODD = ['\x00', '\x01', '\x7f', '\x80', '\xff', 'é', '€', '٠', '٣', '﻿', '\U0001F600', '\ud800', '\udc00',
       '�', '‮', 'ß', 'İ', 'ı', 'ǅ']

TEMPLATES = [
    'a{color:red}',
    'a,b>c + d ~ e f{color:red;top:0 !important}',
    '@charset "utf-8";@import "x.css" screen;@namespace p "u";p|a{b:c}',
    '@media screen and (min-width:10px),print{a{b:c}@media all{d{e:f}}}',
    '@page :first{margin:0;@top-left{content:"x"}}',
    '@font-face{font-family:x;src:url(a.woff)}',
    '@variables{a:1;b:var(a)}a{b:var(a)}',
    'a[b="c"][d|=e][f~=g][h^=i][j$=k][l*=m]:hover::before:not(.x):nth-child(2n+1){a:b}',
    'a{b:rgb(1,2,3) #fff url(x.png) "s" 1px/2em calc(1px + 2%) f(g(1),2) U+0-7F}',
    '@x y{z}@w;<!--a{b:c}-->',
    'a{filter:progid:DXImageTransform.Microsoft.gradient(startColorstr="#80000000",endColorstr="#80000000")}',
    'a{*zoom:1;_height:1px;color:red\\9}',
    'a{b:c}/*x*/d{e:f;/*y*/g:h}',
    '@namespace p "u";@namespace "d";p|a,p|*,*|a,|a,[p|b=c],*|*,a:not(p|*),a:not(|b){d:e}',
    'a{content:"x" attr(y) counter(z) url(u);quotes:"<" ">";font:italic bold 12px/30px Georgia,serif}',
]

ALL = AT + OPEN + CLOSE + PUNCT + WORDS + NUMS + STRS + COMMENTS + ESC + WS + ODD + ESCP + SEL


def soup(rng, n=None):
    """token soup with a bias towards structure"""
    n = n if n is not None else rng.randint(1, 14)
    out = []
    pools = [AT, OPEN, CLOSE, PUNCT, WORDS, NUMS, STRS, COMMENTS, ESC, WS, ODD, ESCP, SEL]
    weights = [2, 4, 4, 5, 6, 3, 2, 2, 2, 3, 1, 2, 3]
    for _ in range(n):
        out.append(rng.choice(rng.choices(pools, weights)[0]))
    return ''.join(out)


def mutate(rng, text):
    """one structural mutation of a (mostly) well-formed text"""
    k = rng.randint(0, 6)
    i = rng.randint(0, len(text))
    if k == 0:                     # truncate
        return text[:i]
    if k == 1:                     # insert a fragment
        return text[:i] + rng.choice(ALL) + text[i:]
    if k == 2:                     # delete a span
        j = min(len(text), i + rng.randint(1, 4))
        return text[:i] + text[j:]
    if k == 3:                     # duplicate a span
        j = min(len(text), i + rng.randint(1, 8))
        return text[:j] + text[i:j] + text[j:]
    if k == 4:                     # insert an at-keyword or opener, then truncate somewhere later
        t = text[:i] + rng.choice(AT + OPEN) + text[i:]
        return t[:rng.randint(i, len(t))]
    if k == 5:                     # swap two characters
        if len(text) < 2:
            return text
        j = rng.randint(0, len(text) - 1)
        i = min(i, len(text) - 1)
        l = list(text)
        l[i], l[j] = l[j], l[i]
        return ''.join(l)
    return text[:i] + rng.choice(ESC + ODD + COMMENTS) + text[i:]


def malformed(rng):
    r = rng.random()
    if r < 0.35:
        return soup(rng)
    t = rng.choice(TEMPLATES)
    for _ in range(rng.randint(1, 3)):
        t = mutate(rng, t)
    return t


def insertion_sweep(template, fragments):
    """every fragment at every character boundary of the template, and every prefix of the result up to the
    end of the fragment (at-keyword x parser state x truncation point)"""
    for i in range(len(template) + 1):
        for f in fragments:
            t = template[:i] + f + template[i:]
            yield t
            yield t[:i + len(f)]


def depth_cases(d):
    """nesting depth d of each opener in several contexts"""
    # (`@media x{` is dropped as a whole - unknown media type - so real nesting needs a known one)
    for op, cl in [('{', '}'), ('(', ')'), ('[', ']'), ('f(', ')'), ('calc(', ')'), ('@media x{', '}'), (':not(', ')'),
                   ('@media print{', '}'), ('@media screen and (min-width:1px){c{d:e}', 'f{g:h}}'), ('@page{', '}'),
                   ('rgb(', ')'), ('var(a,', ')'), ('url(', ')'), ('"', '"')]:
        yield 'a{b:' + op * d + '1' + cl * d + '}'
        yield 'a{b:' + op * d                       # unclosed
        yield op * d + 'a{b:c}' + cl * d
        yield 'a' + op * d + cl * d + '{b:c}'
        yield '@x ' + op * d + cl * d + ';a{b:c}'
        yield 'a{' + op * d + 'b:c' + cl * d + ';d:e}'


def width_case(kind, n):
    if kind == 'values':
        return 'a{b:' + ' '.join(['1px'] * n) + '}'
    if kind == 'commas':
        return 'a{b:' + ','.join(['x'] * n) + '}'
    if kind == 'selectors':
        return ','.join('a%d' % i for i in range(n)) + '{b:c}'
    if kind == 'compound':
        return ''.join('.c%d' % i for i in range(n)) + '{b:c}'
    if kind == 'declarations':
        return 'a{' + ';'.join('p%d:v' % i for i in range(n)) + '}'
    if kind == 'rules':
        return ''.join('a%d{b:c}' % i for i in range(n))
    if kind == 'media':
        return '@media ' + ','.join(['screen and (min-width:1px)'] * n) + '{a{b:c}}'
    if kind == 'comments':
        return 'a{b:c}' + '/*x*/' * n
    if kind == 'stars':
        return '/*' + '*' * n + 'x'
    if kind == 'string':
        return 'a{b:"' + 'x\\"' * n + '"}'
    if kind == 'escapes':
        return 'a' + '\\41 ' * n + '{b:c}'
    if kind == 'garbage':
        return 'a{' + '$;' * n + 'b:c}'
    if kind == 'unknown':
        return '@x ' + 'y ' * n + ';a{b:c}'
    if kind == 'attrs':
        return 'a' + '[b=c]' * n + '{d:e}'
    if kind == 'imports':
        return '@import "x";' * n
    raise ValueError(kind)


WIDTH_KINDS = ['values', 'commas', 'selectors', 'compound', 'declarations', 'rules', 'media', 'comments', 'stars',
               'string', 'escapes', 'garbage', 'unknown', 'attrs', 'imports']


def escaped_punct_sweep(template):
    """a backslash-escaped ASCII punctuation character at every position that touches a name character"""
    for i in range(len(template) + 1):
        near = template[max(0, i - 1):i + 1]
        if not any(ch.isalnum() or ch in '-_|*' for ch in near):
            continue
        for e in ESCP:
            yield template[:i] + e + template[i:]


VALID_UNITS = {
    'esc-in-string': lambda n: '"' + '\\z' * n + '"',
    'hexesc-in-string': lambda n: '"' + '\\41 ' * n + '"',
    'sq-string': lambda n: "'" + "\\'" * n + "'",
    'idents': lambda n: ' '.join(['x'] * n),
    'numbers': lambda n: ' '.join(['1'] * n),
    'dimensions': lambda n: ' '.join(['1px'] * n),
    'percentages': lambda n: ' '.join(['1%'] * n),
    'hashes': lambda n: ' '.join(['#fff'] * n),
    'urls': lambda n: ' '.join(['url(a)'] * n),
    'strings': lambda n: ' '.join(['"s"'] * n),
    'comma-idents': lambda n: ','.join(['x'] * n),
    'functions': lambda n: ' '.join(['f(1)'] * n),
    'hyphen-ident': lambda n: 'x' + '-x' * n,
    'digits': lambda n: '1' * n,
    'fraction': lambda n: '0.' + '1' * n,
    'escaped-ident': lambda n: 'x' + '\\z' * n,
    'spaces': lambda n: 'x' + ' ' * n + 'y',
    'comments': lambda n: 'x' + '/**/' * n + 'y',
}
VALID_TAILS = ['', ' 1', ' x', ' "s"', ',', ' !important', ' /']


# -- lexeme families that a backtracking matcher can split in many ways: n repeated units after an opener that is
#    never closed (or a name that is never followed by what a production needs).  A matcher that tries every
#    split needs 2^n steps; the sweep runs them at sizes where that cannot finish and a linear scan is instant.
LEX_OPENERS = ['"', "'", 'url(', 'url("', "url('", 'url( ', 'URL(', 'u\\72l(', '@import url(', '@import "', 'a{b:"', 'a{b:url(',
               'a[b="', '@namespace p "', '@charset "', 'a', '#', '@', '1', '-', 'a{b:1', '.', 'a:', '!', 'a{b:c !', 'U+', '/*', '<!-']
LEX_UNITS = ['\\41 ', '\\41', '\\E', '\\e9 ', '\\x', '\\41\t', '\\41\n', '\\41\r\n', '\\000041', '\\0000411', '\\\\', '\\"', "\\'",
             '\\)', '\\(', '\\ ', '\\\n', 'a', '1', 'f', ' ', '\t', '/**/', ' /**/', '*', '?', '-', 'é', '\\', 'a\\', '1\\41 ']
LEX_TAILS = ['', ' x', '\n', '\nx', 'x', ' (', ';}', ' ;', '\\']


def lexeme_cases(n, rng=None, per=None):
    """every opener x unit x tail at size n (thorough) or `per` drawn (unit, tail) pairs per opener (quick)"""
    for op in LEX_OPENERS:
        pairs = [(u, t) for u in LEX_UNITS for t in LEX_TAILS]
        if per is not None:
            pairs = rng.sample(pairs, per) + [('\\41 ', ' x'), ('\\E', ' x'), ('\\x', ' x'), (' ', 'x'), ('/**/', 'x')]
        for u, t in pairs:
            yield op + u * n + t


# -- numbers float arithmetic cannot hold, and URLs urllib refuses ------------------------------------------------
BIG = '1' + '0' * 400
EXTREME_NUMS = [BIG, '-' + BIG, BIG + '.5', '9' * 310, '0.' + '0' * 400 + '1', '.' + '9' * 400, BIG + '%', '-' + BIG + '%',
                BIG + '.5%', BIG + 'px', BIG + '.5em', BIG + 'deg', BIG + 'n', '1e400', '1E-400', '+' + BIG, '0' * 400, '00000000000000000000.5']
NUMBER_SLOTS = ['a{color:rgb(%s,2,3)}', 'a{color:rgb(1,2,%s)}', 'a{color:rgb(%s,2%%,3%%)}', 'a{color:rgba(1,2,3,%s)}', 'a{color:rgba(%s,2,3,.5)}',
                'a{color:hsl(%s,50%%,50%%)}', 'a{color:hsl(0,%s,50%%)}', 'a{color:hsl(0,50%%,%s)}', 'a{color:hsla(%s,50%%,50%%,1)}',
                'a{color:hsla(0,50%%,50%%,%s)}', 'a{background:hsl(0,%s,%s)}', 'a{width:%s}', 'a{opacity:%s}', 'a{z-index:%s}',
                'a{line-height:%s}', 'a{font:%s/%s serif}', 'a{width:calc(%s * 2)}', 'a{width:calc(1px + %s)}', 'a:nth-child(%s){b:c}',
                'a:nth-child(2n+%s){b:c}', '@media (min-width:%s){a{b:c}}', '@media (aspect-ratio:%s/%s){a{b:c}}',
                '@page{margin:%s}', '@page{@top-left{width:%s}}', '@variables{a:%s}a{b:var(a)}', 'a{b:f(%s)}', 'a{b:%s %s %s}',
                'a{unicode-range:U+%s}', '@font-face{font-weight:%s}', 'a{b:rect(%s,%s,%s,%s)}', 'a{font-size:%s}', 'a{b:-%s}']
BAD_URLS = ['http://[x', 'http://[::1', '//[', 'http://[x]/a', 'http://a:b/', 'http://a:99999999999/', 'http://%zz/', 'http://a b/',
            'file:///', 'data:,x', '\\\\x\\y', 'http://', '://', 'http:///a', 'a\x00b', 'http://\ud800/', '[', ']', 'http://a/[b', 'ht!tp://a',
            'http://a/' + 'b' * 5000, 'http://' + 'a.' * 2000 + 'b/']
URL_SLOTS = ['@import "%s";', '@import url(%s);', "@import url('%s') print;", '@namespace p "%s";', 'a{background:url(%s)}',
             'a{b:url("%s") url(%s)}', '@font-face{src:url(%s)}', '@import "%s";@import "%s";a{b:c}']


def extreme_cases():
    for slot in NUMBER_SLOTS:
        k = slot.count('%s')
        for num in EXTREME_NUMS:
            yield slot % ((num,) * k)
    for slot in URL_SLOTS:
        k = slot.count('%s')
        for u in BAD_URLS:
            yield slot % ((u,) * k)


FUNCTION_TEMPLATES = [
    'a{color:rgba(1,2,3,.5);background:hsla(120,50%,50%,.3) rgb(1,2,3) hsl(1,2%,3%)}',
    'a{b:var(x) calc(1px + 2px) attr(y) counter(z) counters(z,".") url(u) rect(1px,2px,3px,4px) expression(1) f(g)}',
    '@import url(x.css) screen;@namespace p url(u);@media screen and (color){a:not(b):nth-child(2n+1):lang(en){c:d}}',
    '@variables{v:red}a{color:var(v);content:"x" attr(t) counter(c,decimal);width:-moz-calc(1px)}',
    '@font-face{font-family:x;src:local(y),url(z.woff) format("woff");unicode-range:U+0-7F}',
    '@page :first{margin:1px;@top-left{content:counter(page)}}a{b:c !important}',
]


def escaped_letter_sweep(template):
    """every letter of every name written with a simple escape (non-hex letters), as a hex escape with and without its
    terminator, and in the other letter case: names are compared after unescaping and case folding in many places, and
    each of them is a place that can forget it"""
    for i, ch in enumerate(template):
        if not (ch.isalpha() and ch.isascii()):
            continue
        if ch.lower() not in 'abcdef':
            yield template[:i] + '\\' + ch + template[i + 1:]
        yield template[:i] + '\\%x ' % ord(ch) + template[i + 1:]
        yield template[:i] + '\\%06x' % ord(ch) + template[i + 1:]
        yield template[:i] + ch.swapcase() + template[i + 1:]


# -- selectors assembled from the grammar's own pieces in every order: each "Unexpected ..." branch of the selector parser
#    is an error path that must hand back a state the next token can be parsed in
SEL_PIECES = ['a', '*', '.c', '#i', '[b]', '[b=c]', '[b="c"]', '[b~=c]', '[b|=c]', '[b^=c]', '[p|b]', '[|b]', '[*|b]', ':hover',
              '::before', ':before', ':not(', ':not(a)', ':not(.c)', ':not(p|a)', ':nth-child(2n+1)', ':nth-child(', ':lang(en)',
              ':lang(', ')', '(', '[', ']', 'p|', '*|', '|', 'p|a', '*|*', '|a', ' ', '>', '+', '~', ',', '.', '#', ':', '::', '=',
              '1', '1px', '"s"', '%', '!', '/**/', '\\.', 'a\\.b', '@x', '-', '--', '$', '&', '^=', '~=', '|=', '*=']


def selector_soup(rng, n=None):
    n = n if n is not None else rng.randint(1, 7)
    return ''.join(rng.choice(SEL_PIECES) for _ in range(n))


def selector_pairs():
    """every ordered pair and every `:not(x y)` / `a[x y]` wrapping of two pieces"""
    for x in SEL_PIECES:
        for y in SEL_PIECES:
            yield x + y
            yield 'a:not(' + x + y + ')b'
            yield 'a[' + x + y + ']b'
            yield 'a' + x + y + ' b, c'
