"""C03 sheet level: DOM projection, generated sheets of all rule kinds with content slots, accepted DOM edits,
per-node set-back. Implementation side only (no model)."""
import xml.dom

from harness import c03_content as C

RULE = None  # set by init()


def init(cssutils):
    global RULE
    RULE = cssutils.css.CSSRule


# ------------------------------------------------------------------------------------------------
# projection: what the property calls "an equivalent DOM"
def proj_value(pv):
    """PropertyValue -> list of (type, value-ish)"""
    out = []
    try:
        items = list(pv)
    except TypeError:
        return ('text', pv.cssText)
    for v in items:
        t = v.type
        if t in ('STRING', 'URI', 'IDENT', 'UNICODE-RANGE', 'HASH'):
            out.append((t, v.value))
        elif t in ('NUMBER', 'DIMENSION', 'PERCENTAGE'):
            # `0px` is written `0`: the serializer's documented zero-length normalisation (C18) is not a loss
            out.append(('NUM', v.cssText))
        else:
            out.append((t, v.cssText))
    return out


MODE = {'minified': False, 'drop': ()}   # set by the harness while a projection for the minified preset is taken


def proj_style(cssutils, style):
    out = []
    for item in style.seq:
        val = item.value
        if isinstance(val, cssutils.css.Property):
            if not val.wellformed:
                continue   # never serialised
            out.append(('prop', val.name, proj_value(val.propertyValue), val.priority))
        elif isinstance(val, cssutils.css.CSSComment):
            if not MODE['minified']:
                out.append(('comment', val.cssText))
        else:
            out.append(('other', item.type, str(val)))
    return out


def proj_selector(sel):
    items = []
    for item in sel.seq:
        v = item.value
        if hasattr(v, 'cssText'):
            if MODE['minified']:
                continue
            v = v.cssText
        items.append((item.type, v if not isinstance(v, tuple) else ('ns',) + tuple(v)))
    if MODE['minified']:
        # adjacent descendant combinators left over after dropping a comment
        items = [x for i, x in enumerate(items) if not (x[0] == 'descendant' and i and items[i - 1][0] == 'descendant')]
        return (sel.specificity, items)
    return (sel.selectorText, sel.specificity, items)


def proj_media(ml):
    # an empty media list denotes (and is serialised as) `all`
    # which node owns a comment next to a media query (the rule or the query) is not observable: comments are left out
    import re
    out = []
    for it in ml:
        if hasattr(it.value, 'mediaText'):
            out.append(' '.join(re.sub(r'/\*.*?\*/', ' ', it.value.mediaText, flags=re.S).split()))
    return out or ['all']


def proj_rule(cssutils, r):
    t = r.type
    if t == RULE.STYLE_RULE:
        return ('style', [proj_selector(s) for s in r.selectorList], proj_style(cssutils, r.style))
    if t == RULE.COMMENT:
        return ('comment', r.cssText)
    if t == RULE.CHARSET_RULE:
        return ('charset', r.encoding)
    if t == RULE.IMPORT_RULE:
        return ('import', r.href, None if MODE['minified'] else r.hreftype, proj_media(r.media), r.name)
    if t == RULE.NAMESPACE_RULE:
        return ('namespace', r.prefix, r.namespaceURI)
    if t == RULE.MEDIA_RULE:
        return ('media', proj_media(r.media), r.name, project_rules(cssutils, r.cssRules))
    if t == RULE.PAGE_RULE:
        return ('page', r.selectorText, proj_style(cssutils, r.style), project_rules(cssutils, r.cssRules))
    if t == RULE.MARGIN_RULE:
        return ('margin', r.margin, proj_style(cssutils, r.style))
    if t == RULE.FONT_FACE_RULE:
        return ('fontface', proj_style(cssutils, r.style))
    if t == RULE.VARIABLES_RULE:
        return ('variables', [(k, r.variables[k]) for k in r.variables.keys()])
    if t == RULE.UNKNOWN_RULE:
        items = []
        for item in r.seq:
            v = item.value
            if hasattr(v, 'cssText'):
                if MODE['minified']:
                    continue
                v = v.cssText
            if item.type == 'S':
                continue
            items.append((item.type, v))
        return ('unknown', r.atkeyword, items)
    return ('?', t, r.cssText)


def project_rules(cssutils, rules):
    """rules that serialise to nothing (empty blocks with keepEmptyRules=False, ill-formed rules) are not part of
    what the serialisation denotes"""
    out = [proj_rule(cssutils, r) for r in rules if r.cssText]
    return [x for x in out if x[0] not in MODE['drop']]


def project(cssutils, sheet):
    return project_rules(cssutils, sheet.cssRules)


HEX = '0123456789abcdefABCDEF'


# ------------------------------------------------------------------------------------------------
# region detector on tokens: which known-finding regions does a text touch?
def encodable(ch, encoding):
    try:
        ch.encode(encoding)
        return True
    except (UnicodeEncodeError, LookupError):
        return False


def bs_before_unencodable(val, encoding):
    """an unpaired backslash directly before a character that `encoding` cannot encode (the serializer's escapecss
    error handler writes that character as a hex escape, which then reads as backslash + hex text)"""
    i, n = 0, len(val)
    while i + 1 < n:
        if val[i] == '\\':
            if val[i + 1] != '\\' and not encodable(val[i + 1], encoding):
                return True
            i += 2
        else:
            i += 1
    return False


def raw_texts(text, toks):
    """source text of each token, from the positions the tokenizer reports; None if they do not tile the text"""
    starts = [0]
    for i, ch in enumerate(text):
        if ch == '\n':
            starts.append(i + 1)
    offs = []
    for t in toks:
        line, col = t[2], t[3]
        if not (1 <= line <= len(starts)):
            return None
        offs.append(starts[line - 1] + col - 1)
    offs.append(len(text))
    if any(a > b for a, b in zip(offs, offs[1:])) or (offs and offs[0] != 0):
        return None
    return [text[a:b] for a, b in zip(offs, offs[1:])]


def token_regions(cssutils, text, tk=None, encoding='utf-8', ident_form='either', base_depth=0):
    """set of known-finding ids whose region contains a token of `text`.
    ident_form: which written form of identifier-like tokens counts — 'verbatim', 'normalized' (property names,
    units, function names, pseudo names, at-keywords are written normalised) or 'either' (context unknown)."""
    from cssutils import helper, tokenize2
    tk = tk or tokenize2.Tokenizer()
    regs = set()
    try:
        toks = list(tk.tokenize(text, fullsheet=True))
    except Exception:
        return regs
    depth = base_depth   # 1 for a text that is placed inside a block by a DOM edit
    at = None      # the at-rule whose prelude we are in
    raws = raw_texts(text, toks[:-1] if toks and toks[-1][0] == 'EOF' else toks)
    unknown_at = None      # depth at which the unknown at-rule we are in started
    for k, (typ, val, _l, _c) in enumerate(toks):
        raw = raws[k] if raws is not None and k < len(raws) else None
        if typ == 'ATKEYWORD' and unknown_at is None:
            unknown_at = depth
            if not all(encodable(ch, encoding) for ch in val):
                # at-keywords are kept as found, the escape written by the escapecss handler is read back as text
                regs.add('C03-atkeyword-unencodable')
        elif unknown_at is not None:
            if typ == 'CHAR' and ((val == ';' and depth == unknown_at) or (val == '}' and depth - 1 == unknown_at)):
                unknown_at = None
        if typ == 'CHAR' and val == '{':
            depth += 1
            at = None
        elif typ == 'CHAR' and val == '}':
            depth = max(base_depth, depth - 1)
            at = None
        elif typ == 'CHAR' and val == ';':
            at = None
        elif typ.endswith('_SYM') or typ == 'ATKEYWORD':
            at = typ
        if typ in ('COMMENT', 'IDENT', 'FUNCTION', 'HASH', 'DIMENSION') and depth > 0 and '\n' in val:
            # written verbatim, then every line of the enclosing block is indented
            regs.add('C03-linebreak-indented')
        if typ in ('IDENT', 'FUNCTION', 'HASH', 'DIMENSION', 'STRING', 'URI', 'ATKEYWORD') \
                and bs_before_unencodable(val, encoding):
            regs.add('C03-backslash-before-unencodable')
        if typ in ('IDENT', 'HASH', 'DIMENSION', 'ATKEYWORD') and \
                (val.endswith(' ') and not val.endswith('\\ ')):
            # Out.append takes an item that ends in an unescaped space (the terminator of an escape above U+10FFFF, which is
            # kept as written) for a separator. (An item that consists of non-CSS white space such as U+2028 — a legal
            # identifier — is no longer removed: fixed by 5c3733f.)
            regs.add('C03-ident-edge-whitespace')
        if typ == 'COMMENT' and not all(encodable(ch, encoding) for ch in val):
            # comments are kept verbatim by the tokenizer, but the escapecss error handler still writes an unencodable
            # character as a hex escape
            regs.add('C03-comment-unencodable')
        if typ == 'STRING':
            cls = C.str_class(helper.stringvalue(val))
            if cls and raw is not None and len(raw) >= 2 and raw[0] in '"\'':
                # the parser can store such a value only from these two source forms (checked exhaustively for short
                # token texts by corr_image); anything else is a new defect and is not attributed
                body = raw[1:-1] if raw[-1] == raw[0] else raw[1:]
                if not (cls == 'dq' and C.region_escaped_dquote(body, raw[0])):
                    cls = None
                    regs.add('!unexplained-unsafe-string')
            if cls:
                regs |= {x for x in [kf_for_class(cls, 'STRING')] if x}
        elif typ == 'URI':
            v = helper.urivalue(val)
            # @namespace writes its URI with helper.string whatever the source form was
            cls = C.str_class(v) if at == 'NAMESPACE_SYM' else C.uri_class(v)
            if cls:
                regs |= {x for x in [kf_for_class(cls, 'URI')] if x}
        elif typ in ('IDENT', 'FUNCTION', 'HASH', 'UNICODE-RANGE', 'DIMENSION', 'ATKEYWORD'):
            verb, norm = ident_forms_ok(tk, typ, val)
            if typ in ('DIMENSION', 'ATKEYWORD', 'FUNCTION'):
                bad = not norm          # always written normalised
            elif typ == 'HASH':
                bad = not verb
            elif ident_form == 'verbatim':
                bad = not verb
            elif ident_form == 'normalized':
                bad = not norm
            else:
                bad = not (verb and norm)
            if bad:
                regs.add('C03-ident-not-reescaped')
    return regs


def relex_same(tk, typ, val):
    """`val`, written verbatim and followed by a line break, is again one token of type `typ` with value `val`"""
    toks = list(tk.tokenize(val + '\n'))
    return len(toks) == 2 and toks[0][0] == typ and toks[0][1] == val and toks[1][:2] == ('S', '\n')


def ident_forms_ok(tk, typ, val):
    """(verbatim form survives, normalised form survives) for an identifier-like token value"""
    from cssutils import helper
    w = helper.normalize(val)
    return relex_same(tk, typ, val), (relex_same(tk, typ, w) and helper.normalize(w) == w)


def kf_for_class(cls, token='STRING'):
    """known-finding id for a stored value of unsafe class `cls` held by a STRING / URI token or given to a setter"""
    if cls == 'dq':
        return 'C03-escaped-dquote'
    if token == 'setter':
        return 'C03-raw-backslash-setter'
    if token == 'URI' and cls == 'trail':
        return 'C03-uri-trailing-backslash'
    return None    # nothing the parser stores is in these classes any more: not attributed


# ------------------------------------------------------------------------------------------------
# content slots
class Content:
    """draws content for the slots of a generated sheet; `risk` = probability of content with escapes/backslashes"""

    def __init__(self, rng, risk):
        self.rng, self.risk = rng, risk

    def string(self):
        rng = self.rng
        if rng.random() < self.risk:
            q, body = C.string_token(rng, 5)
            return q + body + q
        q = rng.choice('"\'')
        other = "'" if q == '"' else '"'
        return q + ''.join(rng.choice(['a', 'b c', 'é', '€', '\U0001F600', other, '(', ')', ';', ',', '/*x*/', ' ', '\\' + q,
                                       '{', '}', ':', '!', '@', '#', '%', '+', '\\\\', '\\g', '\\a ', '\\' + '\n'])
                           for _ in range(rng.randint(0, 4))) + q

    def url(self):
        rng = self.rng
        r = rng.random()
        if rng.random() < self.risk:
            if r < 0.5:
                return 'url(' + rng.choice(['', ' ']) + C.url_unquoted_body(rng, 5) + rng.choice(['', ' ']) + ')'
            q, body = C.string_token(rng, 4)
            return 'url(' + rng.choice(['', ' ']) + q + body + q + rng.choice(['', '\t']) + ')'
        base = ''.join(rng.choice(['a', 'img/x', '.png', '?v=1', '#f', '%20', 'é', '-', '_', '~', ':', '//h/p', '&', '=', '+'])
                       for _ in range(rng.randint(0, 4)))
        if r < 0.4:
            return 'url(%s)' % base
        q = rng.choice('"\'')
        return 'url(%s%s%s)' % (q, base + rng.choice(['', ' b', '(1)', ',', ';', "'" if q == '"' else '"']), q)

    def ident(self):
        rng = self.rng
        if rng.random() < self.risk:
            return C.ident_text(rng, 4)
        return rng.choice(['a', 'b1', 'x-y', '_z', '-moz-x', 'é', 'A', 'fooBar', '--v', 'c\\olor', 'a\\.b', 'x\\!', '\\g', 'a\\\\b',
                           '\\65 x', '\\000065x', 'a\\62 ', 'w\\E9 '])

    def comment(self):
        rng = self.rng
        if rng.random() < self.risk:
            return C.comment_text(rng, 5)
        return '/*' + ''.join(rng.choice(['c', ' ', '*', '/ ', 'é', '\n', '"', "'", '{', '}', ';', '@x', '\\', 'url(', '\\g'])
                              for _ in range(rng.randint(0, 5))).replace('*/', '* /') + '*/'


PROPS = ['color', 'background', 'content', 'font-family', 'margin', 'width', 'border', 'left', 'quotes', 'cursor',
         'list-style', 'src', 'x-unknown', '-moz-foo']
UNITS = ['px', 'em', '%', 'pt', 'deg', 's', 'x']
MEDIA = ['all', 'screen', 'print', 'tv', 'handheld', 'projection']
PSEUDO = [':hover', ':first-child', '::before', ':lang(fr)', ':nth-child(2n+1)', ':not(.x)', ':nth-of-type(odd)']
MARGINS = ['@top-left', '@bottom-center', '@right-middle']


class Gen:
    def __init__(self, rng, content, namespaces=True):
        self.rng, self.c = rng, content
        self.prefixes = []

    def ws(self):
        return self.rng.choice(['', '', ' ', '  ', '\n', '\t', ' \n '])

    def sp(self):
        return self.rng.choice([' ', ' ', '  ', '\n', '\t'])

    def maybe_comment(self, p=0.12):
        return self.c.comment() if self.rng.random() < p else ''

    # -- values
    def number(self):
        rng = self.rng
        n = rng.choice(['0', '1', '10', '1.5', '.5', '-2', '+3', '0.25', '100', '-0.5', '007', '1.50'])
        return n + rng.choice(['', '', 'px', 'em', '%', 'pt', 'deg', 'x'])

    def component(self, depth=0):
        rng = self.rng
        r = rng.random()
        if r < 0.18:
            return self.c.ident()
        if r < 0.34:
            return self.number()
        if r < 0.48:
            return self.c.string()
        if r < 0.60:
            return self.c.url()
        if r < 0.68:
            return rng.choice(['#fff', '#FFAA00', '#abc', 'red', 'transparent', '#123456'])
        if r < 0.74:
            return rng.choice(['rgb(1,2,3)', 'rgba(1, 2, 3, 0.5)', 'hsl(120, 50%, 50%)', 'rgb(10%,20%,30%)'])
        if r < 0.80 and depth < 2:
            return '%s(%s)' % (rng.choice(['f', 'counter', 'attr', 'local', 'format', 'x-y']),
                               rng.choice([', ', ' ']).join(self.component(depth + 1) for _ in range(rng.randint(1, 2))))
        if r < 0.84:
            return rng.choice(['calc(1px + 2px)', 'calc( 100% - 2*3em )', 'calc(1px/2)'])
        if r < 0.87:
            return rng.choice(['U+0-7F', 'u+4??', 'U+26'])
        if r < 0.9 and self.vars:
            return 'var(%s)' % rng.choice(self.vars)
        if r < 0.93:
            return 'inherit'
        return self.number()

    def value(self):
        rng = self.rng
        n = rng.randint(1, 4)
        parts = [self.component()]
        for _ in range(n - 1):
            sep = rng.choice([' ', ' ', ' ', ', ', ',', ' / ', '/'])
            parts.append(sep + self.maybe_comment(0.05) + self.component())
        return ''.join(parts)

    def declaration(self):
        rng = self.rng
        name = rng.choice(PROPS) if rng.random() < 0.85 else self.c.ident()
        prio = rng.choice(['', '', '', ' !important', '!important', ' ! important', '!IMPORTANT'])
        return '%s%s:%s%s%s' % (name, self.ws(), self.ws(), self.value(), prio)

    def declarations(self, lo=0, hi=4):
        rng = self.rng
        items = []
        for _ in range(rng.randint(lo, hi)):
            items.append(self.maybe_comment(0.1) + self.declaration())
        s = (';' + self.ws()).join(items)
        if rng.random() < 0.5:
            s += ';'
        if rng.random() < 0.1:
            s += self.c.comment()
        return s

    # -- selectors
    def simple_selector(self):
        rng = self.rng
        s = ''
        r = rng.random()
        if r < 0.5:
            el = rng.choice(['a', 'div', 'p', '*', 'h1']) if rng.random() < 0.8 else self.c.ident()
            if self.prefixes and rng.random() < 0.3:
                el = rng.choice(self.prefixes + ['*', '']) + '|' + el
            s += el
        for _ in range(rng.randint(0 if s else 1, 2)):
            r = rng.random()
            if r < 0.3:
                s += '.' + self.c.ident()
            elif r < 0.45:
                s += '#' + self.c.ident()
            elif r < 0.7:
                att = rng.choice(['href', 'title', 'lang', 'x'])
                op = rng.choice(['=', '~=', '|=', '^=', '$=', '*=', None])
                if op is None:
                    s += '[%s]' % att
                else:
                    s += '[%s%s%s]' % (att, op, self.c.string() if rng.random() < 0.7 else self.c.ident())
            elif r < 0.85 or not self.prefixes:
                s += rng.choice(PSEUDO)
            else:
                # namespaced names in the other positions: attribute, negation
                pre = rng.choice(self.prefixes + ['*', ''])
                s += rng.choice(['[%s|att]' % pre, '[%s|att=v]' % pre, ':not(%s|e)' % pre, ':not(%s|*)' % pre,
                                 ':not([%s|att])' % pre])
        return s

    def selector(self):
        rng = self.rng
        s = self.simple_selector()
        for _ in range(rng.randint(0, 2)):
            s += rng.choice([' ', ' > ', '>', ' + ', '+', ' ~ ', '~', '  ']) + self.simple_selector()
        return s

    def selector_list(self):
        return (',' + self.ws()).join(self.selector() for _ in range(self.rng.randint(1, 3)))

    # -- media
    def media_query(self):
        rng = self.rng
        r = rng.random()
        case = rng.choice([str, str, str, str.upper, str.capitalize])     # media types are case-insensitive
        if r < 0.6:
            return case(rng.choice(MEDIA))
        if r < 0.8:
            return rng.choice(['', 'only ', 'not ']) + case(rng.choice(MEDIA)) + ' and (%s)' % rng.choice(
                ['min-width: 100px', 'color', 'max-width:20em', 'orientation: landscape'])
        return '(%s)' % rng.choice(['min-width: 100px', 'color', 'max-height: 3em'])

    def media_list(self):
        return (',' + self.ws()).join(self.media_query() for _ in range(self.rng.randint(1, 3)))

    # -- rules
    def style_rule(self):
        return '%s%s{%s%s%s}' % (self.selector_list(), self.ws(), self.ws(), self.declarations(1, 4), self.ws())

    def media_rule(self):
        rng = self.rng
        inner = ''.join(self.ws() + rng.choice([self.style_rule, self.style_rule, self.c.comment, self.page_rule,
                                                self.fontface_rule, self.unknown_rule])() for _ in range(rng.randint(1, 3)))
        return '@media%s%s%s{%s%s}' % (self.sp(), self.media_list(), self.ws(), inner, self.ws())

    def page_rule(self):
        rng = self.rng
        sel = rng.choice(['', ' :first', ' :left', ' x', ' x:right', ' :FIRST', ' /*c*/ :left', ' x /*c*/', ' :right/*c*/'])
        body = self.declarations(1, 3)
        if rng.random() < 0.4:
            if body and not body.rstrip().endswith(';') and not body.rstrip().endswith('*/'):
                body += ';'
            body += '%s%s{%s}' % (rng.choice(MARGINS), self.ws(), self.declarations(1, 2))
        return '@page%s%s{%s}' % (sel, self.ws(), body)

    def fontface_rule(self):
        return '@font-face%s{%s}' % (self.ws(), self.declarations(1, 3))

    def unknown_rule(self):
        rng = self.rng
        kw = '@' + rng.choice(['foo', 'x-y', 'keyframes', 'three-dee'])
        parts = []
        for _ in range(rng.randint(0, 3)):
            parts.append(rng.choice([self.c.ident, self.c.string, self.c.url, self.number,
                                     lambda: rng.choice(['(x)', '[a]', ',', ':', '+', '1 + 2', '>', '#aabbcc', '#A1B2C3', '#AAbb00',
                                                         'a / b', '* /', '/ *', 'a / * b', '/ *= x', '*= x', '~=', '!', '%', '1/2'])])())
        pre = (' ' + ' '.join(parts)) if parts else ''
        if rng.random() < 0.5:
            return kw + pre + ';'
        return '%s%s {%s}' % (kw, pre, rng.choice([self.declarations(0, 2), 'from{%s} to{%s}' % (self.declaration(), self.declaration())]))

    def import_rule(self):
        rng = self.rng
        href = self.c.string() if rng.random() < 0.5 else self.c.url()
        media = (' ' + self.media_list()) if rng.random() < 0.4 else ''
        name = (' ' + self.c.string()) if rng.random() < 0.2 else ''
        return '@import%s%s%s%s;' % (self.sp(), href + self.maybe_comment(0.05), media, name)

    def namespace_rule(self):
        rng = self.rng
        prefix = ''
        if rng.random() < 0.75:
            prefix = rng.choice(['p', 'q', 'svg', 'x1']) if rng.random() < 0.8 else self.c.ident()
        uri = self.c.string() if rng.random() < 0.6 else self.c.url()
        return ('@namespace%s%s%s;' % (self.sp(), (prefix + ' ') if prefix else '', uri), prefix)

    def variables_rule(self):
        rng = self.rng
        names = rng.sample(['c1', 'c2', 'w', 'Big'], rng.randint(1, 3))
        self.vars = names
        return '@variables%s{%s}' % (self.ws(), ';'.join('%s:%s' % (n, self.value_novars()) for n in names))

    def value_novars(self):
        saved, self.vars = self.vars, []
        try:
            return self.value()
        finally:
            self.vars = saved

    vars = []

    def sheet(self, size=6):
        rng = self.rng
        self.vars = []
        self.prefixes = []
        parts = []
        if rng.random() < 0.25:
            parts.append('@charset "%s";' % rng.choice(['utf-8', 'ascii', 'iso-8859-1', 'UTF-8']))
        for _ in range(rng.randint(0, 2)):
            parts.append(self.c.comment() if rng.random() < 0.3 else self.import_rule())
        declared = []
        for _ in range(rng.randint(0, 2)):
            if rng.random() < 0.25:
                parts.append(self.c.comment())
            else:
                text, prefix = self.namespace_rule()
                parts.append(text)
                if prefix and '\\' not in prefix:
                    declared.append(prefix)
        self.prefixes = declared
        if rng.random() < 0.2:
            parts.append(self.variables_rule())
        for _ in range(rng.randint(1, size)):
            r = rng.random()
            if r < 0.5:
                parts.append(self.style_rule())
            elif r < 0.62:
                parts.append(self.media_rule())
            elif r < 0.7:
                parts.append(self.page_rule())
            elif r < 0.77:
                parts.append(self.fontface_rule())
            elif r < 0.86:
                parts.append(self.unknown_rule())
            else:
                parts.append(self.c.comment())
        return ''.join(p + self.ws() for p in parts)


# ------------------------------------------------------------------------------------------------
# accepted DOM edits. Each returns a description (op name, argument texts) or None when rejected.
def all_style_decls(cssutils, sheet):
    out = []

    def walk(rules):
        for r in rules:
            if r.type in (RULE.STYLE_RULE, RULE.FONT_FACE_RULE, RULE.PAGE_RULE, RULE.MARGIN_RULE):
                out.append(r.style)
            if r.type in (RULE.MEDIA_RULE, RULE.PAGE_RULE):
                walk(r.cssRules)
    walk(sheet.cssRules)
    return out


def rules_of(sheet, types):
    out = []

    def walk(rules):
        for r in rules:
            if r.type in types:
                out.append(r)
            if r.type == RULE.MEDIA_RULE:
                walk(r.cssRules)
    walk(sheet.cssRules)
    return out


def random_edit(cssutils, rng, sheet, gen):
    """apply one random edit; returns (name, [texts given to the API], raw) or None if rejected / not applicable.
    `raw` = texts stored as they are (no parsing): their region is judged on the value itself."""
    ops = ['setProperty', 'removeProperty', 'selectorText', 'mediaText', 'appendMedium', 'insertRule', 'deleteRule',
           'add', 'href', 'propvalue', 'styleCssText', 'priority', 'uri', 'namespaceURI', 'commentText', 'ruleCssText']
    op = rng.choice(ops)
    try:
        if op == 'setProperty':
            styles = all_style_decls(cssutils, sheet)
            if not styles:
                return None
            st = rng.choice(styles)
            name = rng.choice(PROPS)
            val = gen.value_novars()
            prio = rng.choice(['', '', 'important'])
            st.setProperty(name, val, prio)
            return (op, [val], [])
        if op == 'removeProperty':
            styles = [s for s in all_style_decls(cssutils, sheet) if s.length]
            if not styles:
                return None
            st = rng.choice(styles)
            st.removeProperty(st.item(rng.randrange(st.length)))
            return (op, [], [])
        if op == 'selectorText':
            rs = rules_of(sheet, (RULE.STYLE_RULE,))
            if not rs:
                return None
            text = gen.selector_list()
            rng.choice(rs).selectorText = text
            return (op, [text], [])
        if op == 'mediaText':
            rs = rules_of(sheet, (RULE.MEDIA_RULE, RULE.IMPORT_RULE))
            if not rs:
                return None
            text = gen.media_list()
            rng.choice(rs).media.mediaText = text
            return (op, [text], [])
        if op == 'appendMedium':
            rs = rules_of(sheet, (RULE.MEDIA_RULE, RULE.IMPORT_RULE))
            if not rs:
                return None
            text = gen.media_query()
            rng.choice(rs).media.appendMedium(text)
            return (op, [text], [])
        if op == 'insertRule':
            text = rng.choice([gen.style_rule, gen.media_rule, gen.page_rule, gen.fontface_rule, gen.c.comment,
                               gen.import_rule, gen.unknown_rule])()
            idx = rng.randint(0, sheet.cssRules.length)
            sheet.insertRule(text, idx)
            return (op, [text], [])
        if op == 'add':
            def ns():
                # a new prefixed namespace; declaring a default namespace after selectors exist is C15's subject
                used = set(sheet.namespaces.keys()) if hasattr(sheet.namespaces, 'keys') else set()
                free = [p for p in ('n1', 'n2', 'n3') if p not in used]
                if not free:
                    return gen.c.comment()
                return '@namespace %s %s;' % (free[0], gen.c.string() if rng.random() < 0.6 else gen.c.url())
            text = rng.choice([gen.style_rule, gen.import_rule, ns, gen.c.comment, gen.fontface_rule])()
            sheet.add(text)
            return (op, [text], [])
        if op == 'deleteRule':
            if not sheet.cssRules.length:
                return None
            sheet.deleteRule(rng.randrange(sheet.cssRules.length))
            return (op, [], [])
        if op == 'href':
            rs = rules_of(sheet, (RULE.IMPORT_RULE,))
            if not rs:
                return None
            raw = raw_value(rng)
            rng.choice(rs).href = raw
            return (op, [], [('uri-or-string', raw)])
        if op == 'uri':
            vals = uri_values(cssutils, sheet)
            if not vals:
                return None
            raw = raw_value(rng)
            rng.choice(vals).uri = raw
            return (op, [], [('uri', raw)])
        if op == 'namespaceURI':
            return None   # read-only once set
        if op == 'propvalue':
            props = [p for s in all_style_decls(cssutils, sheet) for p in s.getProperties(all=True)]
            if not props:
                return None
            text = gen.value_novars()
            rng.choice(props).value = text
            return (op, [text], [])
        if op == 'priority':
            props = [p for s in all_style_decls(cssutils, sheet) for p in s.getProperties(all=True)]
            if not props:
                return None
            rng.choice(props).priority = rng.choice(['', 'important', '!important', 'IMPORTANT'])
            return (op, [], [])
        if op == 'styleCssText':
            styles = all_style_decls(cssutils, sheet)
            if not styles:
                return None
            text = gen.declarations(0, 3)
            rng.choice(styles).cssText = text
            return (op, [text], [])
        if op == 'commentText':
            rs = rules_of(sheet, (RULE.COMMENT,))
            if not rs:
                return None
            text = gen.c.comment()
            rng.choice(rs).cssText = text
            return (op, [text], [])
        if op == 'ruleCssText':
            rs = rules_of(sheet, (RULE.STYLE_RULE, RULE.FONT_FACE_RULE, RULE.PAGE_RULE, RULE.MEDIA_RULE, RULE.UNKNOWN_RULE))
            if not rs:
                return None
            r = rng.choice(rs)
            text = {RULE.STYLE_RULE: gen.style_rule, RULE.FONT_FACE_RULE: gen.fontface_rule, RULE.PAGE_RULE: gen.page_rule,
                    RULE.MEDIA_RULE: gen.media_rule, RULE.UNKNOWN_RULE: gen.unknown_rule}[r.type]()
            r.cssText = text
            return (op, [text], [])
    except xml.dom.DOMException:
        return None
    return None


def raw_value(rng):
    """a value handed to an attribute setter as is"""
    r = rng.random()
    if r < 0.5:
        return ''.join(rng.choice(['a', 'img/x.png', 'é', ' ', '(1)', '"', "'", ',', '?q=1', '#f', '\U0001F600', '-'])
                       for _ in range(rng.randint(0, 4)))
    return C.raw_text(rng, 5)


def uri_values(cssutils, sheet):
    out = []
    for st in all_style_decls(cssutils, sheet):
        for p in st.getProperties(all=True):
            try:
                for v in p.propertyValue:
                    if v.type == 'URI':
                        out.append(v)
            except Exception:
                pass
    return out


# ------------------------------------------------------------------------------------------------
# structural edits by index on sheets with every rule kind in every position
HEADER = ['@charset "utf-8";', '/*h*/', '@import "first.css";', '@namespace p "http://p";']
BODY = {
    'fontface': '@font-face{font-family:"F";src:url(f.woff)}',
    'style': 'b{left:0}',
    'media': '@media print{b{top:0}}',
    'page': '@page :first{margin:0}',
    'unknown': '@foo bar;',
    'comment': '/*c*/',
    'variables': '@variables{v:1px}',
}
INSERT = {
    'charset': '@charset "ascii";',
    'comment': '/*new*/',
    'import': '@import "late.css" print;',
    'namespace': '@namespace n "http://n";',
    'variables': '@variables{w:2px}',
    'fontface': '@font-face{font-family:"G"}',
    'style': 'i{right:0}',
    'media': '@media tv{i{right:0}}',
    'page': '@page :left{margin:1px}',
    'unknown': '@bar baz;',
}


def structural_bases(rng, full):
    """source texts: full header + one body rule; no header + every ordered pair of body rules"""
    out = []
    for k, b in BODY.items():
        out.append(''.join(HEADER) + b + 'a{color:red}')
        out.append(''.join(HEADER[2:3]) + b)
    pairs = [(x, y) for x in BODY for y in BODY]
    if not full:
        pairs = rng.sample(pairs, 14)
    for x, y in pairs:
        out.append(BODY[x] + BODY[y])
    return out


def apply_op(cssutils, sheet, op):
    """one structural / namespace operation; True if the implementation accepted it"""
    name = op[0]
    try:
        if name == 'insertRule':
            sheet.insertRule(op[1], op[2])
        elif name == 'insertRuleObject':
            tmp = cssutils.parseString(op[1])
            sheet.insertRule(tmp.cssRules[0], op[2])
        elif name == 'deleteRule':
            sheet.deleteRule(op[1])
        elif name == 'add':
            sheet.add(op[1])
        elif name == 'delns':
            del sheet.namespaces[op[1]]
        elif name == 'setns':
            sheet.namespaces[op[1]] = op[2]
        elif name == 'appendMedium':
            media_lists(sheet)[op[1]].appendMedium(op[2])
        elif name == 'deleteMedium':
            media_lists(sheet)[op[1]].deleteMedium(op[2])
        elif name == 'mediaText':
            media_lists(sheet)[op[1]].mediaText = op[2]
        elif name == 'setMedium':
            media_lists(sheet)[op[1]][op[2]] = op[3]
        elif name == 'importName':
            rules_of(sheet, (RULE.IMPORT_RULE,))[op[1]].name = op[2]
        elif name == 'importHref':
            rules_of(sheet, (RULE.IMPORT_RULE,))[op[1]].href = op[2]
        elif name == 'mqMediaType':
            ml = media_lists(sheet)[op[1]]
            ml._seq[op[2]].value.mediaType = op[3]
        elif name == 'pageAddMargin':
            rules_of(sheet, (RULE.PAGE_RULE,))[op[1]].add(cssutils.css.MarginRule(op[2], op[3]))
        elif name == 'pageSetMargin':
            rules_of(sheet, (RULE.PAGE_RULE,))[op[1]][op[2]] = cssutils.css.CSSStyleDeclaration(cssText=op[3])
        elif name == 'pageSelector':
            rules_of(sheet, (RULE.PAGE_RULE,))[op[1]].selectorText = op[2]
        elif name == 'encoding':
            sheet.encoding = op[1]
        elif name == 'propName':
            all_style_decls(cssutils, sheet)[op[1]].getProperties(all=True)[0].name = op[2]
        elif name == 'nsPrefix':
            rules_of(sheet, (RULE.NAMESPACE_RULE,))[op[1]].prefix = op[2]
        elif name == 'selectorText':
            rules_of(sheet, (RULE.STYLE_RULE,))[op[1]].selectorText = op[2]
        elif name == 'none':
            pass
        else:
            raise ValueError(name)
    except (xml.dom.DOMException, IndexError, KeyError, LookupError):
        return False
    return True


def structural_ops(n_rules):
    ops = []
    for kind, text in INSERT.items():
        for i in range(n_rules + 1):
            ops.append(['insertRule', text, i])
        ops.append(['add', text])
        ops.append(['insertRuleObject', text, n_rules])
    for i in range(n_rules):
        ops.append(['deleteRule', i])
    return ops


# namespaced selectors in every position
NS_FORMS = ['x[a]', '*[a=b]', ':not([a])', 'p|x', '*|x', '|x', 'p|*', '*|*', 'x[p|a]', 'x[*|a]', 'x[|a=b]', '[p|a~="v"]', '*:not(p|e)', 'x:not(*|e)',
            'x:not(|e)', ':not(p|*)', 'y p|x > q|z', 'q|y:not(p|e) + x', 'x:not([p|a])', 'p|x:hover::before', 'x, p|y']
NS_DECLS = ['@namespace p "http://p";@namespace q "http://q";',
            '@namespace "http://d";@namespace p "http://p";@namespace q "http://q";',
            '@namespace p "http://p";@namespace q "http://q";@namespace r "http://p";']


def namespace_cases(rng, full):
    """(source, op) pairs"""
    out = []
    forms = NS_FORMS if full else NS_FORMS
    for form in forms:
        decls_list = NS_DECLS if full else [NS_DECLS[0], rng.choice(NS_DECLS[1:])]
        for decls in decls_list:
            n_ns = decls.count('@namespace')
            for wrap in ('%s{c:d}', '@media print{%s{c:d}}'):
                if not full and wrap.startswith('@media') and rng.random() < 0.5:
                    continue
                src = decls + wrap % form
                ops = [['none']] + [['deleteRule', i] for i in range(n_ns)] + \
                      [['delns', 'p'], ['delns', 'q'], ['setns', 'p', 'http://other'], ['setns', 'q', 'http://p'],
                       ['add', '@namespace p "http://again";'], ['insertRule', '@namespace s "http://p";', 0],
                       ['insertRule', '@namespace "http://newdefault";', 0]]
                if wrap == '%s{c:d}':
                    ops += [['selectorText', 0, f] for f in ('x', 'q|x', '*:not(q|e)')]
                for op in ops:
                    out.append((src, op))
    return out


# media lists: every spelling of the media types x every list operation
def media_lists(sheet):
    return [r.media for r in rules_of(sheet, (RULE.MEDIA_RULE, RULE.IMPORT_RULE))]


MEDIA_BASES = ['print', 'PRINT', 'Print, screen', 'ALL', 'all', 'tv, PRINT', 'screen and (color), PRINT', 'NOT PRINT AND (COLOR)',
               'only Screen and (min-width: 1px), tv', 'handheld, TV, projection', 'print, (color)', 'ScReEn']
MEDIA_ARGS = ['print', 'PRINT', 'all', 'ALL', 'screen', 'Screen', 'tv', 'handheld', 'screen and (color)', 'not print',
              'PRINT and (color)', '(min-width: 1px)', 'only tv']


def media_cases(rng, full):
    out = []
    for base in MEDIA_BASES:
        for wrap in ('@media %s{a{b:c}}', '@import "x.css" %s;a{b:c}'):
            src = wrap % base
            n = base.count(',') + 1
            ops = [['none']]
            ops += [['appendMedium', 0, m] for m in MEDIA_ARGS]
            ops += [['deleteMedium', 0, m] for m in MEDIA_ARGS[:8]]
            ops += [['mediaText', 0, m + ', ' + m2] for m in MEDIA_ARGS[:4] for m2 in MEDIA_ARGS[:6]]
            ops += [['setMedium', 0, i, m] for i in range(n) for m in MEDIA_ARGS[:6]]
            if not full:
                ops = [ops[0]] + rng.sample(ops[1:], 14)
            for op in ops:
                out.append((src, op))
    return out


# attribute setters of single nodes (not parsing a whole rule): (source, op)
def setter_cases(rng, full):
    out = []
    for src in ('@import "x.css";', '@import url(x.css) print, tv;', '@import "x.css" screen "old";'):
        for name in ('n', 'a "b"', '', None):
            out.append((src + 'a{b:c}', ['importName', 0, name]))
        for href in ('y.css', 'a b.css', 'q("1").css'):
            out.append((src + 'a{b:c}', ['importHref', 0, href]))
    for mq in ('(min-width: 1px)', 'screen', 'not screen', 'only tv and (color)', 'screen and (min-width: 1px)',
               '(color) and (max-width: 2em)', 'PRINT'):
        for mt in ('print', 'all', 'TV'):
            out.append(('@media %s{a{b:c}}' % mq, ['mqMediaType', 0, 0, mt]))
            out.append(('@import "x.css" %s;' % mq, ['mqMediaType', 0, 0, mt]))
    for page in ('@page{@top-left{a:b}}', '@page :first{margin:0;@top-left{a:b}@bottom-center{c:d}}', '@page x{margin:0}'):
        for m in ('@top-left', '@bottom-center', '@TOP-LEFT', '@right-middle'):
            out.append((page, ['pageAddMargin', 0, m, 'e:f']))
            out.append((page, ['pageSetMargin', 0, m, 'e:f']))
        for sel in (':first', 'x', 'x:left', 'x/*c*/:first', '/*c*/ :left', ':LEFT', ''):
            out.append((page, ['pageSelector', 0, sel]))
    for enc in ('ascii', 'iso-8859-1', 'utf-16', 'utf-8-sig', 'cp037', 'koi8-r', 'UTF-8'):
        out.append(('a{content:"\xe9\u20ac"}/*\xe9*/', ['encoding', enc]))
        out.append(('@charset "utf-8";a{b:c}', ['encoding', enc]))
    for name in ('color', 'COLOR', 'c\\olor', 'x-y', '-moz-z'):
        out.append(('a{left:0;top:1px}', ['propName', 0, name]))
    for pre in ('q', 'p', '', 'P'):
        out.append(('@namespace p "u";@namespace r "v";p|a,r|b{c:d}', ['nsPrefix', 0, pre]))
    return out


# every slot under an encoding that cannot encode the content
ENC_TEMPLATES = ['/*%s*/a{b:c}', 'a{/*%s*/b:c}', '@%s x;', '@x %s;', 'a{b:"%s"}', "a{b:'\\%s'}", 'a{b:url(%s)}', 'a{b:%s}', '.%s{b:c}',
                 '#%s{b:c}', 'a[b=%s]{c:d}', 'a{%s:c}', 'a{b:1%s}', 'a{b:%s(1)}', '@namespace %s "u";%s|a{b:c}', '@import "%s";',
                 '@media print{.%s{b:c}}', '@page %s{b:c}', 'a{b:c\\%s}']
ENC_ITEMS = ['\xe9', '\u20ac', 'x\xe9y', '\U0001F600']
ENC_CHARSETS = ['ascii', 'iso-8859-1', 'utf-8', 'UTF-8', 'utf-16', 'cp1252', 'utf-8-sig', 'cp037', 'koi8-r', 'shift_jis']


def encoding_cases(rng, full):
    out = []
    for cs in ENC_CHARSETS:
        tmpls = ENC_TEMPLATES if full or cs in ('ascii', 'iso-8859-1') else rng.sample(ENC_TEMPLATES, 4)
        for t in tmpls:
            for it in (ENC_ITEMS if full else rng.sample(ENC_ITEMS, 2)):
                out.append('@charset "%s";' % cs + t.replace('%s', it))
    return out


# unknown at-rules: every ordered pair of punctuation-like tokens, written with white space between them
PUNCT = ['/', '*', '+', '-', '>', '~', ',', ':', '=', '!', '#x', '%', '|', '.', '^', '$', '&', '?', '<', ';x', '(x)', '[x]', '*=', '~=', '|=', '<!--', '-->', '@k', '1', 'x',
         '"s"', 'url(u)', '1px', 'U+26']


def tokenpair_cases(rng, full):
    pairs = [(a, b) for a in PUNCT for b in PUNCT]
    if not full:
        pairs = rng.sample(pairs, 150)
    out = []
    for a, b in pairs:
        out.append('@x p %s %s q;a{b:c}' % (a, b))
        if full or rng.random() < 0.3:
            out.append('@x {p %s %s q}a{b:c}' % (a, b))
    return out
