"""C07 — CSS codec: detection per CSS 2.1 §4.4, never a wrong early answer, round trip, chunking.

model: lean/CssVerif/Model/Codec.lean; theorems: lean/CssVerif/Props/C07.lean
correspondence: detectencoding_str exhaustively on all byte strings of length <= 4 over the 11 byte
classes (x final), class factoring on random members of the "other" class, @charset headers,
detectencoding_unicode and _fixencoding on prefixes of generated texts.
oracle (implementation only): independent CSS 2.1 table, prefix stability, codec round trip,
chunking invariance of the incremental / stream classes.
"""
import codecs
import io
import itertools
import re

from lib.framework import Check, enc, encb
from harness import c07_inner

CONSTS = [0xEF, 0xBB, 0xBF, 0xFF, 0xFE, 0x00, 0x40, 0x63, 0x68, 0x61]
PREFIX = '@charset "'
ENCODINGS = ['utf-8', 'utf-8-sig', 'utf-16', 'utf-16-le', 'utf-16-be', 'utf-32', 'utf-32-le', 'utf-32-be',
             'latin-1', 'cp1252', 'ascii', 'iso-8859-15', 'koi8-r']
BOM_ENCS = {'utf-8-sig', 'utf-16', 'utf-32'}


def impl():
    import cssutils.codec as c
    return c


def show_ans(a):
    name, explicit = a
    if name is None:
        return 'NONE'
    std = {'utf-8', 'utf-8-sig', 'utf-16', 'utf-16-le', 'utf-16-be', 'utf-32', 'utf-32-le', 'utf-32-be'}
    return '%s %d' % (name, explicit)


def show_ans_model_style(a, from_rule):
    """the model prints names taken from an @charset rule as named:<hex>"""
    name, explicit = a
    if name is None:
        return 'NONE'
    if from_rule:
        return 'named:%s %d' % (enc(name), explicit)
    return '%s %d' % (name, explicit)


def spec_detect(b):
    """CSS 2.1 §4.4 as a first-match list, for complete input (final=True); independent of the code's bit masks"""
    if b[:3] == b'\xef\xbb\xbf':
        return ('utf-8-sig', True)
    if b[:4] == b'\xff\xfe\x00\x00':
        return ('utf-32', True)
    if b[:4] == b'\x00\x00\xfe\xff':
        return ('utf-32', True)
    if b[:2] == b'\xff\xfe':
        return ('utf-16', True)
    if b[:2] == b'\xfe\xff':
        return ('utf-16', True)
    if b[:4] == b'@\x00\x00\x00':
        return ('utf-32-le', False)
    if b[:4] == b'\x00\x00\x00@':
        return ('utf-32-be', False)
    if b[:4] == b'@\x00c\x00':
        return ('utf-16-le', False)
    if b[:2] == b'\x00@':
        return ('utf-16-be', False)
    if b[:10] == b'@charset "':
        pos = b.find(b'"', 10)
        if pos >= 0:
            return (''.join(chr(x) for x in b[10:pos]), True)
    return ('utf-8', False)


def expected_text(text, name):
    """text with the name of a leading, complete @charset rule replaced by `name`"""
    if name.replace('_', '-').lower() == 'utf-8-sig':
        name = 'utf-8'
    if text.startswith(PREFIX) and len(text) > len(PREFIX):
        pos = text.find('"', len(PREFIX))
        if pos >= 0:
            return PREFIX + name + text[pos:]
    return text


class C07(Check):
    id = 'C07'
    props_module = 'CssVerif.Props.C07'
    driver_exe = 'drv_c07'
    sources = ('cssutils/codec.py',)
    trusted_base = (
        'hand-written model lean/CssVerif/Model/Codec.lean of detectencoding_str / detectencoding_unicode / '
        '_fixencoding, tied to cssutils/codec.py by the exhaustive class-level correspondence of this run',
        'hand-written model lean/CssVerif/Model/CodecInner.lean of CPython 3.12 codecs under errors="strict" (utf-8, '
        'utf-8-sig, utf-16/32 with BOM sniffing, -le/-be, latin-1, ascii; stateless and incremental objects), tied to '
        'the running interpreter by the differential of tools/harness/c07_inner.py over every chunking of short inputs',
        'other inner codecs (cp1252, koi8-r, ...) and CPython\'s alias table stay a parameter of the model (structure '
        'Inner); they are exercised on the implementation side only',
    )
    assumptions = ('the detector distinguishes bytes only through equality with ten constants (checked: random '
                   'members of the "other" class give the same answers as the representative)',)
    rule = ('detect: ALL byte strings of length 0..4 over 11 class representatives x final (exhaustive) + random '
            'longer inputs; texts: generated CSS-like texts with/without @charset header x 13 encodings; chunking: '
            'all single and double cut positions for short inputs, random partitions for long ones. '
            'non-trivial = distinct (input, flag) whose answer is not the default utf-8/implicit, or a chunking '
            'whose cut falls inside the BOM/@charset header or a multi-byte character. inner codecs: all byte strings of '
            'length <=2 over 33 boundary bytes; boundary code points encoded in 10 codecs, with/without BOM, damaged 0-2 '
            'times; EVERY composition into chunks for data <=6 (9) bytes, single/double/random cuts above; CSS codec over '
            'the concrete codecs: CSS-like non-ASCII texts x 10 codecs x encoding none/right/other x force, random cuts and '
            'one byte at a time')

    # ------------------------------------------------------------------------------------------
    def run(self, ctx):
        c = impl()
        rng = ctx.sub_rng('c07')
        ctx.phase(self.corr_detect, ctx, c, rng)
        ctx.phase(self.corr_text, ctx, c, rng)
        ctx.phase(self.corr_incdec, ctx, c, rng)
        ctx.phase(self.corr_incenc, ctx, c, rng)
        ctx.phase(c07_inner.corr_inner, self, ctx, c, rng)
        ctx.phase(c07_inner.corr_css_concrete, self, ctx, c, rng)
        ctx.phase(c07_inner.corr_css_stream, self, ctx, c, rng)
        ctx.phase(c07_inner.corr_css_reset, self, ctx, c, rng)
        ctx.phase(self.oracle_spec, ctx, c, rng)
        ctx.phase(self.oracle_roundtrip_chunking, ctx, c, rng)

    # -- correspondence: detector ----------------------------------------------------------------
    def corr_detect(self, ctx, c, rng):
        vals = CONSTS + [1]
        inputs = []
        for n in range(0, 5):
            for t in itertools.product(vals, repeat=n):
                inputs.append(bytes(t))
        # class factoring: replace the "other" representative by random other bytes
        others = [x for x in range(256) if x not in CONSTS]
        extra = []
        for _ in range(ctx.n(2000, 40000)):
            n = rng.randint(1, 8)
            b = bytes(rng.choice(vals) if rng.random() < 0.7 else rng.choice(others) for _ in range(n))
            extra.append(b)
        # @charset headers, complete / incomplete / with odd names
        for _ in range(ctx.n(1500, 30000)):
            name = ''.join(rng.choice('utf-816aBc_ \x00é"') for _ in range(rng.randint(0, 8)))
            s = PREFIX + name + rng.choice(['"', '";', '"; a{}', '', ' ', '\n'])
            b = s.encode('latin-1')
            k = rng.randint(0, len(b))
            extra.append(b[:k] if rng.random() < 0.5 else b)
        lines, cases = [], []
        for b in inputs + extra:
            for final in (False, True):
                lines.append('detect %d %s' % (final, encb(b)))
                cases.append((b, final))
        out = ctx.driver(lines) if ctx.model_ok else [None] * len(lines)
        for (b, final), m in zip(cases, out):
            a = c.detectencoding_str(b, final)
            from_rule = a[0] is not None and a[1] and b[:10] == b'@charset "'
            got = show_ans_model_style(a, from_rule)
            ctx.case(key=('detect', b, final), nontrivial=(a != ('utf-8', False)),
                     sample={'detect': b.hex(), 'final': final, 'impl': got}, kind='detect:' + got.split()[0][:6])
            if m is not None and m != got:
                ctx.disagree('detectencoding_str', {'bytes': b.hex(), 'final': final}, got, m)
        ctx.notes['detect_exhaustive_len_le_4_classes'] = len(inputs) * 2

    # -- correspondence: text-side detector and @charset rewriter ---------------------------------
    def corr_text(self, ctx, c, rng):
        lines, cases = [], []
        for _ in range(ctx.n(1500, 40000)):
            t = self.gen_text(rng)
            k = rng.randint(0, len(t))
            s = t[:k] if rng.random() < 0.7 else t
            final = rng.random() < 0.5
            name = rng.choice(['utf-8', 'UTF_8_SIG', 'utf-8-sig', 'latin-1', 'x', '', 'Utf_8-Sig', 'utf-16'])
            lines.append('detectu %d %s' % (final, enc(s)))
            cases.append(('u', s, final, None))
            lines.append('fix %d %s %s' % (final, enc(name), enc(s)))
            cases.append(('f', s, final, name))
        out = ctx.driver(lines) if ctx.model_ok else [None] * len(lines)
        for (kind, s, final, name), m in zip(cases, out):
            if kind == 'u':
                a = c.detectencoding_unicode(s, final)
                got = show_ans_model_style(a, a[1])
                ctx.case(key=('du', s, final), nontrivial=a[1] or a[0] is None, kind='detectu')
            else:
                r = c._fixencoding(s, name, final)
                got = 'NONE' if r is None else 'OK ' + enc(r)
                ctx.case(key=('fix', s, final, name), nontrivial=(r != s), kind='fix',
                         sample={'fix': s, 'encoding': name, 'final': final, 'impl': r})
            if m is not None and m != got:
                ctx.disagree('detectencoding_unicode' if kind == 'u' else '_fixencoding',
                             {'text': s, 'final': final, 'encoding': name}, got, m)

    # -- correspondence: the IncrementalDecoder state machine (Model/CodecInc.lean) ------------------
    def corr_incdec(self, ctx, c, rng):
        """ASCII data and ASCII-compatible encodings, so CPython's inner codec is the identity on code points —
        exactly the `idInner` the driver instantiates the machine with. Compared per chunk: output, and
        before the final call: decoder present?, encoding, buffer, headerfixed."""
        lines, cases = [], []
        names = ['latin-1', 'ascii', 'utf-8', 'iso-8859-1', 'cp1252']
        for _ in range(ctx.n(2500, 60000)):
            r = rng.random()
            body = ''.join(rng.choice(['a', '{', '}', ' ', '"', '@', 'x:y', '\n', ';', '@charset "', 'c']) for _ in range(rng.randint(0, 8)))
            if r < 0.6:
                text = PREFIX + rng.choice(names) + rng.choice(['";', '"', '"; ']) + body
            elif r < 0.8:
                text = PREFIX[:rng.randint(0, 10)] + body
            else:
                text = body
            data = text.encode('ascii')
            n = len(data)
            k = rng.randint(0, min(5, n))
            cuts = sorted(rng.randint(0, n) for _ in range(k))
            parts = [data[a:b] for a, b in zip([0] + cuts, cuts + [n])]
            given = rng.choice([None, None, 'latin-1', 'ascii', 'utf-8'])
            force = rng.random() < 0.5
            lines.append('incdec %s %d %s' % ('none' if given is None else enc(given), force,
                                              ' '.join(encb(p) for p in parts)))
            cases.append((parts, given, force))
        out = ctx.driver(lines) if ctx.model_ok else [None] * len(lines)
        for (parts, given, force), m in zip(cases, out):
            d = c.IncrementalDecoder(encoding=given, force=force)
            try:
                one = codecs.getdecoder('css')(b''.join(parts), encoding=given, force=force)[0]
            except LookupError:
                ctx.count('incdec:unknown-encoding-name (skipped: codec lookup is not modelled)')
                continue
            try:
                outs = [d.decode(p, False) for p in parts]
                if d.decoder is None:
                    st = 'W:' + encb(d.buffer)
                elif not d.headerfixed:
                    st = 'D:%s:%s' % (enc(d.encoding), enc(d.buffer))
                else:
                    st = 'S:' + enc(d.encoding)
                fin = d.decode(b'', True)
            except Exception as e:     # one-shot decode works on this input, the incremental decoder must too
                ctx.violate('incremental decoder = one-shot for every chunking',
                            {'call': 'IncrementalDecoder', 'chunks': [p.hex() for p in parts], 'encoding': given,
                             'force': force}, {'exception': repr(e), 'one_shot': one})
                continue
            if ''.join(outs) + fin != one:
                ctx.violate('incremental decoder = one-shot for every chunking',
                            {'call': 'IncrementalDecoder', 'chunks': [p.hex() for p in parts], 'encoding': given,
                             'force': force}, {'got': ''.join(outs) + fin, 'want': one})
            got = '%s | %s | %s | %s' % (' '.join(enc(o) for o in outs), enc(fin), st, enc(one))
            ctx.case(key=('incdec', tuple(parts), given, force), nontrivial=len(parts) > 1, kind='incdec:' + st[0],
                     sample={'incdec_chunks': [p.decode('ascii') for p in parts], 'encoding': given, 'force': force,
                             'outputs': outs + [fin]})
            if m is not None and ' '.join(m.split()) != ' '.join(got.split()):
                ctx.disagree('IncrementalDecoder state machine', {'chunks': [p.hex() for p in parts],
                             'encoding': given, 'force': force}, got, m)

    def corr_incenc(self, ctx, c, rng):
        """IncrementalEncoder machine vs Model/CodecInc.lean `estep`, ASCII text and identity-compatible encodings"""
        lines, cases = [], []
        names = ['latin-1', 'ascii', 'utf-8', 'iso-8859-1', 'utf-8-sig', 'UTF_8_SIG']
        for _ in range(ctx.n(2500, 60000)):
            r = rng.random()
            body = ''.join(rng.choice(['a', '{', '}', ' ', '"', '@', 'x:y', '\n', ';', '@charset "', 'c']) for _ in range(rng.randint(0, 8)))
            if r < 0.6:
                text = PREFIX + rng.choice(names) + rng.choice(['";', '"', '"; ', '']) + body
            elif r < 0.8:
                text = PREFIX[:rng.randint(0, 10)] + body
            else:
                text = body
            n = len(text)
            k = rng.randint(0, min(5, n))
            cuts = sorted(rng.randint(0, n) for _ in range(k))
            parts = [text[a:b] for a, b in zip([0] + cuts, cuts + [n])]
            given = rng.choice([None, None, 'latin-1', 'ascii', 'utf-8', 'utf-8-sig', 'UTF_8-sig'])
            lines.append('incenc %s %s' % ('none' if given is None else enc(given), ' '.join(enc(p) for p in parts)))
            cases.append((parts, given))
        out = ctx.driver(lines) if ctx.model_ok else [None] * len(lines)
        bom = codecs.BOM_UTF8
        for (parts, given), m in zip(cases, out):
            e = c.IncrementalEncoder(encoding=given)
            try:
                one = codecs.getencoder('css')(''.join(parts), encoding=given)[0]
            except LookupError:
                ctx.count('incenc:unknown-encoding-name (skipped: codec lookup is not modelled)')
                continue
            try:
                outs = [e.encode(p, False) for p in parts]
                st = ('W:' + enc(e.buffer)) if e.encoder is None else ('E:' + enc(e.encoding))
                fin = e.encode('', True)
            except Exception as ex:
                ctx.violate('incremental encoder = one-shot for every chunking',
                            {'call': 'IncrementalEncoder', 'chunks': parts, 'encoding': given},
                            {'exception': repr(ex), 'one_shot': one.hex()})
                continue
            # the identity inner encoder of the model writes no BOM; CPython's utf-8-sig does: drop it for comparison
            total = b''.join(outs) + fin
            strip = lambda b: b[len(bom):] if b.startswith(bom) else b
            outs2 = []
            seen = False
            for o in outs + [fin]:
                if not seen and o:
                    o = strip(o)
                    seen = True
                outs2.append(o)
            got = '%s | %s | %s | %s' % (' '.join(encb(o) for o in outs2[:-1]), encb(outs2[-1]), st, encb(strip(one)))
            ctx.case(key=('incenc', tuple(parts), given), nontrivial=len(parts) > 1, kind='incenc:' + st[0],
                     sample={'incenc_chunks': parts, 'encoding': given, 'outputs': [o.decode('latin-1') for o in outs + [fin]]})
            if total != one:
                ctx.violate('incremental encoder = one-shot for every chunking',
                            {'call': 'IncrementalEncoder', 'chunks': parts, 'encoding': given},
                            {'got': total.hex(), 'want': one.hex()})
            if m is not None and ' '.join(m.split()) != ' '.join(got.split()):
                ctx.disagree('IncrementalEncoder state machine', {'chunks': parts, 'encoding': given}, got, m)

    def gen_text(self, rng):
        body = ''.join(rng.choice(['a', '{', '}', ' ', 'é', '€', '"', '@', 'x:y', '\n', '\U0001F600', 'ü', ';'])
                       for _ in range(rng.randint(0, 12)))
        r = rng.random()
        if r < 0.55:
            name = rng.choice(['utf-8', 'latin-1', 'ascii', 'x', 'utf-16', 'iso-8859-15', 'UTF-8', ''])
            return PREFIX + name + rng.choice(['";', '"', '"; ']) + body
        if r < 0.7:
            return PREFIX[:rng.randint(0, 10)] + body
        return body

    # -- oracle: independent CSS 2.1 table, prefix stability --------------------------------------
    def oracle_spec(self, ctx, c, rng):
        vals = CONSTS + [1, 0x41, 0x22]
        tests = []
        for n in range(0, 5):
            for t in itertools.product(CONSTS + [1], repeat=n):
                tests.append(bytes(t))
        for _ in range(ctx.n(3000, 60000)):
            n = rng.randint(0, 16)
            tests.append(bytes(rng.choice(vals) for _ in range(n)))
        for _ in range(ctx.n(1000, 20000)):
            name = ''.join(rng.choice('utf-816aBc_ ') for _ in range(rng.randint(0, 8)))
            tests.append((PREFIX + name + rng.choice(['"', '";x', '', ' '])).encode('latin-1'))
        for b in tests:
            want = spec_detect(b)
            got = c.detectencoding_str(b, True)
            ctx.case(key=('spec', b), nontrivial=(want != ('utf-8', False)), kind='spec')
            if got != want:
                ctx.violate('detection follows CSS 2.1 section 4.4 (BOM first, then @charset at offset 0, '
                            'BOM-less UTF-16/32 patterns, else UTF-8; explicit flag)',
                            {'call': 'detectencoding_str', 'bytes': b.hex(), 'final': True},
                            {'impl': got, 'spec': want})
            # never a wrong early answer
            for k in range(0, len(b)):
                early = c.detectencoding_str(b[:k], False)
                if early[0] is not None and early != got:
                    ctx.violate('with insufficient data the answer is "unknown yet", never a wrong encoding',
                                {'call': 'detectencoding_str', 'prefix': b[:k].hex(), 'full': b.hex()},
                                {'early': early, 'final_answer': got})
                    break
            if c.detectencoding_str(b, True)[0] is None:
                ctx.violate('final=True always answers', {'bytes': b.hex()}, None)

    # -- oracle: round trip and chunking -----------------------------------------------------------
    def oracle_roundtrip_chunking(self, ctx, c, rng):
        n_texts = ctx.n(60, 1200)
        for i in range(n_texts):
            text = self.gen_text(rng)
            for e in ENCODINGS:
                try:
                    expected_text(text, e).encode(e)
                except UnicodeEncodeError:
                    continue
                self.one_roundtrip(ctx, c, rng, text, e)

    def one_roundtrip(self, ctx, c, rng, text, e):
        want = expected_text(text, e)
        data = codecs.getencoder('css')(text, encoding=e)[0]
        w = {'text': text, 'encoding': e}
        back = codecs.getdecoder('css')(data, encoding=e)[0]
        ctx.case(key=('rt', text, e), nontrivial=text.startswith(PREFIX), kind='roundtrip',
                 sample={'roundtrip': text, 'encoding': e, 'bytes': data.hex()})
        if back != want:
            ctx.violate('encode then decode (encoding given) returns the text with the @charset name rewritten',
                        dict(w, call='decode(encode(text, enc), enc)'), {'got': back, 'want': want})
        has_rule = want != text or (text.startswith(PREFIX) and '"' in text[len(PREFIX):])
        auto = e in BOM_ENCS or (has_rule and e in ('utf-8', 'latin-1', 'cp1252', 'ascii', 'iso-8859-15', 'koi8-r')) \
            or (e in ('utf-16-le', 'utf-16-be', 'utf-32-le', 'utf-32-be') and want.startswith('@c'))
        if auto and e == 'utf-16' and want.startswith('\x00'):
            auto = False        # FF FE 00 00 is the UTF-32 BOM (CSS 2.1 4.4; theorem utf16_nul_is_utf32)
        if auto:
            detected = spec_detect(data)[0]
            try:
                codecs.lookup(detected)
                ok = True
            except LookupError:
                ok = False
            if ok:
                back2 = codecs.getdecoder('css')(data)[0]
                want2 = expected_text(text, detected)
                if back2 != want2:
                    ctx.violate('decode with auto-detection (BOM / @charset) returns the text with the name rewritten '
                                'to the encoding actually used', dict(w, call='decode(encode(text, enc))'),
                                {'got': back2, 'want': want2, 'detected': detected})
        # chunking: decoder over bytes, encoder over text
        for cuts in self.partitions(rng, len(data), ctx):
            parts = [data[a:b] for a, b in zip((0,) + cuts, cuts + (len(data),))]
            dec_ = codecs.getincrementaldecoder('css')(encoding=e)
            try:
                got = ''.join(dec_.decode(p, False) for p in parts) + dec_.decode(b'', True)
            except UnicodeError as ex:
                got = 'raises %r' % ex
            ctx.case(key=('chd', text, e, cuts), nontrivial=any(x < 24 for x in cuts), kind='chunk-dec')
            if got != back:
                ctx.violate('incremental decoder = one-shot for every chunking',
                            dict(w, cuts=list(cuts), call='IncrementalDecoder'), {'got': got, 'want': back})
                break
            if auto:
                dec_ = codecs.getincrementaldecoder('css')()
                try:
                    got = ''.join(dec_.decode(p, False) for p in parts) + dec_.decode(b'', True)
                except UnicodeError as ex:
                    got = 'raises %r' % ex
                one = codecs.getdecoder('css')(data)[0]
                if got != one:
                    ctx.violate('incremental decoder with auto-detection = one-shot for every chunking',
                                dict(w, cuts=list(cuts), call='IncrementalDecoder()'), {'got': got, 'want': one})
                    break
            # stream reader fed through a chunked stream
            rd = codecs.getreader('css')(ChunkedStream(parts), encoding=e)
            try:
                got = rd.read()
            except UnicodeError as ex:
                got = 'raises %r' % ex
            if got != back and not open_header(text):
                ctx.violate('stream reader = one-shot for every chunking',
                            dict(w, cuts=list(cuts), call='StreamReader'), {'got': got, 'want': back})
                break
        for cuts in self.partitions(rng, len(text), ctx):
            parts = [text[a:b] for a, b in zip((0,) + cuts, cuts + (len(text),))]
            enc_ = codecs.getincrementalencoder('css')(encoding=e)
            got = b''.join(x for x in [enc_.encode(p, False) for p in parts] + [enc_.encode('', True)] if x)  # '' (str) is returned while buffering
            ctx.case(key=('che', text, e, cuts), nontrivial=any(x < 14 for x in cuts), kind='chunk-enc')
            if got != data:
                ctx.violate('incremental encoder = one-shot for every chunking',
                            dict(w, cuts=list(cuts), call='IncrementalEncoder'), {'got': got.hex(), 'want': data.hex()})
                break
            bio = io.BytesIO()
            wr = codecs.getwriter('css')(bio, encoding=e)
            for p in parts:
                wr.write(p)
            got = bio.getvalue()
            # a stream writer is never told that the data ended: a text that is only a (possibly incomplete)
            # @charset header stays buffered; the property speaks about complete data, so compare when flushed
            if got != data and not open_header(text):
                ctx.violate('stream writer = one-shot for every chunking',
                            dict(w, cuts=list(cuts), call='StreamWriter'), {'got': got.hex(), 'want': data.hex()})
                break

    def partitions(self, rng, n, ctx):
        """all single cuts and (for short inputs) all double cuts, plus random partitions"""
        out = [()]
        out += [(i,) for i in range(1, n)]
        if n <= ctx.n(14, 40):
            out += [(i, j) for i in range(1, n) for j in range(i + 1, n)]
        for _ in range(ctx.n(3, 20)):
            k = rng.randint(2, max(2, min(8, n)))
            if n > 2:
                out.append(tuple(sorted(set(rng.randint(1, n - 1) for _ in range(k)))))
        return out

    # ------------------------------------------------------------------------------------------
    def known(self, ctx, finding):
        c = impl()
        w = finding['witness']['data']
        if finding['id'] == c07_inner.FINDING:
            parts = [bytes.fromhex(x) for x in w['chunks']]
            one = codecs.getdecoder('css')(b''.join(parts), encoding=w['encoding'])[0]
            d = c.IncrementalDecoder(encoding=w['encoding'])
            try:
                got = ''.join(d.decode(p, False) for p in parts) + d.decode(b'', True)
            except UnicodeError:
                got = None
            return got != one
        if finding['id'] == c07_inner.RESET_FINDING:
            d = c.IncrementalDecoder()
            d.decode(bytes.fromhex(w['docs'][0][0]), True)
            d.reset()
            try:
                got = d.decode(bytes.fromhex(w['docs'][1][0]), True)
            except UnicodeError:
                got = None
            return got != c.IncrementalDecoder().decode(bytes.fromhex(w['docs'][1][0]), True)
        return True

    def replay(self, ctx, data):
        c = impl()
        w = data.get('witness') or {}
        if data.get('kind') == 'impl-violates' and 'bytes' in w:
            b = bytes.fromhex(w['bytes'])
            if c.detectencoding_str(b, True) != spec_detect(b):
                ctx.violate(data.get('clause'), w, {'impl': c.detectencoding_str(b, True), 'spec': spec_detect(b)})
        elif data.get('kind') == 'impl-violates' and 'prefix' in w:
            p, full = bytes.fromhex(w['prefix']), bytes.fromhex(w['full'])
            early = c.detectencoding_str(p, False)
            if early[0] is not None and early != c.detectencoding_str(full, True):
                ctx.violate(data.get('clause'), w, {'early': early})
        elif w.get('call') in ('IncrementalDecoder', 'IncrementalEncoder', 'StreamReader', 'StreamWriter') \
                and 'chunks' in w and 'cuts' not in w:
            self.replay_chunks(ctx, c, data, w)
        elif data.get('kind') == 'impl-violates' and 'text' in w:
            self.one_roundtrip(ctx, c, ctx.sub_rng('replay'), w['text'], w['encoding'])
        else:
            self.run(ctx)


def _replay_chunks(self, ctx, c, data, w):
    if w['call'] == 'IncrementalDecoder':
        parts = [bytes.fromhex(x) for x in w['chunks']]
        kw = {'encoding': w.get('encoding'), 'force': w.get('force', True)}
        try:
            one = codecs.getdecoder('css')(b''.join(parts), **kw)[0]
        except UnicodeError:
            one = None
        d = c.IncrementalDecoder(**kw)
        try:
            got = ''.join(d.decode(p, False) for p in parts) + d.decode(b'', True)
        except UnicodeError:
            got = None
    elif w['call'] == 'StreamReader':
        parts = [bytes.fromhex(x) for x in w['chunks']]
        kw = {'encoding': w.get('encoding'), 'force': w.get('force', True)}
        try:
            one = codecs.getdecoder('css')(b''.join(parts), **kw)[0]
        except UnicodeError:
            one = None
        rd = codecs.getreader('css')(ChunkedStream(parts), **kw)
        try:
            got = rd.read()
        except UnicodeError:
            got = None
        if got is not None and one is not None and one.startswith(got) and (rd.streamreader is None or rd.bytebuffer):
            got = one        # legitimately still buffered (no end-of-data signal in the stream API)
    elif w['call'] == 'StreamWriter':
        parts = w['chunks']
        try:
            one = codecs.getencoder('css')(''.join(parts), encoding=w.get('encoding'))[0]
        except UnicodeError:
            one = None
        bio = io.BytesIO()
        try:
            wr = codecs.getwriter('css')(bio, encoding=w.get('encoding'))
            for p in parts:
                wr.write(p)
            got = bio.getvalue()
            if one is not None and one.startswith(got) and (wr.streamwriter is None or not ''.join(parts)):
                got = one
        except UnicodeError:
            got = None
    else:
        parts = w['chunks']
        try:
            one = codecs.getencoder('css')(''.join(parts), encoding=w.get('encoding'))[0]
        except UnicodeError:
            one = None
        e = c.IncrementalEncoder(encoding=w.get('encoding'))
        try:
            got = b''.join(x for x in [e.encode(p, False) for p in parts] + [e.encode('', True)] if x)
        except UnicodeError:
            got = None
    if got != one:
        ctx.violate(data.get('clause'), w, {'incremental': repr(got), 'one_shot': repr(one)})


C07.replay_chunks = _replay_chunks


def open_header(text):
    """the data ends inside a (possible) @charset header. The codecs stream API has no end-of-data signal
    (StreamReader.decode / StreamWriter.encode take no `final`), so the stream classes keep such a text
    buffered; the incremental classes (which do get `final`) are checked on these texts too."""
    if len(text) <= len(PREFIX):
        return PREFIX.startswith(text) or text == PREFIX
    return text.startswith(PREFIX) and '"' not in text[len(PREFIX):]


class ChunkedStream:
    """a byte stream whose read() hands out the given parts one at a time"""
    def __init__(self, parts):
        self.parts = [p for p in parts if p]

    def read(self, size=-1):
        if not self.parts:
            return b''
        return self.parts.pop(0)

    def close(self):
        pass


CHECK = C07()
