"""CSS Color Module Level 3, section 4.3 "Extended color keywords" (plus `transparent`, section 4.2.3) —
an independent copy of the specification's table (hex notation), used by the C18 oracle. Not derived from
cssutils/css/colors.py."""

CSS3 = {
    'aliceblue': 'f0f8ff', 'antiquewhite': 'faebd7', 'aqua': '00ffff', 'aquamarine': '7fffd4', 'azure': 'f0ffff',
    'beige': 'f5f5dc', 'bisque': 'ffe4c4', 'black': '000000', 'blanchedalmond': 'ffebcd', 'blue': '0000ff',
    'blueviolet': '8a2be2', 'brown': 'a52a2a', 'burlywood': 'deb887', 'cadetblue': '5f9ea0', 'chartreuse': '7fff00',
    'chocolate': 'd2691e', 'coral': 'ff7f50', 'cornflowerblue': '6495ed', 'cornsilk': 'fff8dc', 'crimson': 'dc143c',
    'cyan': '00ffff', 'darkblue': '00008b', 'darkcyan': '008b8b', 'darkgoldenrod': 'b8860b', 'darkgray': 'a9a9a9',
    'darkgreen': '006400', 'darkgrey': 'a9a9a9', 'darkkhaki': 'bdb76b', 'darkmagenta': '8b008b',
    'darkolivegreen': '556b2f', 'darkorange': 'ff8c00', 'darkorchid': '9932cc', 'darkred': '8b0000',
    'darksalmon': 'e9967a', 'darkseagreen': '8fbc8f', 'darkslateblue': '483d8b', 'darkslategray': '2f4f4f',
    'darkslategrey': '2f4f4f', 'darkturquoise': '00ced1', 'darkviolet': '9400d3', 'deeppink': 'ff1493',
    'deepskyblue': '00bfff', 'dimgray': '696969', 'dimgrey': '696969', 'dodgerblue': '1e90ff',
    'firebrick': 'b22222', 'floralwhite': 'fffaf0', 'forestgreen': '228b22', 'fuchsia': 'ff00ff',
    'gainsboro': 'dcdcdc', 'ghostwhite': 'f8f8ff', 'gold': 'ffd700', 'goldenrod': 'daa520', 'gray': '808080',
    'green': '008000', 'greenyellow': 'adff2f', 'grey': '808080', 'honeydew': 'f0fff0', 'hotpink': 'ff69b4',
    'indianred': 'cd5c5c', 'indigo': '4b0082', 'ivory': 'fffff0', 'khaki': 'f0e68c', 'lavender': 'e6e6fa',
    'lavenderblush': 'fff0f5', 'lawngreen': '7cfc00', 'lemonchiffon': 'fffacd', 'lightblue': 'add8e6',
    'lightcoral': 'f08080', 'lightcyan': 'e0ffff', 'lightgoldenrodyellow': 'fafad2', 'lightgray': 'd3d3d3',
    'lightgreen': '90ee90', 'lightgrey': 'd3d3d3', 'lightpink': 'ffb6c1', 'lightsalmon': 'ffa07a',
    'lightseagreen': '20b2aa', 'lightskyblue': '87cefa', 'lightslategray': '778899', 'lightslategrey': '778899',
    'lightsteelblue': 'b0c4de', 'lightyellow': 'ffffe0', 'lime': '00ff00', 'limegreen': '32cd32', 'linen': 'faf0e6',
    'magenta': 'ff00ff', 'maroon': '800000', 'mediumaquamarine': '66cdaa', 'mediumblue': '0000cd',
    'mediumorchid': 'ba55d3', 'mediumpurple': '9370db', 'mediumseagreen': '3cb371', 'mediumslateblue': '7b68ee',
    'mediumspringgreen': '00fa9a', 'mediumturquoise': '48d1cc', 'mediumvioletred': 'c71585',
    'midnightblue': '191970', 'mintcream': 'f5fffa', 'mistyrose': 'ffe4e1', 'moccasin': 'ffe4b5',
    'navajowhite': 'ffdead', 'navy': '000080', 'oldlace': 'fdf5e6', 'olive': '808000', 'olivedrab': '6b8e23',
    'orange': 'ffa500', 'orangered': 'ff4500', 'orchid': 'da70d6', 'palegoldenrod': 'eee8aa', 'palegreen': '98fb98',
    'paleturquoise': 'afeeee', 'palevioletred': 'db7093', 'papayawhip': 'ffefd5', 'peachpuff': 'ffdab9',
    'peru': 'cd853f', 'pink': 'ffc0cb', 'plum': 'dda0dd', 'powderblue': 'b0e0e6', 'purple': '800080', 'red': 'ff0000',
    'rosybrown': 'bc8f8f', 'royalblue': '4169e1', 'saddlebrown': '8b4513', 'salmon': 'fa8072',
    'sandybrown': 'f4a460', 'seagreen': '2e8b57', 'seashell': 'fff5ee', 'sienna': 'a0522d', 'silver': 'c0c0c0',
    'skyblue': '87ceeb', 'slateblue': '6a5acd', 'slategray': '708090', 'slategrey': '708090', 'snow': 'fffafa',
    'springgreen': '00ff7f', 'steelblue': '4682b4', 'tan': 'd2b48c', 'teal': '008080', 'thistle': 'd8bfd8',
    'tomato': 'ff6347', 'turquoise': '40e0d0', 'violet': 'ee82ee', 'wheat': 'f5deb3', 'white': 'ffffff',
    'whitesmoke': 'f5f5f5', 'yellow': 'ffff00', 'yellowgreen': '9acd32',
}


def table():
    """name -> (r, g, b, alpha as a string)"""
    out = {n: (int(h[0:2], 16), int(h[2:4], 16), int(h[4:6], 16), '1') for n, h in CSS3.items()}
    out['transparent'] = (0, 0, 0, '0')
    return out
