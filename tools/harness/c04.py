"""C04 — syntax errors are contained: only the malformed construct is dropped; truncated input is closed.

model:    lean/CssVerif/Model/Struct.lean (K2: _tokensupto2, _parse, declaration block, property split,
          unknown / style / media rule, sheet dispatcher)
theorems: lean/CssVerif/Props/C04.lean
tie:      (a) translator: MarginRule.margins -> Gen/C04Margins.lean
          (c) truncated sheets: certificate + predicted rule list (driver `cut`, theorem truncation_certified) vs
              the model's answer and the DOM; composed model text -> C05 tokenizer model -> sheet (driver `text`)
          (b) correspondence on token lists produced by the real tokenizer:
              _tokensupto2 (all 13 modes x start token), CSSUnknownRule.wellformed,
              CSSStyleDeclaration.cssText (the seq), parseString (cssRules projection).
              Selectors / values / media queries / bodies of the other at-rules are opaque in the model; the
              driver gets the verdict of the REAL sub-parser for exactly the token lists the model shows
              (see `Orc`), so a difference can only come from the structure level.
oracle:   independent of the model: parseString(damaged) == parseString(original) apart from the damaged
          construct, for (grammar sheet x injection point x balanced garbage that is not a valid construct);
          every prefix of a grammar sheet keeps its complete rules and declarations.
"""
import ast
import json
import logging
import os

from lib.framework import Check, enc, dec, time_limit, TimeLimit
from harness import c04_gen as G

OTHER_TYPES = {'BOM', 'UNICODE-RANGE', 'DIMENSION', 'PERCENTAGE', 'NUMBER', 'HASH', 'INCLUDES', 'DASHMATCH',
               'PREFIXMATCH', 'SUFFIXMATCH', 'SUBSTRINGMATCH'}
MODES = {'default': None, 'blockstart': 'blockstartonly', 'blockend': 'blockendonly', 'mediaend': 'mediaendonly',
         'importmq': 'importmediaqueryendonly', 'mq': 'mediaqueryendonly', 'semicolon': 'semicolon',
         'propname': 'propertynameendonly', 'propvalue': 'propertyvalueendonly',
         'propprio': 'propertypriorityendonly', 'selatt': 'selectorattendonly', 'funcend': 'funcendonly',
         'listsep': 'listseponly'}
AT_TYPE = {'charset': 'CHARSET_SYM', 'import': 'IMPORT_SYM', 'variables': 'VARIABLES_SYM',
           'fontface': 'FONT_FACE_SYM', 'page': 'PAGE_SYM', 'margin': 'ATKEYWORD'}
TYPE_NAMES = {0: 'unknown', 1: 'style', 2: 'charset', 3: 'import', 4: 'media', 5: 'fontface', 6: 'page',
              10: 'namespace', 1001: 'comment', 1008: 'variables', 1006: 'margin'}


def cu():
    import cssutils
    cssutils.log.setLevel(logging.FATAL)
    cssutils.log.raiseExceptions = False
    return cssutils


def tokenize(text, full=True):
    from cssutils.tokenize2 import Tokenizer
    return list(Tokenizer().tokenize(text, fullsheet=full))


def enc_tok(t):
    return '%s:%s' % (t[0], enc(t[1]))


def enc_toks(toks):
    return ','.join(enc_tok(t) for t in toks) or '-'


def in_domain(toks):
    """what the driver accepts (and the tokenizer guarantees)"""
    for i, t in enumerate(toks):
        if t[0] == 'EOF' and i != len(toks) - 1:
            return False
        if t[0] == 'CHAR' and len(t[1]) != 1:
            return False
    return True


def expand(key, toks):
    if key == 'e':
        return []
    if '+' in key or '-' not in key:
        return [toks[int(x)] for x in key.split('+')]
    a, b = key.split('-')
    return toks[int(a):int(b) + 1]


def ns_of_key(nskey):
    if nskey == '-':
        return {}
    out = {}
    for e in nskey.split('&'):
        p, u = e.split('=')
        out[dec(p)] = dec(u)
    return out


def null_fetcher(url):
    return None


class Orc:
    """answers of the real sub-parsers for the token lists the model shows; key strings as in Drv/C04.lean"""

    def __init__(self, toks):
        self.toks = toks
        self.table = {}      # query -> (answer words, canonical text)

    def entries(self):
        out = []
        for q, (words, _) in self.table.items():
            out.append(q + ':' + ':'.join(words))
        return ','.join(out) or '-'

    def ask(self, q):
        if q in self.table:
            return
        css = cu().css
        parts = q.split(':')
        kind = parts[0]
        toks = expand(parts[-1], self.toks)
        try:
            with time_limit(20):
                if kind == 'v':
                    pv = css.PropertyValue()
                    pv.cssText = list(toks)
                    self.table[q] = (['1' if pv.wellformed else '0'], pv.cssText if pv.wellformed else None)
                elif kind == 's':
                    sl = css.SelectorList()
                    sl.selectorText = (list(toks), ns_of_key(parts[1]))
                    self.table[q] = (['1' if sl.wellformed else '0'], sel_canon(sl) if sl.wellformed else None)
                elif kind == 'm':
                    ml = cu().stylesheets.MediaList()
                    ml.mediaText = list(toks)
                    self.table[q] = (['1' if ml.wellformed else '0'], ml.mediaText if ml.wellformed else None)
                elif kind == 'a':
                    typ = parts[1]
                    sheet = css.CSSStyleSheet()
                    sheet._setFetcher(null_fetcher)
                    first = toks[0][1] if toks else ''
                    if typ == 'CHARSET_SYM':
                        r = css.CSSCharsetRule(parentStyleSheet=sheet)
                    elif typ == 'IMPORT_SYM':
                        r = css.CSSImportRule(parentStyleSheet=sheet)
                    elif typ == 'VARIABLES_SYM':
                        r = css.CSSVariablesRule(parentStyleSheet=sheet)
                    elif typ == 'FONT_FACE_SYM':
                        r = css.CSSFontFaceRule(parentStyleSheet=sheet)
                    elif typ == 'PAGE_SYM':
                        r = css.CSSPageRule(parentStyleSheet=sheet)
                    elif typ == 'ATKEYWORD':
                        r = css.MarginRule(parentStyleSheet=sheet)
                    else:
                        raise ValueError(q)
                    r.cssText = list(toks)
                    self.table[q] = (['1' if r.wellformed else '0'], r.cssText if r.wellformed else None)
                elif kind == 'n':
                    r = css.CSSNamespaceRule(cssText=list(toks))
                    if r.wellformed:
                        self.table[q] = (['1', enc(r.prefix), enc(r.namespaceURI)], (r.prefix, r.namespaceURI))
                    else:
                        self.table[q] = (['0'], None)
                else:
                    raise ValueError(q)
        except TimeLimit:
            raise
        except Exception as e:      # the real sub-parser raised: recorded, shows up as a disagreement/violation
            self.table[q] = (['0'], 'RAISE %s' % type(e).__name__)

    def text(self, q):
        return self.table[q][1]


def sel_canon(sl):
    """selector list as item sequences; namespaced names are (uri, name) pairs, so this does not depend on
    which prefixes the sheet happens to declare at serialisation time (selectorText does)"""
    def val(v):
        if isinstance(v, str):
            return v
        if isinstance(v, tuple):
            return '|'.join(map(str, v))
        return getattr(v, 'cssText', repr(type(v)))      # e.g. a CSSComment inside the selector
    return ' , '.join(' '.join('%s:%s' % (i.type, val(i.value)) for i in sel.seq) for sel in sl.seq)


def shown_queries(tree, in_media=False):
    """every oracle query visible in a model reply"""
    out = []
    for r in tree:
        k = r['k']
        if k == 'style':
            out.append('s:%s:%s' % (r['ns'], r['sel']))
            for it in r['items']:
                if it['k'] == 'decl':
                    out.append('v:%s' % it['value'])
        elif k == 'media':
            if not r.get('stub'):
                out.append('m:%s' % r['mq'])
                out += shown_queries(r['rules'], True)
        elif k in AT_TYPE:
            out.append('a:%s:%d:%s' % (AT_TYPE[k], 1 if in_media else 0, r['toks']))
        elif k == 'namespace':
            out.append('n:%s' % r['toks'])
    return out


def item_queries(items):
    return ['v:%s' % it['value'] for it in items if it['k'] == 'decl']


# -- canonical projections ---------------------------------------------------------------------------
def proj_items_real(style):
    css = cu().css
    out = []
    for item in style.seq:
        v = item.value
        if isinstance(v, css.Property):
            out.append(('decl', v.literalname, v.propertyValue.cssText, v.literalpriority))
        elif isinstance(v, css.CSSComment):
            out.append(('comment', v.cssText))
        elif isinstance(v, css.CSSUnknownRule):
            out.append(('unknown', v.cssText))
        else:
            out.append(('other', repr(type(v))))
    return out


def proj_rules_real(rules):
    out = []
    for r in rules:
        k = TYPE_NAMES.get(r.type, str(r.type))
        if k == 'style':
            out.append(('style', sel_canon(r.selectorList), proj_items_real(r.style)))
        elif k == 'media':
            out.append(('media', r.media.mediaText, r.name, proj_rules_real(r.cssRules)))
        elif k == 'namespace':
            out.append(('namespace', r.prefix, r.namespaceURI))
        else:
            out.append((k, r.cssText))
    return out


def string_value(v):
    return v.replace('\\' + v[0], v[0])[1:-1]


def proj_items_model(items, toks, orc):
    css = cu().css
    out = []
    for it in items:
        k = it['k']
        if k == 'decl':
            prio = toks[it['prio']][1] if it['prio'] is not None else ''
            out.append(('decl', toks[it['name']][1].lower(), orc.text('v:%s' % it['value']), prio))
        elif k == 'comment':
            out.append(('comment', css.CSSComment([toks[it['pos']]]).cssText))
        elif k == 'unknown':
            out.append(('unknown', css.CSSUnknownRule(cssText=expand(it['toks'], toks)).cssText))
        elif k == 'dropped':
            pass
    return out


def proj_rules_model(tree, toks, orc, in_media=False):
    css = cu().css
    out = []
    for r in tree:
        k = r['k']
        if k == 'style':
            out.append(('style', orc.text('s:%s:%s' % (r['ns'], r['sel'])), proj_items_model(r['items'], toks, orc)))
        elif k == 'media':
            if r.get('stub'):
                out.append(('media', 'all', None, []))
            else:
                name = string_value(toks[r['name']][1]) if r['name'] is not None else None
                out.append(('media', orc.text('m:%s' % r['mq']), name or None,
                            proj_rules_model(r['rules'], toks, orc, True)))
        elif k == 'namespace':
            out.append(('namespace', dec(r['pfx']), dec(r['uri'])))
        elif k == 'comment':
            out.append(('comment', css.CSSComment([toks[r['pos']]]).cssText))
        elif k == 'unknown':
            out.append(('unknown', css.CSSUnknownRule(cssText=expand(r['toks'], toks)).cssText))
        elif k in AT_TYPE:
            out.append((k, orc.text('a:%s:%d:%s' % (AT_TYPE[k], 1 if in_media else 0, r['toks']))))
        else:
            out.append(('?', k))
    return out


def parse_real(text):
    """cssRules projection of parseString(text), or ('RAISE', name)"""
    c = cu()
    try:
        with time_limit(30):
            sheet = c.CSSParser(fetcher=null_fetcher).parseString(text)
    except TimeLimit:
        raise
    except Exception as e:
        return ('RAISE', type(e).__name__)
    return proj_rules_real(sheet.cssRules)     # an error in here is the harness's, not the implementation's


def decls_real(text):
    c = cu()
    try:
        with time_limit(30):
            st = c.css.CSSStyleDeclaration()
            st.cssText = text
    except TimeLimit:
        raise
    except Exception as e:
        return ('RAISE', type(e).__name__)
    return proj_items_real(st)


def strip_proj(p):
    """lists/tuples -> nested lists, for JSON and comparison"""
    if isinstance(p, (list, tuple)):
        return [strip_proj(x) for x in p]
    return p


# ---------------------------------------------------------------------------------------------------
class C04(Check):
    id = 'C04'
    props_module = 'CssVerif.Props.C04'
    driver_exe = 'drv_c04'
    sources = ('cssutils/util.py', 'cssutils/css/cssstyledeclaration.py', 'cssutils/css/property.py',
               'cssutils/css/cssunknownrule.py', 'cssutils/css/cssstylerule.py', 'cssutils/css/cssmediarule.py',
               'cssutils/css/cssstylesheet.py', 'cssutils/css/marginrule.py', 'cssutils/tokenize2.py')
    trusted_base = (
        'hand-written model lean/CssVerif/Model/Struct.lean of _tokensupto2 / _parse / declaration block / '
        'property split / unknown, style, media rule / sheet dispatcher, tied to the code by the differential '
        'correspondence of this run (token lists from the real tokenizer)',
        'selectors, property values, media query lists and the bodies of @charset/@import/@namespace/@page/'
        '@font-face/@variables/margin rules are opaque (an arbitrary oracle in every theorem); in the '
        'correspondence the oracle is the real sub-parser run on exactly the token lists the model shows',
        'the tokenizer is not modelled here (C05): both sides start from the tokens of the real tokenizer; the '
        'text-level theorems (T4.5) use the tokenizer model of C05, and the stream text-pipeline checks on a sample '
        'that this model composed with the structure model reproduces the real tokens and the same rule tree',
        'truncation certificates are found by an unverified greedy search (findCut) and judged by the verified '
        'check Cut.ok; the predicted rule list is compared with the model and with the DOM on every truncated sheet',
    )
    assumptions = ('token lists have EOF only as last token and single-character CHAR tokens (tokenizer invariant, '
                   'checked by the driver on every request)',)
    rule = ('grammar sheets (style / @media incl. nested / @import / @namespace / @charset / @page / @font-face / '
            '@variables / unknown at-rules / comments, random spelling: white space, comments, case of at-keywords, '
            'escapes) x injection point at every statement and declaration boundary x garbage from a balanced-token '
            'grammar that the implementation itself does not accept as a construct; all token-boundary prefixes of '
            'grammar sheets and of chains of 3-6 nested @media rules (kinds cut:<shape of what is open at the cut>); a malformed stream (token deletion/duplication/bracket injection, truncation); direct '
            'calls of _tokensupto2 in all 13 modes with and without start token. non-trivial = distinct input whose '
            'parse drops or closes something (damaged differs from original text, or truncated before the end)')

    # -- translator ---------------------------------------------------------------------------------
    def translate(self, ctx):
        path = os.path.join(ctx.repo, 'cssutils/css/marginrule.py')
        src = open(path, encoding='utf-8').read()
        tree = ast.parse(src)
        margins = None
        for node in ast.walk(tree):
            if isinstance(node, ast.ClassDef) and node.name == 'MarginRule':
                for st in node.body:
                    if isinstance(st, ast.Assign) and any(isinstance(t, ast.Name) and t.id == 'margins'
                                                          for t in st.targets):
                        margins = ast.literal_eval(st.value)
        if not isinstance(margins, list) or not all(isinstance(m, str) for m in margins):
            raise ValueError('MarginRule.margins: not a list of string literals')
        import hashlib
        h = hashlib.sha256(src.encode()).hexdigest()
        rows = ['  [%s]%s  -- %s' % (', '.join('0x%X' % ord(c) for c in m), ',' if i < len(margins) - 1 else '', m)
                for i, m in enumerate(margins)]
        lines = ['-- GENERATED by tools/harness/c04.py from cssutils/css/marginrule.py (sha256 %s)' % h,
                 '-- `MarginRule.margins`: the at-keywords that make the sheet dispatcher build a MarginRule',
                 'namespace CssVerif.Gen.C04',
                 'def margins : List (List Nat) := ['] + rows + [']', 'end CssVerif.Gen.C04', '']
        return {'CssVerif/Gen/C04Margins.lean': '\n'.join(lines)}

    # -- run ----------------------------------------------------------------------------------------
    def run(self, ctx):
        cu()
        rng = ctx.sub_rng('c04')
        ctx.phase(self.run_corpus, ctx)
        ctx.phase(self.corr_upto, ctx, rng)
        sheets = [G.gen_sheet(rng) for _ in range(ctx.n(160, 3000))]
        ctx.phase(self.corr_and_oracle_injection, ctx, rng, sheets)
        ctx.phase(self.corr_and_oracle_truncation, ctx, rng, sheets)
        ctx.phase(self.corr_malformed, ctx, rng, sheets)
        ctx.phase(self.corr_decl_blocks, ctx, rng)
        ctx.phase(self.corr_unknown, ctx, rng)
        ctx.phase(self.oracle_selector_grammar, ctx, rng)

    def search(self, ctx):
        """an obligation or the correspondence broke and the quick oracle found nothing: the two
        implementation-side oracles again on more sheets (the other streams cannot produce a violation)"""
        ctx.search_mode = True
        rng = ctx.sub_rng('c04-search')
        sheets = [G.gen_sheet(rng) for _ in range(1000)]
        ctx.phase(self.corr_and_oracle_injection, ctx, rng, sheets)
        if not ctx.violations:
            ctx.phase(self.corr_and_oracle_truncation, ctx, rng, sheets)

    # -- corpus --------------------------------------------------------------------------------------
    def corpus(self, ctx):
        path = os.path.join(ctx.verif, 'tools', 'corpus', 'C04', 'sheets.json')
        if os.path.exists(path):
            return json.load(open(path))
        return []

    def run_corpus(self, ctx):
        texts = [e['text'] for e in self.corpus(ctx)]
        self.check_sheets(ctx, texts, 'corpus', cuts=True)

    # -- model on sheets ------------------------------------------------------------------------------
    def model_sheets(self, ctx, toklists):
        """-> list of (tree dict | None, Orc) per token list; iterates until every shown query is answered"""
        n = len(toklists)
        orcs = [Orc(t) for t in toklists]
        res = [None] * n
        if not ctx.model_ok:
            return list(zip(res, orcs))
        encs = [enc_toks(t) for t in toklists]
        # every statement starting at NAMESPACE_SYM: a superset of the nsInfo queries
        out = ctx.driver(['nsq %s' % e for e in encs])
        for i, line in enumerate(out):
            for key in json.loads(line):
                orcs[i].ask('n:%s' % key)
        pending = list(range(n))
        for rnd in range(8):
            if not pending:
                break
            out = ctx.driver(['sheet %s %s' % (encs[i], orcs[i].entries()) for i in pending])
            nxt = []
            for i, line in zip(pending, out):
                if not line.startswith('{'):
                    res[i] = line
                    continue
                tree = json.loads(line)
                missing = [q for q in shown_queries(tree['rules']) if q not in orcs[i].table]
                if missing:
                    for q in missing:
                        orcs[i].ask(q)
                    nxt.append(i)
                else:
                    res[i] = tree
            pending = nxt
            ctx.count('oracle-rounds', 1)
        for i in pending:
            res[i] = 'oracle iteration did not converge'
        return list(zip(res, orcs))

    def check_cuts(self, ctx, texts, toklists, models, reals, kind):
        """the truncation theorems on real truncated sheets: the driver builds a certificate for the token list
        (complete statements, the open @media rules with their complete units to any depth, the open style rule
        with its complete declarations), checks every hypothesis (`Cut.ok`, proved sound) and answers with the
        rule list theorem `truncation_certified` predicts; it must be the model's own answer (an instance of the
        theorem) and, projected, the DOM of parseString"""
        idx = [i for i, (tree, _) in enumerate(models) if isinstance(tree, dict)]
        if not idx or not ctx.model_ok:
            return
        out = ctx.driver(['cut %s %s' % (enc_toks(toklists[i]), models[i][1].entries()) for i in idx])
        for i, line in zip(idx, out):
            tree, orc = models[i]
            if not line.startswith('{'):
                ctx.disagree('cut/' + kind, {'text': texts[i]}, 'a certificate or ok=false', line)
                continue
            pred = json.loads(line)
            shape = pred.get('shape', '?')
            ctx.case(key=('cut', texts[i]), nontrivial=bool(pred['ok']) and shape != 'end',
                     kind='cut:%s%s' % ('' if pred['ok'] else 'uncovered:', shape),
                     sample={'text': texts[i][-120:], 'shape': shape})
            if not pred['ok']:
                continue
            if pred['rules'] != tree['rules']:
                ctx.disagree('cut/theorem-instance/' + kind, {'text': texts[i]}, tree['rules'], pred['rules'])
                continue
            try:
                mp = strip_proj(proj_rules_model(pred['rules'], toklists[i], orc))
            except KeyError as e:
                mp = 'prediction asks a query the model did not show: %s' % e
            if mp != strip_proj(reals[i]):
                ctx.disagree('cut/prediction/' + kind, {'text': texts[i], 'shape': shape}, strip_proj(reals[i]), mp)

    def check_text_pipeline(self, ctx, texts, toklists, models, kind, limit):
        """T4.5: the composed model (tokenizer model of C05, then the structure model) on the TEXT must give
        exactly what the structure model gives on the real tokenizer's tokens (same rules, same token keys)"""
        idx = [i for i, (tree, _) in enumerate(models) if isinstance(tree, dict)]
        if limit is not None and len(idx) > limit:
            # first the texts whose last token was completed by the tokenizer (open string / comment / url( ),
            # then an even sample of the rest
            def completed(i):
                t = toklists[i]
                return len(t) >= 2 and t[-2][0] in ('STRING', 'COMMENT', 'URI') and not texts[i].endswith(t[-2][1])
            first = [i for i in idx if completed(i)][:limit // 2]
            rest = [i for i in idx if i not in set(first)]
            k = limit - len(first)
            step = len(rest) / float(k)
            idx = sorted(first + [rest[int(j * step)] for j in range(k)] if rest else first)
        if not idx or not ctx.model_ok:
            return
        out = ctx.driver(['text %s %s' % (enc(texts[i]), models[i][1].entries()) for i in idx])
        for i, line in zip(idx, out):
            tree = models[i][0]
            ctx.case(key=('text', texts[i]), nontrivial=True, kind='text-pipeline:' + kind,
                     sample={'text': texts[i][-120:]})
            if not line.startswith('{'):
                ctx.disagree('text-pipeline/' + kind, {'text': texts[i]}, tree, line)
                continue
            got = json.loads(line)
            mtoks = got.pop('toks')
            rtoks = ','.join('%s:%s' % ('OTHER' if t[0] in OTHER_TYPES else t[0], enc(t[1])) for t in toklists[i])
            if mtoks != rtoks or got != tree:
                ctx.disagree('text-pipeline/' + kind, {'text': texts[i]}, {'toks': rtoks, 'tree': tree},
                             {'toks': mtoks, 'tree': got})

    def check_sheets(self, ctx, texts, kind, nontrivial=None, cuts=False):
        """correspondence parseString vs model on texts; returns the real projections"""
        toklists = [tokenize(t) for t in texts]
        models = self.model_sheets(ctx, toklists)
        reals = []
        for idx, (text, toks, (tree, orc)) in enumerate(zip(texts, toklists, models)):
            real = parse_real(text)
            reals.append(real)
            nt = True if nontrivial is None else nontrivial[idx]
            ctx.case(key=('sheet', text), nontrivial=nt, kind='corr:' + kind,
                     sample={'text': text[:200], 'rules': len(real) if isinstance(real, list) else real})
            if tree is None:
                continue
            if isinstance(tree, str):
                ctx.disagree('parseString/' + kind, {'text': text}, strip_proj(real), tree)
                continue
            mp = proj_rules_model(tree['rules'], toks, orc)
            if strip_proj(mp) != strip_proj(real):
                ctx.disagree('parseString/' + kind, {'text': text}, strip_proj(real), strip_proj(mp))
        if cuts:
            self.check_cuts(ctx, texts, toklists, models, reals, kind)
            self.check_text_pipeline(ctx, texts, toklists, models, kind, ctx.n(12, 24))
        return reals

    # -- correspondence: _tokensupto2 directly ---------------------------------------------------------
    def corr_upto(self, ctx, rng):
        from cssutils.util import Base
        b = Base()
        lines, cases = [], []
        modes = sorted(MODES)
        for _ in range(ctx.n(1500, 40000)):
            text = G.gen_soup(rng)
            toks = tokenize(text, full=rng.random() < 0.5)
            if not in_domain(toks):
                continue
            m = rng.choice(modes)
            if rng.random() < 0.5 and toks:
                start, rest = toks[0], toks[1:]
            else:
                start, rest = None, toks
            lines.append('upto %s %s %s' % (m, enc_tok(start) if start else '-', enc_toks(rest)))
            cases.append((m, start, rest, text))
        out = ctx.driver(lines) if ctx.model_ok else [None] * len(lines)
        for (m, start, rest, text), mo in zip(cases, out):
            kw = {MODES[m]: True} if MODES[m] else {}
            got = b._tokensupto2(iter(rest), starttoken=start, **kw)
            n = len(got) - (1 if start else 0)
            ctx.case(key=('upto', m, start is not None, text), nontrivial=0 < n < len(rest), kind='upto:' + m)
            if mo is not None and mo != str(n):
                ctx.disagree('_tokensupto2', {'mode': m, 'start': start, 'text': text}, n, mo)

    # -- injection: correspondence + containment oracle -------------------------------------------------
    def corr_and_oracle_injection(self, ctx, rng, sheets):
        texts, meta = [], []
        per_sheet = ctx.n(6, 10)
        for sh in sheets:
            text, points = sh.render()
            texts.append(text)
            meta.append(('orig', sh, None))
            if not points:
                continue
            for _ in range(per_sheet):
                off, where = rng.choice(points)
                g = G.gen_garbage(rng, where)
                damaged = text[:off] + g.text + text[off:]
                texts.append(damaged)
                meta.append(('dmg', sh, (off, where, g, text)))
        nontriv = [m[0] == 'dmg' for m in meta]
        reals = self.check_sheets(ctx, texts, 'inject', nontriv)
        orig = None
        for (kind, sh, info), real in zip(meta, reals):
            if kind == 'orig':
                orig = real
                if isinstance(real, tuple):
                    ctx.violate('parseString of a well-formed sheet raised', {'text': sh.render()[0]}, real)
                continue
            off, where, g, text = info
            self.judge_injection(ctx, text, off, where, g, orig, real)

    def judge_injection(self, ctx, text, off, where, g, orig, real):
        damaged = text[:off] + g.text + text[off:]
        w = {'original': text, 'offset': off, 'where': where, 'garbage': g.text, 'garbage_invalid': g.invalid,
             'damaged': damaged}
        ctx.count('garbage:' + g.kind)
        if isinstance(real, tuple):
            ctx.violate('parsing the damaged sheet raised', w, real, known=self.region(w))
            return
        if isinstance(orig, tuple):
            return
        # is the garbage really not a valid construct (for the implementation)?  decided on the garbage alone
        # the namespaces the sheet declares are in effect for the garbage too
        prelude = ''.join(G.NS_STMT.findall(text)) if g.kind == 'stmt:selector-grammar' else ''
        residue = G.residue_of(g, where, parse_real, prelude)
        if residue is None:
            ctx.count('garbage-is-valid-construct')
            return
        if any(r[0] == 'style' for r in residue) and where == 'stmt':
            # a rule the implementation accepts, placed before the first rule of the sheet: it legitimately ends
            # the @import / @namespace section (and precedes the namespace declarations): no claim here
            ctx.count('valid-rule-before-body')
            return
        # the damaged sheet must be the original with `residue` (the construct itself: e.g. one unknown rule,
        # comments inside the garbage) inserted at one place
        if not G.equal_apart_from(strip_proj(real), strip_proj(orig), strip_proj(residue)):
            ctx.violate('DOM of the damaged sheet = DOM of the original apart from the damaged construct',
                        w, {'damaged_dom': strip_proj(real), 'original_dom': strip_proj(orig),
                            'construct_alone': strip_proj(residue)}, known=self.region(w))

    # -- truncation ---------------------------------------------------------------------------------------
    def corr_and_oracle_truncation(self, ctx, rng, sheets):
        n_sheets = ctx.n(25, 240)
        deep = [G.gen_deep_sheet(rng) for _ in range(ctx.n(2, 16))]
        for sh in sheets[:n_sheets] + deep:
            text, _ = sh.render()
            toks = tokenize(text)
            # cut at every token boundary (and a few inside tokens)
            offs = sorted(set(G.token_offsets(text, toks)) | {rng.randint(0, len(text)) for _ in range(4)})
            texts = [text[:o] for o in offs]
            nontriv = [o < len(text) for o in offs]
            reals = self.check_sheets(ctx, texts, 'truncate', nontriv, cuts=True)
            full = parse_real(text)
            for o, t, real in zip(offs, texts, reals):
                w = {'original': text, 'cut': o, 'truncated': t}
                if isinstance(real, tuple):
                    ctx.violate('parsing the truncated sheet raised', w, real, known=self.region(w))
                    continue
                if isinstance(full, tuple):
                    continue
                want = G.complete_before(sh, o)
                miss = G.missing_complete(strip_proj(real), strip_proj(full), want)
                if miss is not None:
                    ctx.violate('every rule and declaration complete before the truncation point is present, '
                                'unchanged', w, {'truncated_dom': strip_proj(real), 'problem': miss},
                                known=self.region(w))

    # -- one rule with an invalid selector is dropped and nothing else ---------------------------------------
    SEL_CONTEXTS = [('@namespace p "http://u/"; first{left:0} ', ' keep{top:0} @media print{m{right:0}}'),
                    ('first{left:0} @media print{ ', ' keep{top:0}} last{bottom:0}')]

    def oracle_selector_grammar(self, ctx, rng):
        """selectors put together from every ordered pair of the selector grammar's pieces in every context
        (top level, inside :not( ), [ ], a functional pseudo, with following tokens): the rule with that selector,
        placed between intact rules, must not change anything but itself (implementation only)"""
        cases = list(G.selector_cases())
        n = ctx.n(6000, len(cases))
        if n < len(cases):
            cases = rng.sample(cases, n)
        origs = [parse_real(a + b) for a, b in self.SEL_CONTEXTS]
        for sel in cases:
            k = rng.randrange(len(self.SEL_CONTEXTS))
            pre, post = self.SEL_CONTEXTS[k]
            rule = ' ' + sel + '{color:red} '
            damaged = pre + rule + post
            w = {'original': pre + post, 'offset': len(pre), 'where': 'stmt' if k == 0 else 'stmt-media',
                 'garbage': rule, 'garbage_invalid': False, 'damaged': damaged, 'selector': sel}
            real = parse_real(damaged)
            ctx.case(key=('selgrammar', k, sel), nontrivial=True, kind='oracle:selector-grammar',
                     sample={'selector': sel})
            if isinstance(real, tuple):
                ctx.violate('parsing the damaged sheet raised', w, real, known=self.region(w))
                continue
            g = G.Garbage(rule, 'stmt:selector-grammar')
            prelude = '@namespace p "http://u/";' if k == 0 else ''
            residue = G.residue_of(g, w['where'], parse_real, prelude)
            if residue is None:
                ctx.count('selector-grammar:not-a-rule')
                continue
            ctx.count('selector-grammar:%s' % ('kept' if residue else 'dropped'))
            if not G.equal_apart_from(strip_proj(real), strip_proj(origs[k]), strip_proj(residue)):
                ctx.violate('DOM of the damaged sheet = DOM of the original apart from the damaged construct',
                            w, {'damaged_dom': strip_proj(real), 'original_dom': strip_proj(origs[k]),
                                'construct_alone': strip_proj(residue)}, known=self.region(w))

    # -- malformed stream (correspondence only) -----------------------------------------------------------
    def corr_malformed(self, ctx, rng, sheets):
        texts = []
        for _ in range(ctx.n(500, 12000)):
            sh = rng.choice(sheets)
            texts.append(G.mutate(rng, sh.render()[0]))
        for _ in range(ctx.n(200, 5000)):
            texts.append(G.gen_soup(rng))
        self.check_sheets(ctx, texts, 'malformed')

    # -- declaration blocks -------------------------------------------------------------------------------
    def corr_decl_blocks(self, ctx, rng):
        texts = [G.gen_block(rng) for _ in range(ctx.n(600, 15000))]
        toklists = [tokenize(t, full=False) for t in texts]
        keep = [i for i, t in enumerate(toklists) if in_domain(t)]
        orcs = {i: Orc(toklists[i]) for i in keep}
        res = {}
        pending = list(keep) if ctx.model_ok else []
        for rnd in range(6):
            if not pending:
                break
            out = ctx.driver(['decls %s %s' % (enc_toks(toklists[i]), orcs[i].entries()) for i in pending])
            nxt = []
            for i, line in zip(pending, out):
                if not line.startswith('['):
                    res[i] = line
                    continue
                items = json.loads(line)
                missing = [q for q in item_queries(items) if q not in orcs[i].table]
                if missing:
                    for q in missing:
                        orcs[i].ask(q)
                    nxt.append(i)
                else:
                    res[i] = items
            pending = nxt
        for i in keep:
            real = decls_real(texts[i])
            ctx.case(key=('block', texts[i]), nontrivial=True, kind='corr:block',
                     sample={'block': texts[i][:160], 'items': real if isinstance(real, tuple) else len(real)})
            if i not in res:
                continue
            if isinstance(res[i], str):
                ctx.disagree('CSSStyleDeclaration.cssText', {'text': texts[i]}, strip_proj(real), res[i])
                continue
            mp = proj_items_model(res[i], toklists[i], orcs[i])
            if strip_proj(mp) != strip_proj(real):
                ctx.disagree('CSSStyleDeclaration.cssText', {'text': texts[i]}, strip_proj(real), strip_proj(mp))

    # -- unknown rules --------------------------------------------------------------------------------------
    def corr_unknown(self, ctx, rng):
        css = cu().css
        lines, cases = [], []
        for _ in range(ctx.n(600, 15000)):
            text = '@' + rng.choice(['x', 'foo', 'three-dee', 'top-left', 'charset', 'CHARSET', 'c\\harset',
                                     'charse\\t', '\\63harset', 'ch\\61rset']) + rng.choice(['', ' ']) \
                + G.gen_soup(rng, short=True)
            toks = tokenize(text, full=rng.random() < 0.5)
            if not in_domain(toks):
                continue
            lines.append('unknown %s' % enc_toks(toks))
            cases.append((text, toks))
        out = ctx.driver(lines) if ctx.model_ok else [None] * len(lines)
        for (text, toks), mo in zip(cases, out):
            try:
                r = css.CSSUnknownRule()
                r.cssText = list(toks)
                got = '1' if r.wellformed else '0'
            except Exception as e:
                got = 'RAISE %s' % type(e).__name__
            ctx.case(key=('unknown', text, len(toks)), nontrivial=True, kind='corr:unknown:' + got[:1])
            if mo is not None and mo != got:
                ctx.disagree('CSSUnknownRule.wellformed', {'text': text, 'tokens': toks}, got, mo)

    # -- known findings -------------------------------------------------------------------------------------
    def region(self, w):
        """id of the known finding whose region contains the witness, or None"""
        for k in ('damaged', 'truncated', 'original'):
            if k in w and G.escaped_delimiter_token(tokenize(w[k])) is not None:
                return 'C04-escaped-delimiter-ident'
        return None

    def known(self, ctx, finding):
        """replay the witness of a known finding on the implementation: does containment still fail?"""
        data = finding['witness']['data']
        real = parse_real(data['damaged'])
        orig = parse_real(data['original'])
        if isinstance(real, tuple) or isinstance(orig, tuple):
            return True
        return not G.equal_apart_from(strip_proj(real), strip_proj(orig), [])

    # -- replay ---------------------------------------------------------------------------------------------
    def replay(self, ctx, data):
        w = data.get('witness') or {}
        if 'damaged' in w and 'garbage' in w:
            g = G.Garbage(w['garbage'], 'stmt:selector-grammar' if 'selector' in w else 'replay',
                          w.get('garbage_invalid', False))
            reals = self.check_sheets(ctx, [w['original'], w['damaged']], 'replay')
            self.judge_injection(ctx, w['original'], w['offset'], w['where'], g, reals[0], reals[1])
        elif 'truncated' in w:
            reals = self.check_sheets(ctx, [w['original'], w['truncated']], 'replay', cuts=True)
            full, real = reals
            if isinstance(real, tuple):
                ctx.violate('parsing the truncated sheet raised', w, real)
            else:
                miss = G.missing_complete_text(strip_proj(real), w['original'], w['cut'], parse_real)
                if miss is not None:
                    ctx.violate(data.get('clause'), w, miss)
        else:
            texts = []
            for b in data.get('broken', []):
                inp = b.get('input') or {}
                if isinstance(inp, dict) and 'text' in inp:
                    texts.append(inp['text'])
            if texts:
                self.check_sheets(ctx, texts, 'replay', cuts=True)
            else:
                self.run(ctx)


CHECK = C04()
