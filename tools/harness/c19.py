"""C19 — URL enumeration/replacement exact; flattening @imports preserves meaning.

model: lean/CssVerif/Model/Urls.lean; theorems: lean/CssVerif/Props/C19.lean
correspondence (model vs implementation, canonical observables):
  * posixpath.split/join/normpath, urllib.parse.urlsplit/urlunsplit/urljoin/quote and cssutils.Replacer on generated
    URL/path strings (CPython is the resolving oracle of the property; the model's copy of it is tied here),
  * list(getUrls(sheet)), replaceUrls(sheet, f) result + call log of f, on generated sheets with url() in any
    property and nesting level,
  * parse-time loading of an import tree over a generated virtual file system (rule tree + fetcher call log),
    cssutils.resolveImports (resulting rule tree / exception class + fetcher call log).
oracle (implementation only, independent of the model):
  * getUrls = independent enumeration of the generated abstract sheet; replaceUrls = map, log = getUrls, identity no-op,
    nothing else touched, also through serialise+parse,
  * resolveImports / csscombine preserve the MEANING of the sheet: the cascade-ordered list of
    (media context, rule with every URL made absolute with urljoin) obtained by an independent expansion of the
    virtual file system is the same before and after flattening.
"""
import json
import logging
import os
import urllib.parse as up

from lib.framework import Check, enc, dec, time_limit
from harness import c19_sheets as S

ALPH = ['a', 'b', 'x.png', 'css', 'img', '..', '.', '/', '/', '/', '//', '?', '#', ';', ':', '%41', '%', ' ', 'é',
        '@', '+', '~', 'http:', '//h', 'h', '\t', '=', 'v', 'A', '-', '_', '&', '日', '\U0001F600', '\\', '"', "'",
        '(', ')', '\n', '\x00', '\x7f', 'file:', 'HTTP:', '1', ',', '!', '*', '$', '|', '<', '{']
BASES = ['http://h/base/main.css', 'http://h/main.css', 'http://h/a/b/', 'file:///a/b/c.css', 'http://h', '/x/y.css',
         'x/y.css', 'https://u:p@h:80/a/b.css?q#f', 'http://h/a;p/b;q', '//h/x/y', 'mailto:a@b', 'svn+ssh://s/r/t']


def impl():
    import cssutils
    cssutils.log.setLevel(logging.FATAL)
    return cssutils


def show_exc(e):
    return 'ERR ' + type(e).__name__


def call(f, *a):
    """run an implementation function: 'OK <words>' or 'ERR <class>' for the exception classes the model knows"""
    try:
        r = f(*a)
    except (ValueError, UnicodeError) as e:
        return show_exc(e)
    if isinstance(r, str):
        return 'OK ' + enc(r)
    return 'OK ' + ' '.join(enc(x) for x in r)


class C19(Check):
    id = 'C19'
    props_module = 'CssVerif.Props.C19'
    driver_exe = 'drv_c19'
    sources = ('cssutils/__init__.py', 'cssutils/script.py', 'cssutils/css/cssimportrule.py',
               'cssutils/css/cssstylesheet.py', 'cssutils/css/cssmediarule.py', 'cssutils/css/value.py')
    trusted_base = (
        'hand-written model lean/CssVerif/Model/Urls.lean of cssutils/__init__.py:183-415 (getUrls, replaceUrls, '
        'Replacer, resolveImports), CSSImportRule._setHref, CSSStyleSheet.add and CSSMediaRule.insertRule, tied to '
        'the code by the differential correspondence of this run',
        'CPython 3.12 posixpath.split/join/normpath and urllib.parse.urlsplit/urlunsplit/urlparse/urljoin/quote are '
        'transcribed into the same model and compared with CPython on generated strings each run; urljoin is the '
        'resolving oracle of the property',
        'the tokenizer/parser/serializer of cssutils map between CSS text and the abstract rule tree (properties '
        'C02/C03); here they are used to render generated sheets and to project results',
    )
    assumptions = (
        'cssutils.log.raiseExceptions is True (the default): a refused CSSMediaRule.add raises HierarchyRequestErr',
        'sheets have an href; fetchers answer from a fixed virtual file system (deterministic, no network)',
        'URL hosts are ASCII without brackets (urlsplit validates bracketed and non-ASCII hosts with ipaddress / '
        'unicodedata, which is not modelled); no @variables rules; namespace prefixes and URIs do not clash',
    )
    rule = ('strings: random concatenations over a 54-piece alphabet of path/URL fragments (dots, slashes, delimiters, '
            'escapes, non-ASCII, controls) x 12 base URLs; sheets: generated rule trees (style, @media, @page with '
            'margin boxes, @font-face, comments, unknown at-rules, @import in 2 spellings) whose declarations mix url() '
            '(relative with dot segments, query/fragment, %-escapes, absolute, scheme-relative, root-relative, data:, '
            'same-document, trailing-slash, reserved characters, spaces, non-ASCII) with other components and '
            'functions, rendered with varying quotes/spacing. non-trivial = distinct sheet with at least one URL / '
            'distinct string whose result differs from its input')

    # ------------------------------------------------------------------------------------------
    def run(self, ctx):
        cssutils = impl()
        try:
            self.corpus(ctx, cssutils)
            self.corr_strings(ctx, cssutils)
            self.corr_urls(ctx, cssutils)
        finally:
            cssutils.ser.prefs.useDefaults()

    # -- corpus ----------------------------------------------------------------------------------
    def corpus(self, ctx, cssutils):
        d = os.path.join(ctx.verif, 'tools', 'corpus', 'C19')
        if not os.path.isdir(d):
            return
        for fn in sorted(os.listdir(d)):
            if fn.endswith('.json'):
                data = json.load(open(os.path.join(d, fn)))
                self.replay_case(ctx, cssutils, data, corpus=fn)

    # -- correspondence: strings -------------------------------------------------------------------
    def gen_string(self, rng):
        return ''.join(rng.choice(ALPH) for _ in range(rng.randint(0, 7)))

    def string_ops(self, cssutils, s, t, b):
        """[(driver line, implementation answer)]"""
        return [
            ('normpath ' + enc(s), call(os.path.normpath, s)),
            ('psplit ' + enc(s), call(os.path.split, s)),
            ('pjoin %s %s %s' % (enc(s), enc(t), enc('f')), call(os.path.join, s, t, 'f')),
            ('urlsplit ' + enc(s), call(lambda x: tuple(up.urlsplit(x)), s)),
            ('quote ' + enc(s), call(lambda x: up.quote(x, safe='/%'), s)),
            ('urljoin %s %s' % (enc(b), enc(t)), call(up.urljoin, b, t)),
            ('replacer %s %s' % (enc(s), enc(t)), call(lambda x, y: cssutils.Replacer(x)(y), s, t)),
        ]

    def corr_strings(self, ctx, cssutils):
        rng = ctx.sub_rng('strings')
        lines, exp = [], []
        for i in range(ctx.n(6000, 120000)):
            s, t = self.gen_string(rng), self.gen_string(rng)
            if rng.random() < 0.3:
                s = S.gen_url(rng)[0]
            if rng.random() < 0.3:
                t = S.gen_url(rng, 0.3)[0]
            b = rng.choice(BASES) if rng.random() < 0.9 else s
            if '\x00' in s + t + b:
                continue        # os.path on embedded NUL: ValueError on some platforms; not a URL character
            for line, want in self.string_ops(cssutils, s, t, b):
                lines.append(line)
                exp.append(want)
        out = ctx.driver(lines) if ctx.model_ok else [None] * len(lines)
        for line, want, got in zip(lines, exp, out):
            op = line.split(' ', 1)[0]
            w = line.split(' ')
            ctx.case(key=line, nontrivial=(want != 'OK ' + w[-1]), kind='str:' + op,
                     sample={'op': op, 'args': [dec(x) for x in w[1:]], 'impl': want})
            if got is None or got == 'UNSUPPORTED':
                ctx.count('str:unsupported-by-model')
                continue
            if got.strip() != want.strip():
                ctx.disagree(op, {'args': [dec(x) for x in w[1:]]}, want, got)

    # -- correspondence + oracle: getUrls / replaceUrls --------------------------------------------
    def gen_flat_sheet(self, rng):
        head = []
        if rng.random() < .2:
            head.append(('C', 'utf-8'))
        for _ in range(rng.choice([0, 0, 1, 2])):
            if rng.random() < .2:
                head.append(('K', '/*k*/'))
            head.append(S.raw_import(S.gen_url(rng)[0] or 'q.css', rng.choice(['all', 'all', 'print', 'screen, print'])))
        return head + S.gen_sheet_body(rng, fn_url_p=0.3)

    def parse_flat(self, cssutils, text, href='http://h/base/main.css'):
        p = cssutils.CSSParser(fetcher=lambda u: None)
        with time_limit(20):
            return p.parseString(text, href=href)

    def corr_urls(self, ctx, cssutils):
        rng = ctx.sub_rng('urls')
        lines, exp, metas = [], [], []
        for i in range(ctx.n(1200, 25000)):
            sheet = self.gen_flat_sheet(rng)
            text = S.r_rules(sheet, rng)
            res = self.urls_case(ctx, cssutils, sheet, text, rng.random() < 0.3)
            if res:
                for line, want in res:
                    lines.append(line)
                    exp.append(want)
                    metas.append(text)
        out = ctx.driver(lines) if ctx.model_ok else [None] * len(lines)
        for line, want, got, text in zip(lines, exp, out, metas):
            if got is not None and got.strip() != want.strip():
                ctx.disagree(line.split(' ', 1)[0], {'css': text}, want, got)

    def urls_case(self, ctx, cssutils, sheet, text, ign):
        """oracle on the implementation; returns the driver lines with the implementation's answers"""
        s = self.parse_flat(cssutils, text)
        got = S.p_rules(s.cssRules, deep=False)
        if got != sheet:
            # the parser did not read the text as the sheet it was rendered from: C02's business, not comparable here
            ctx.count('urls:render-parse-mismatch')
            return None
        w = {'css': text}
        want_urls = all_urls(sheet)
        nested = want_urls != top_urls(sheet)
        urls = list(cssutils.getUrls(s))
        ctx.case(key=('urls', text), nontrivial=bool(want_urls), kind='urls:%s' % ('nested-fn' if nested else 'plain'),
                 sample={'css': text, 'getUrls': urls})
        res = [('geturls ' + S.wire_sheet(sheet), ('OK ' + ' '.join(enc(u) for u in urls)).strip()),
               ('allurls ' + S.wire_sheet(sheet), ('OK ' + ' '.join(enc(u) for u in want_urls)).strip())]
        if urls != want_urls:
            ctx.violate('getUrls yields every @import target and every url() value exactly once, imports first, '
                        'then in document order', w, {'getUrls': urls, 'expected': want_urls},
                        known='C19-url-in-function' if nested and urls == top_urls(sheet) else None)
        # identity replacer: nothing changes
        before_text = s.cssText
        cssutils.replaceUrls(s, lambda u: u)
        if s.cssText != before_text or S.p_rules(s.cssRules, deep=False) != sheet:
            ctx.violate('the identity replacer is a no-op', w, {'before': before_text, 'after': s.cssText})
        # logging replacer
        log = []

        def f(u):
            log.append(u)
            return 'X/' + u
        cssutils.replaceUrls(s, f, ignoreImportRules=ign)
        after = S.p_rules(s.cssRules, deep=False)
        after_urls = list(cssutils.getUrls(s))
        n_imp = len([r for r in sheet if r[0] == 'I'])
        exp_log = urls[n_imp:] if ign else urls
        exp_after = (urls[:n_imp] if ign else ['X/' + u for u in urls[:n_imp]]) + ['X/' + u for u in urls[n_imp:]]
        if log != exp_log:
            ctx.violate('replaceUrls calls the replacer exactly once with each URL getUrls yields, in that order',
                        dict(w, ignoreImportRules=ign), {'calls': log, 'getUrls': urls})
        if after_urls != exp_after:
            ctx.violate('getUrls after replaceUrls(f) = map f (getUrls before)', dict(w, ignoreImportRules=ign),
                        {'after': after_urls, 'expected': exp_after})
        if after != map_top_urls(sheet, lambda u: 'X/' + u, not ign):
            ctx.violate('replaceUrls touches nothing but the URLs', dict(w, ignoreImportRules=ign),
                        {'after': after})
        # the change is what gets serialised
        s2 = self.parse_flat(cssutils, s.cssText.decode('utf-8'))
        if list(cssutils.getUrls(s2)) != after_urls:
            ctx.violate('replaced URLs survive serialise + parse', dict(w, ignoreImportRules=ign),
                        {'reparsed': list(cssutils.getUrls(s2)), 'expected': after_urls})
        res.append(('replace pfx:%s %d %s' % (enc('X/'), ign, S.wire_sheet(sheet)),
                    'OK ' + S.wire_sheet(after) + ' | ' + ' '.join(enc(u) for u in log)))
        return res

    # ------------------------------------------------------------------------------------------
    def replay_case(self, ctx, cssutils, data, corpus=None):
        kind = data.get('case')
        if kind == 'urls':
            sheet = S.j_rules(data['sheet'])
            res = self.urls_case(ctx, cssutils, sheet, data.get('css') or S.r_rules(sheet), bool(data.get('ign')))
            self.check_lines(ctx, res, data)
        elif kind == 'string':
            res = self.string_ops(cssutils, data['s'], data['t'], data['b'])
            self.check_lines(ctx, res, data)

    def check_lines(self, ctx, res, data):
        if not res or not ctx.model_ok:
            return
        out = ctx.driver([l for l, _ in res])
        for (line, want), got in zip(res, out):
            if got.strip() != want.strip() and got != 'UNSUPPORTED':
                ctx.disagree(line.split(' ', 1)[0], data, want, got)

    def replay(self, ctx, data):
        cssutils = impl()
        try:
            w = data.get('witness') or {}
            if data.get('kind') == 'impl-violates' and 'css' in w and 'vfs' not in w:
                rng = ctx.sub_rng('replay')
                s = self.parse_flat(cssutils, w['css'])
                sheet = S.p_rules(s.cssRules, deep=False)
                self.urls_case(ctx, cssutils, sheet, w['css'], bool(w.get('ignoreImportRules')))
            else:
                self.run(ctx)
        finally:
            cssutils.ser.prefs.useDefaults()

    def known(self, ctx, finding):
        cssutils = impl()
        try:
            w = finding['witness']['data']
            if finding['id'] == 'C19-url-in-function':
                s = self.parse_flat(cssutils, w['css'])
                return list(cssutils.getUrls(s)) != w['expected']
            return True
        finally:
            cssutils.ser.prefs.useDefaults()


# ------------------------------------------------------------------------------------------------
# independent enumeration over the abstract sheet (the oracle's reading of the property)
def comp_urls(cs, deep):
    out = []
    for c in cs:
        if c[0] == 'u':
            out.append(c[1])
        elif c[0] == 'f' and deep:
            out += comp_urls(c[2], deep)
    return out


def style_urls(st, deep):
    out = []
    for _, val, _ in st:
        out += comp_urls(val, deep)
    return out


def body_urls(rules, deep):
    out = []
    for r in rules:
        if r[0] in 'S':
            out += style_urls(r[2], deep)
        elif r[0] == 'F':
            out += style_urls(r[1], deep)
        elif r[0] == 'M':
            out += body_urls(r[2], deep)
        elif r[0] == 'P':
            out += style_urls(r[2], deep)
            for _, st in r[3]:
                out += style_urls(st, deep)
    return out


def all_urls(sheet):
    return [r[1] for r in sheet if r[0] == 'I'] + body_urls(sheet, True)


def top_urls(sheet):
    return [r[1] for r in sheet if r[0] == 'I'] + body_urls(sheet, False)


def map_comps(cs, f, deep=False):
    return [('u', f(c[1])) if c[0] == 'u' else (('f', c[1], map_comps(c[2], f, deep)) if c[0] == 'f' and deep else c)
            for c in cs]


def map_style(st, f, deep=False):
    return [(n, map_comps(v, f, deep), p) for n, v, p in st]


def map_top_urls(rules, f, imports, deep=False):
    out = []
    for r in rules:
        k = r[0]
        if k == 'I' and imports:
            out.append(('I', f(r[1]), r[2], r[3], r[4], r[5]))
        elif k == 'S':
            out.append(('S', r[1], map_style(r[2], f, deep)))
        elif k == 'F':
            out.append(('F', map_style(r[1], f, deep)))
        elif k == 'M':
            out.append(('M', r[1], map_top_urls(r[2], f, False, deep)))
        elif k == 'P':
            out.append(('P', r[1], map_style(r[2], f, deep), [(n, map_style(st, f, deep)) for n, st in r[3]]))
        else:
            out.append(r)
    return out


CHECK = C19()
