"""C19 — URL enumeration/replacement exact; flattening @imports preserves meaning.

model: lean/CssVerif/Model/Urls.lean; theorems: lean/CssVerif/Props/C19.lean
correspondence (model vs implementation, canonical observables):
  * posixpath.split/join/normpath, urllib.parse.urlsplit/urlunsplit/urljoin/quote and cssutils.Replacer on generated
    URL/path strings (CPython is the resolving oracle of the property; the model's copy of it is tied here),
  * list(getUrls(sheet)), replaceUrls(sheet, f) result + call log of f, on generated sheets with url() in any
    property and nesting level,
  * parse-time loading of an import tree over a generated virtual file system (rule tree + fetcher call log),
    cssutils.resolveImports (resulting rule tree / exception class + fetcher call log), also on sheets whose @import
    rules were edited through the DOM after parsing (media re-targeted, MediaList edited in place, href assigned),
  * the SPECIFICATION of flattening with kept imports (`flatSpec`: groups in cascade order, kept @imports hoisted;
    proved equal to the transcription on every tree without @namespace rules) evaluated by the driver
    (`flatspec`, `flatspectree`) against the same implementation results.
oracle (implementation only, independent of the model):
  * getUrls = independent enumeration of the generated abstract sheet; replaceUrls = map, log = getUrls, identity no-op,
    nothing else touched, also through serialise+parse,
  * resolveImports / csscombine preserve the MEANING of the sheet: the cascade-ordered list of
    (media context, rule with every URL made absolute with urljoin) obtained by an independent expansion of the
    virtual file system is the same before and after flattening.
"""
import ast
import hashlib
import json
import logging
import os
import urllib.parse as up

from lib.framework import Check, enc, dec, time_limit
from harness import c19_sheets as S
from harness import c19_vfs as V

ALPH = ['a', 'b', 'x.png', 'css', 'img', '..', '.', '/', '/', '/', '//', '?', '#', ';', ':', '%41', '%', ' ', 'é',
        '@', '+', '~', 'http:', '//h', 'h', '\t', '=', 'v', 'A', '-', '_', '&', '日', '\U0001F600', '\\', '"', "'",
        '(', ')', '\n', '\x00', '\x7f', 'file:', 'HTTP:', '1', ',', '!', '*', '$', '|', '<', '{']
BASES = ['http://h/base/main.css', 'http://h/main.css', 'http://h/a/b/', 'file:///a/b/c.css', 'http://h', '/x/y.css',
         'x/y.css', 'https://u:p@h:80/a/b.css?q#f', 'http://h/a;p/b;q', '//h/x/y', 'mailto:a@b', 'svn+ssh://s/r/t']


def replacer_safe(repo):
    """the `safe=` literal of the urllib.parse.quote call in Replacer.__call__ (cssutils/__init__.py), read from the
    source without importing it"""
    path = os.path.join(repo, 'cssutils', '__init__.py')
    src = open(path, encoding='utf-8').read()
    tree = ast.parse(src)
    found = []
    for node in ast.walk(tree):
        if isinstance(node, ast.ClassDef) and node.name == 'Replacer':
            for fn in node.body:
                if isinstance(fn, ast.FunctionDef) and fn.name == '__call__':
                    for call in ast.walk(fn):
                        if isinstance(call, ast.Call) and isinstance(call.func, ast.Attribute) \
                                and call.func.attr == 'quote':
                            for kw in call.keywords:
                                if kw.arg == 'safe' and isinstance(kw.value, ast.Constant) \
                                        and isinstance(kw.value.value, str):
                                    found.append(kw.value.value)
    if len(found) != 1:
        raise RuntimeError('expected exactly one quote(..., safe=<literal>) in Replacer.__call__, found %r' % found)
    if any(ord(c) > 127 for c in found[0]):
        raise RuntimeError('non-ASCII character in the safe set: not supported by the model')
    return found[0], hashlib.sha256(src.encode('utf-8')).hexdigest()


def impl():
    import cssutils
    cssutils.log.setLevel(logging.FATAL)
    return cssutils


def show_exc(e):
    return 'ERR ' + type(e).__name__


def call(f, *a):
    """run an implementation function: 'OK <words>' or 'ERR <class>' for the exception classes the model knows"""
    try:
        r = f(*a)
    except (ValueError, UnicodeError) as e:
        return show_exc(e)
    if isinstance(r, str):
        return 'OK ' + enc(r)
    return 'OK ' + ' '.join(enc(x) for x in r)


class C19(Check):
    id = 'C19'
    props_module = 'CssVerif.Props.C19'
    driver_exe = 'drv_c19'
    sources = ('cssutils/__init__.py', 'cssutils/script.py', 'cssutils/css/cssimportrule.py',
               'cssutils/css/cssstylesheet.py', 'cssutils/css/cssmediarule.py', 'cssutils/css/value.py')
    trusted_base = (
        'hand-written model lean/CssVerif/Model/Urls.lean of cssutils/__init__.py:183-415 (getUrls, replaceUrls, '
        'Replacer, resolveImports), CSSImportRule._setHref, CSSStyleSheet.add and CSSMediaRule.insertRule, tied to '
        'the code by the differential correspondence of this run; the specification flatSpec (same file, Part 4) is '
        'tied to that model by theorem (resolveImports_is_flatSpec) and to the implementation by the flatspec stream',
        'CPython 3.12 posixpath.split/join/normpath and urllib.parse.urlsplit/urlunsplit/urlparse/urljoin/quote are '
        'transcribed into the same model and compared with CPython on generated strings each run; urljoin is the '
        'resolving oracle of the property',
        'the tokenizer/parser/serializer of cssutils map between CSS text and the abstract rule tree (properties '
        'C02/C03); here they are used to render generated sheets and to project results',
    )
    assumptions = (
        'the `safe` set of quote() in Replacer.__call__ is a literal (regenerated into Gen/C19Safe.lean each run)',
        'cssutils.log.raiseExceptions is True (the default): a refused CSSMediaRule.add raises HierarchyRequestErr',
        'sheets have an href; fetchers answer from a fixed virtual file system (deterministic, no network)',
        'URL hosts are ASCII without brackets (urlsplit validates bracketed and non-ASCII hosts with ipaddress / '
        'unicodedata, which is not modelled); no @variables rules; namespace prefixes and URIs do not clash',
    )
    rule = ('strings: random concatenations over a 54-piece alphabet of path/URL fragments (dots, slashes, delimiters, '
            'escapes, non-ASCII, controls) x 12 base URLs; sheets: generated rule trees (style, @media, @page with '
            'margin boxes, @font-face, comments, unknown at-rules, @import in 2 spellings) whose declarations mix url() '
            '(relative with dot segments, query/fragment, %-escapes, absolute, scheme-relative, root-relative, data:, '
            'same-document, trailing-slash, reserved characters, spaces, non-ASCII) with other components and '
            'functions, rendered with varying quotes/spacing. non-trivial = distinct sheet with at least one URL / '
            'distinct string whose result differs from its input')

    # ------------------------------------------------------------------------------------------
    def translate(self, ctx):
        safe, sha = replacer_safe(ctx.repo)
        body = ('/-! GENERATED by tools/harness/c19.py from cssutils/__init__.py (sha256 %s) — do not edit.\n'
                'The `safe` argument of `urllib.parse.quote` in `Replacer.__call__`. -/\n'
                'namespace CssVerif.Gen.C19\n\n'
                '/-- %s -/\n'
                'def replacerSafeChars : List Nat := [%s]\n\n'
                'end CssVerif.Gen.C19\n'
                % (sha, ' '.join('U+%04X' % ord(c) for c in safe), ', '.join('0x%02X' % ord(c) for c in safe)))
        return {'CssVerif/Gen/C19Safe.lean': body}

    def run(self, ctx):
        cssutils = impl()
        self.safe = replacer_safe(ctx.repo)[0]
        ctx.notes['replacer_safe'] = self.safe
        try:
            ctx.phase(self.corpus, ctx, cssutils)
            ctx.phase(self.corr_strings, ctx, cssutils)
            ctx.phase(self.corr_urls, ctx, cssutils)
            ctx.phase(self.flatten, ctx, cssutils)
        finally:
            cssutils.ser.prefs.useDefaults()

    # -- corpus ----------------------------------------------------------------------------------
    def corpus(self, ctx, cssutils):
        d = os.path.join(ctx.verif, 'tools', 'corpus', 'C19')
        if not os.path.isdir(d):
            return
        for fn in sorted(os.listdir(d)):
            if fn.endswith('.json'):
                data = json.load(open(os.path.join(d, fn)))
                self.replay_case(ctx, cssutils, data, corpus=fn)

    # -- correspondence: strings -------------------------------------------------------------------
    def gen_string(self, rng):
        return ''.join(rng.choice(ALPH) for _ in range(rng.randint(0, 7)))

    def string_ops(self, cssutils, s, t, b):
        """[(driver line, implementation answer)]"""
        return [
            ('normpath ' + enc(s), call(os.path.normpath, s)),
            ('psplit ' + enc(s), call(os.path.split, s)),
            ('pjoin %s %s %s' % (enc(s), enc(t), enc('f')), call(os.path.join, s, t, 'f')),
            ('urlsplit ' + enc(s), call(lambda x: tuple(up.urlsplit(x)), s)),
            ('quote ' + enc(s), call(lambda x: up.quote(x, safe=self.safe), s)),
            ('urljoin %s %s' % (enc(b), enc(t)), call(up.urljoin, b, t)),
            ('replacer %s %s' % (enc(s), enc(t)), call(lambda x, y: cssutils.Replacer(x)(y), s, t)),
        ]

    def corr_strings(self, ctx, cssutils):
        rng = ctx.sub_rng('strings')
        lines, exp = [], []
        for i in range(ctx.n(6000, 120000)):
            s, t = self.gen_string(rng), self.gen_string(rng)
            if rng.random() < 0.3:
                s = S.gen_url(rng)[0]
            if rng.random() < 0.3:
                t = S.gen_url(rng, 0.3)[0]
            b = rng.choice(BASES) if rng.random() < 0.9 else s
            if '\x00' in s + t + b:
                continue        # os.path on embedded NUL: ValueError on some platforms; not a URL character
            for line, want in self.string_ops(cssutils, s, t, b):
                lines.append(line)
                exp.append(want)
        out = ctx.driver(lines) if ctx.model_ok else [None] * len(lines)
        for line, want, got in zip(lines, exp, out):
            op = line.split(' ', 1)[0]
            w = line.split(' ')
            ctx.case(key=line, nontrivial=(want != 'OK ' + w[-1]), kind='str:' + op,
                     sample={'op': op, 'args': [dec(x) for x in w[1:]], 'impl': want})
            if got is None or got == 'UNSUPPORTED':
                ctx.count('str:unsupported-by-model')
                continue
            if got.strip() != want.strip():
                ctx.disagree(op, {'args': [dec(x) for x in w[1:]]}, want, got)

    # -- correspondence + oracle: getUrls / replaceUrls --------------------------------------------
    def gen_flat_sheet(self, rng):
        head = []
        if rng.random() < .2:
            head.append(('C', 'utf-8'))
        for _ in range(rng.choice([0, 0, 1, 2])):
            if rng.random() < .2:
                head.append(('K', '/*k*/'))
            head.append(S.raw_import(S.gen_url(rng)[0] or 'q.css', rng.choice(['all', 'all', 'print', 'screen, print'])))
        return head + S.gen_sheet_body(rng, fn_url_p=0.3)

    def parse_flat(self, cssutils, text, href='http://h/base/main.css'):
        p = cssutils.CSSParser(fetcher=lambda u: None)
        with time_limit(20):
            return p.parseString(text, href=href)

    def corr_urls(self, ctx, cssutils):
        rng = ctx.sub_rng('urls')
        lines, exp, metas = [], [], []
        for i in range(ctx.n(1200, 25000)):
            sheet = self.gen_flat_sheet(rng)
            text = S.r_rules(sheet, rng)
            res = self.urls_case(ctx, cssutils, sheet, text, rng.random() < 0.3)
            if res:
                for line, want in res:
                    lines.append(line)
                    exp.append(want)
                    metas.append(text)
        out = ctx.driver(lines) if ctx.model_ok else [None] * len(lines)
        for line, want, got, text in zip(lines, exp, out, metas):
            if got is not None and got.strip() != want.strip():
                ctx.disagree(line.split(' ', 1)[0], {'css': text}, want, got)

    def urls_case(self, ctx, cssutils, sheet, text, ign):
        """oracle on the implementation; returns the driver lines with the implementation's answers"""
        s = self.parse_flat(cssutils, text)
        got = S.p_rules(s.cssRules, deep=False)
        if got != sheet:
            # the parser did not read the text as the sheet it was rendered from: C02's business, not comparable here
            ctx.count('urls:render-parse-mismatch')
            return None
        w = {'css': text}
        want_urls = all_urls(sheet)
        nested = want_urls != top_urls(sheet)      # a url() inside a function argument
        urls = list(cssutils.getUrls(s))
        ctx.case(key=('urls', text), nontrivial=bool(want_urls), kind='urls:%s' % ('nested-fn' if nested else 'plain'),
                 sample={'css': text, 'getUrls': urls})
        res = [('geturls ' + S.wire_sheet(sheet), ('OK ' + ' '.join(enc(u) for u in urls)).strip()),
               ('allurls ' + S.wire_sheet(sheet), ('OK ' + ' '.join(enc(u) for u in want_urls)).strip())]
        if urls != want_urls:
            ctx.violate('getUrls yields every @import target and every url() value exactly once, imports first, '
                        'then in document order', w, {'getUrls': urls, 'expected': want_urls},
                        None)
        # identity replacer: nothing changes
        before_text = s.cssText
        cssutils.replaceUrls(s, lambda u: u)
        if s.cssText != before_text or S.p_rules(s.cssRules, deep=False) != sheet:
            ctx.violate('the identity replacer is a no-op', w, {'before': before_text, 'after': s.cssText})
        # logging replacer
        log = []

        def f(u):
            log.append(u)
            return 'X/' + u
        cssutils.replaceUrls(s, f, ignoreImportRules=ign)
        after = S.p_rules(s.cssRules, deep=False)
        after_urls = list(cssutils.getUrls(s))
        n_imp = len([r for r in sheet if r[0] == 'I'])
        exp_log = urls[n_imp:] if ign else urls
        exp_after = (urls[:n_imp] if ign else ['X/' + u for u in urls[:n_imp]]) + ['X/' + u for u in urls[n_imp:]]
        if log != exp_log:
            ctx.violate('replaceUrls calls the replacer exactly once with each URL getUrls yields, in that order',
                        dict(w, ignoreImportRules=ign), {'calls': log, 'getUrls': urls})
        if after_urls != exp_after:
            ctx.violate('getUrls after replaceUrls(f) = map f (getUrls before)', dict(w, ignoreImportRules=ign),
                        {'after': after_urls, 'expected': exp_after})
        if after != map_top_urls(sheet, lambda u: 'X/' + u, not ign, deep=True):
            ctx.violate('replaceUrls touches nothing but the URLs', dict(w, ignoreImportRules=ign),
                        {'after': after})
        # the change is what gets serialised
        s2 = self.parse_flat(cssutils, s.cssText.decode('utf-8'))
        if list(cssutils.getUrls(s2)) != after_urls:
            ctx.violate('replaced URLs survive serialise + parse', dict(w, ignoreImportRules=ign),
                        {'reparsed': list(cssutils.getUrls(s2)), 'expected': after_urls})
        res.append(('replace pfx:%s %d %s' % (enc('X/'), ign, S.wire_sheet(sheet)),
                    'OK ' + S.wire_sheet(after) + ' | ' + ' '.join(enc(u) for u in log)))
        # the CSSStyleDeclaration variant of replaceUrls, on the first style rule
        for i, r in enumerate(after):
            if r[0] == 'S' and r[2]:
                log2 = []

                def g(u):
                    log2.append(u)
                    return 'Y/' + u
                cssutils.replaceUrls(s.cssRules[i].style, g)
                got_st = S.p_style(s.cssRules[i].style)
                want_st = map_style(r[2], lambda u: 'Y/' + u, deep=True)
                if got_st != want_st or log2 != style_urls(r[2], True):
                    ctx.violate('replaceUrls(style, f) replaces exactly the URLs of that declaration block, once each, '
                                'in order', dict(w, rule=i), {'after': got_st, 'calls': log2})
                res.append(('replstyle pfx:%s %s' % (enc('Y/'), S.wire_style(r[2])),
                            'OK ' + S.wire_style(got_st) + ' | ' + ' '.join(enc(u) for u in log2)))
                break
        # a replacer that raises: the exception comes out, exactly when that URL is among the visited ones
        visited = list(cssutils.getUrls(s))
        if visited:
            bad = visited[len(visited) // 2]

            def h(u):
                if u == bad:
                    raise ValueError(u)
                return 'X' + u
            now = S.p_rules(s.cssRules, deep=False)
            try:
                cssutils.replaceUrls(s, h)
                got_h = 'OK'
            except ValueError:
                got_h = 'ERR ValueError'
            if got_h != 'ERR ValueError':
                ctx.violate('an exception raised by the replacer is not swallowed', w, {'url': bad})
            res.append(('replace fail:%s 0 %s' % (enc(bad), S.wire_sheet(now)), got_h))
        return res

    # -- correspondence + oracle: loading and flattening an import tree -----------------------------
    def flatten(self, ctx, cssutils):
        rng = ctx.sub_rng('flatten')
        lines, exp, metas = [], [], []
        for i in range(ctx.n(700, 14000)):
            r = rng.random()
            if r < 0.5:
                case = V.gen_case(rng, exotic=0.0, fn_url_p=0.0, features={'cycle': 0.0, 'otherhost': 0.0})
                stream = 'clean'
            elif r < 0.7:
                case = V.gen_case(rng, exotic=0.0, fn_url_p=0.0, features={'malformed': 0.04})
                stream = 'edges'
            elif r < 0.85:
                # sheets with three and more @imports that have to be kept (missing, or media + @page in the target)
                case = V.gen_case(rng, exotic=0.0, fn_url_p=0.0, features={'kept': 0.6, 'cycle': 0.0})
                stream = 'kept'
            else:
                case = V.gen_case(rng, exotic=0.15, fn_url_p=0.3)
                stream = 'exotic'
            for line, want in self.flatten_case(ctx, cssutils, case, rng, stream):
                lines.append(line)
                exp.append(want)
                metas.append(case)
        # histories: the sheet is parsed, @import rules are edited through the DOM, then it is flattened
        for i in range(ctx.n(160, 3200)):
            case = V.gen_case(rng, exotic=0.0, fn_url_p=0.0, features={'cycle': 0.0, 'all': 0.45,
                                                                      'kept': 0.15 if rng.random() < 0.3 else 0.0})
            edits = None
            for line, want in self.edited_case(ctx, cssutils, case, rng, edits):
                lines.append(line)
                exp.append(want)
                metas.append(case)
        # resolveImports(sheet, target) with a target that holds rules already
        for i in range(ctx.n(150, 3000)):
            case = V.gen_case(rng, exotic=0.0, fn_url_p=0.0, features={'cycle': 0.0,
                                                                      'kept': 0.5 if rng.random() < 0.5 else 0.0})
            for line, want in self.into_case(ctx, cssutils, case, rng):
                lines.append(line)
                exp.append(want)
                metas.append(case)
        out = ctx.driver(lines) if ctx.model_ok else [None] * len(lines)
        for line, want, got, case in zip(lines, exp, out, metas):
            if got is None or want is None:
                continue
            if got.startswith('UNSUPPORTED') or got.startswith('PARSE-UNSUPPORTED'):
                ctx.count('flatten:spec-has-no-value' if line.startswith('flatspec') else 'flatten:unsupported-by-model')
                continue
            if line.startswith('flatspec'):
                ctx.count('flatten:spec-has-a-value')
            if norm_ws(got) != norm_ws(want):
                ctx.disagree(line.split(' ', 1)[0], case_json(case), explain(want), explain(got))

    def run_impl(self, cssutils, case, texts, main_text):
        """parse the main sheet with a fetcher over the virtual file system; the default fetcher (used by sheets
        that have no fetcher of their own) is replaced by one over the same file system"""
        import cssutils.util
        log = []

        def fetch(url):
            log.append(('u', url))
            return (None, texts[url]) if url in texts else None

        def dfetch(url):
            log.append(('d', url))
            return (None, texts[url]) if url in texts else None
        old = cssutils.util._defaultFetcher
        cssutils.util._defaultFetcher = dfetch
        return log, fetch, old

    def flatten_case(self, ctx, cssutils, case, rng, stream, spell=True, combine=False):
        import cssutils.util
        import xml.dom
        main_text, texts = V.render_case(case, rng if spell else None)
        w = {'href': case['href'], 'css': main_text, 'vfs': texts}
        log, fetch, old = self.run_impl(cssutils, case, texts, main_text)
        res = []
        try:
            try:
                with time_limit(30):
                    parser = cssutils.CSSParser(fetcher=fetch)
                    sheet = parser.parseString(main_text, href=case['href'])
            except (RecursionError, xml.dom.DOMException, OSError, TypeError, AttributeError, KeyError,
                    IndexError) as e:
                ctx.case(key=('flatten', main_text, tuple(sorted(texts.items()))), kind='flatten:parse-raises')
                ctx.violate('loading the import tree ends and does not raise', w, {'exception': repr(e)[:300]})
                return []
            # the texts must denote the abstract sheets (C02's business otherwise)
            if S.shallow(S.p_rules(sheet.cssRules, deep=False)) != S.shallow(case['main']):
                ctx.count('flatten:render-parse-mismatch')
                return []
            loaded = S.p_rules(sheet.cssRules, deep=True)
            n_parse = len(log)
            head = 'parse %s %s %s' % (enc(case['href']), S.wire_vfs(case['vfs']), S.wire_sheet(case['main']))
            res.append((head, 'OK %s | %s' % (S.wire_sheet(loaded), show_log(log))))
            orig = V.meaning(case['main'], case['href'], case['vfs'])
            cyc = V.has_cycle(case)
            nontrivial = bool(case['vfs'])
            ctx.case(key=('flatten', main_text, tuple(sorted(texts.items()))), nontrivial=nontrivial,
                     kind='flatten:%s:%d-sheets' % (stream, min(len(case['vfs']), 6)),
                     sample={'href': case['href'], 'css': main_text, 'vfs': texts})
            # oracle: every available target fetched exactly once per import edge, by the parser's fetcher
            got_f = collections_counter(u for k, u in log)
            if got_f != orig.fetches or any(k != 'u' for k, u in log):
                extra = {u: (got_f[u], orig.fetches[u]) for u in set(got_f) | set(orig.fetches)
                         if got_f[u] != orig.fetches[u]}
                only_unavailable = all(u not in case['vfs'] and got_f[u] == 2 * orig.fetches[u] for u in extra)
                if not cyc:
                    ctx.violate('each @import target is fetched once per import edge',
                                w, {'fetched_vs_expected': extra},
                                known=None)     # (C19-unavailable-refetched: fixed by ca7960c)
            try:
                with time_limit(30):
                    result = cssutils.resolveImports(sheet)
                flat_rules = S.p_rules(result.cssRules, deep=True)
                got = 'OK ' + S.wire_sheet(mid(flat_rules))
                exc = None
            except (xml.dom.HierarchyRequestErr, ValueError, UnicodeError) as e:
                got = show_exc(e)
                exc = e
            except (RecursionError, xml.dom.DOMException, OSError, TypeError, AttributeError, KeyError,
                    IndexError) as e:
                ctx.violate('resolveImports returns the flattened sheet (it does not raise)', w,
                            {'exception': repr(e)[:300]})
                return res
            res.append(('resolve' + head[5:], '%s | %s | %s' % (got, show_log(log[n_parse:]), show_log(log[:n_parse]))))
            # the specification with kept imports (`flatSpec`: groups in cascade order, kept @imports hoisted) against
            # the implementation directly; it has no value (UNSUPPORTED) for trees with @namespace rules
            res.append(('flatspec' + head[5:], res[-1][1]))
            # oracle: flattening preserves meaning
            if exc is not None:
                ctx.count('flatten:raises:' + type(exc).__name__)
                ctx.violate('resolveImports returns the flattened sheet (it does not raise)', w,
                            {'exception': repr(exc)[:300]},
                            None)
            else:
                if any(k != 'u' for k, u in log[n_parse:]):
                    ctx.violate('every fetch goes through the fetcher the sheet was parsed with', w,
                                {'fetched_by_the_default_fetcher': [u for k, u in log[n_parse:] if k != 'u']})
                if log[n_parse:]:
                    ctx.violate('flattening fetches nothing: every target was fetched when the sheet was parsed',
                                w, {'fetched_during_resolveImports': log[n_parse:]},
                                known=None)     # (C19-unavailable-refetched: fixed by ca7960c)
                if not cyc:
                    flat = V.meaning(S.shallow(flat_rules), case['href'], case['vfs'])
                    left = V.unmerged_imports(orig, flat)
                    if left:
                        ctx.violate('an @import without media whose target is available is merged, not kept', w,
                                    {'kept': left})
                    ds = V.compare_meaning(orig, flat)
                    ctx.count('flatten:meaning-' + ('same' if not ds else 'differs'))
                    seen = set()
                    for kind, detail, expl in ds:
                        if (kind, expl) in seen:
                            continue
                        seen.add((kind, expl))
                        ctx.violate('the flattened sheet means what the sheet with its @imports meant: same rules in '
                                    'cascade order under the same media, every URL resolving to the same absolute URL '
                                    '(difference: %s)' % kind, w, detail, known=expl)
            # the script wrapper: parse (default fetcher), flatten, serialise with its own serializer
            if not cyc and main_text and (combine or rng.random() < 0.6):     # csscombine(cssText='') calls sys.exit
                self.combine_case(ctx, cssutils, case, main_text, texts, rng, w, exc, stream)
        finally:
            cssutils.util._defaultFetcher = old
        return res

    # -- resolveImports(sheet, target): a target that holds rules already ------------------------------
    def into_case(self, ctx, cssutils, case, rng):
        """`cssutils.resolveImports(sheet, target)` with a target parsed by the same parser (so it has the same
        fetcher) that holds 0-3 rules, sometimes a leading comment or an unavailable @import, at the sheet's own
        or at another location: result tree + fetcher calls = model `resolveRules` on that target = the groups of the
        specification added one by one (`run target`, theorem resolveRules_is_groups_added)."""
        import cssutils.util
        import xml.dom
        main_text, texts = V.render_case(case, rng)
        log, fetch, old = self.run_impl(cssutils, case, texts, main_text)
        res = []
        try:
            tg = []
            if rng.random() < 0.4:
                tg.append(('K', '/*t*/'))
            if rng.random() < 0.35:
                tg.append(S.raw_import('t-missing.css', rng.choice(['all', 'print'])))
            tg += S.gen_sheet_body(rng, n=rng.choice([0, 1, 1, 2, 3]), fn_url_p=0.0)
            th = case['href'] if rng.random() < 0.6 else rng.choice(['http://h/other/t.css', 'http://h/base/sub/t.css'])
            tg_text = S.r_rules(tg, rng)
            try:
                with time_limit(30):
                    parser = cssutils.CSSParser(fetcher=fetch)
                    sheet = parser.parseString(main_text, href=case['href'])
                    target = parser.parseString(tg_text, href=th)
            except (RecursionError, xml.dom.DOMException, OSError, TypeError, AttributeError, KeyError, IndexError):
                return []
            if (S.shallow(S.p_rules(sheet.cssRules, deep=False)) != S.shallow(case['main'])
                    or S.shallow(S.p_rules(target.cssRules, deep=False)) != S.shallow(tg)):
                ctx.count('into:render-parse-mismatch')
                return []
            tg_loaded = S.p_rules(target.cssRules, deep=True)
            n0 = len(log)
            ctx.case(key=('into', main_text, tg_text, th, tuple(sorted(texts.items()))), nontrivial=bool(tg),
                     kind='into:%s:%s' % ('same-href' if th == case['href'] else 'other-href',
                                          'import' if any(r[0] == 'I' for r in tg) else
                                          'comment-first' if tg and tg[0][0] == 'K' else 'plain' if tg else 'empty'),
                     sample={'href': case['href'], 'css': main_text, 'vfs': texts, 'target': tg_text, 'target_href': th})
            w = {'href': case['href'], 'css': main_text, 'vfs': texts, 'target': tg_text, 'target_href': th}
            try:
                with time_limit(30):
                    result = cssutils.resolveImports(sheet, target)
                if result is not target:
                    ctx.violate('resolveImports(sheet, target) returns the target it was given', w, {})
                got = 'OK ' + S.wire_sheet(mid(S.p_rules(result.cssRules, deep=True)))
            except (xml.dom.HierarchyRequestErr, ValueError, UnicodeError) as e:
                got = show_exc(e)
            except (RecursionError, xml.dom.DOMException, OSError, TypeError, AttributeError, KeyError,
                    IndexError) as e:
                ctx.violate('resolveImports returns the flattened sheet (it does not raise)', w,
                            {'exception': repr(e)[:300]})
                return res
            tail = '%s %s %s %s %s' % (enc(case['href']), enc(th), S.wire_vfs(case['vfs']), S.wire_sheet(case['main']),
                                       S.wire_sheet(mid(tg_loaded)))
            want = '%s | %s' % (got, show_log(log[n0:]))
            res.append(('resolveinto ' + tail, want))
            res.append(('flatspecinto ' + tail, want))
        finally:
            cssutils.util._defaultFetcher = old
        return res

    # -- histories: DOM edits of @import rules between parsing and flattening -----------------------
    def import_paths(self, cssutils, sheet, prefix=()):
        """paths (indices through cssRules / styleSheet.cssRules) of all @import rules of a loaded sheet"""
        out = []
        for i, r in enumerate(sheet.cssRules):
            if r.type == r.IMPORT_RULE:
                out.append(prefix + (i,))
                if r.styleSheet is not None and r.hrefFound:
                    out += self.import_paths(cssutils, r.styleSheet, prefix + (i,))
        return out

    def rule_at(self, sheet, path):
        r = None
        for i in path:
            r = sheet.cssRules[i]
            sheet = r.styleSheet
        return r

    def gen_edits(self, cssutils, sheet, rng):
        paths = self.import_paths(cssutils, sheet)
        edits = []
        if not paths:
            return edits
        for _ in range(rng.choice([1, 1, 2, 3])):
            path = rng.choice(paths)
            op = rng.choice(['media=', 'media=', 'medialist', 'mediatext', 'append', 'delete', 'href'])
            if op == 'href':
                r = self.rule_at(sheet, path)
                arg = rng.choice([r.href, r.href, 'gone-%d.css' % rng.randint(1, 9)])
            elif op == 'delete':
                arg = ''
            else:
                arg = rng.choice(S.MEDIA + ['all', 'all', 'print', 'screen'])
            edits.append([list(path), op, arg])
        return edits

    def apply_edits(self, cssutils, sheet, edits):
        """returns the edits that were carried out (an edit the DOM refuses is not part of the history)"""
        import xml.dom
        done = []
        for path, op, arg in edits:
            try:
                r = self.rule_at(sheet, path)
                if r is None or r.type != r.IMPORT_RULE:
                    continue
                if op == 'media=':
                    r.media = arg
                elif op == 'medialist':
                    r.media = cssutils.stylesheets.MediaList(mediaText=arg)
                elif op == 'mediatext':
                    r.media.mediaText = arg
                elif op == 'append':
                    r.media.appendMedium(arg)
                elif op == 'delete':
                    if r.media.length > 1:
                        r.media.deleteMedium(r.media.item(0))
                elif op == 'href':
                    r.href = arg
                done.append([path, op, arg])
            except (xml.dom.DOMException, IndexError, AttributeError):
                continue
        return done

    def edited_case(self, ctx, cssutils, case, rng, edits=None, spell=True):
        """parse, edit @import rules (media re-targeted by assignment / a new MediaList / in place; href assigned),
        flatten. The sheet's state after the edits (projected from the DOM) is what the flattening has to preserve,
        and what the model is given."""
        import cssutils.util
        import xml.dom
        main_text, texts = V.render_case(case, rng if spell else None)
        log, fetch, old = self.run_impl(cssutils, case, texts, main_text)
        res = []
        try:
            with time_limit(30):
                sheet = cssutils.CSSParser(fetcher=fetch).parseString(main_text, href=case['href'])
            if S.shallow(S.p_rules(sheet.cssRules, deep=False)) != S.shallow(case['main']):
                ctx.count('edited:render-parse-mismatch')
                return []
            if edits is None:
                edits = self.gen_edits(cssutils, sheet, rng)
            edits = self.apply_edits(cssutils, sheet, edits)
            w = {'href': case['href'], 'css': main_text, 'vfs': texts, 'edits': edits}
            tree = S.p_rules(sheet.cssRules, deep=True)
            n0 = len(log)
            ctx.case(key=('edited', main_text, tuple(sorted(texts.items())), json.dumps(edits)), nontrivial=bool(edits),
                     kind='edited:%s' % ('+'.join(sorted(set(e[1] for e in edits))) or 'none'),
                     sample={'href': case['href'], 'css': main_text, 'vfs': texts, 'edits': edits})
            orig = V.meaning(tree, case['href'], case['vfs'], embedded=True)
            try:
                with time_limit(30):
                    result = cssutils.resolveImports(sheet)
                flat_rules = S.p_rules(result.cssRules, deep=True)
                got = 'OK ' + S.wire_sheet(mid(flat_rules))
            except (xml.dom.HierarchyRequestErr, ValueError, UnicodeError, RecursionError, xml.dom.DOMException, OSError,
                    TypeError, AttributeError, KeyError, IndexError) as e:
                ctx.violate('resolveImports returns the flattened sheet (it does not raise)', w,
                            {'exception': repr(e)[:300]})
                return res
            res.append(('resolvetree %s %s %s' % (enc(case['href']), S.wire_vfs(case['vfs']), S.wire_sheet(tree)),
                        '%s | %s' % (got, show_log(log[n0:]))))
            res.append(('flatspectree' + res[-1][0][len('resolvetree'):], res[-1][1]))
            if any(k != 'u' for k, u in log[n0:]):
                ctx.violate('every fetch goes through the fetcher the sheet was parsed with', w,
                            {'fetched_by_the_default_fetcher': [u for k, u in log[n0:] if k != 'u']})
            if V.has_cycle(case):
                return res
            flat = V.meaning(S.shallow(flat_rules), case['href'], case['vfs'])
            if any(len(e[0]) > 1 for e in edits) and any(av for _, av in flat.top_imports):
                # an @import that is kept stands for the FILE it names: edits made in its loaded sheet cannot show in
                # the flattened sheet. Such histories are compared with the model only.
                ctx.count('edited:nested-edit-under-kept-import')
                return res
            seen = set()
            for kind, detail, expl in V.compare_meaning(orig, flat):
                if (kind, expl) in seen:
                    continue
                seen.add((kind, expl))
                ctx.violate('after DOM edits of its @import rules the flattened sheet means what the edited sheet '
                            'meant: each group under the media its @import has NOW (difference: %s)' % kind,
                            w, detail, known=expl)
        finally:
            cssutils.util._defaultFetcher = old
        return res

    def combine_case(self, ctx, cssutils, case, main_text, texts, rng, w, exc, stream):
        import cssutils.script
        import xml.dom
        minify = rng.random() < 0.5
        tenc = rng.choice([None, None, 'utf-8', 'ascii', 'iso-8859-1']) if stream == 'exotic' else None
        w = dict(w, call='csscombine', minify=minify, targetencoding=tenc)
        ctx.case(key=('combine', main_text, tuple(sorted(texts.items())), minify, tenc), nontrivial=bool(case['vfs']),
                 kind='combine:%s' % ('minified' if minify else 'normal'))
        prefs_before = dict(cssutils.ser.prefs.__dict__)
        ser_before = cssutils.ser
        try:
            with time_limit(30):
                out = cssutils.script.csscombine(cssText=main_text, href=case['href'], minify=minify,
                                                 targetencoding=tenc)
        except (xml.dom.HierarchyRequestErr, ValueError, UnicodeError) as e:
            if exc is None or type(e) is not type(exc):
                ctx.violate('csscombine = serialised resolveImports', w, {'csscombine': repr(e)[:200],
                                                                         'resolveImports': repr(exc)[:200]})
            # csscombine has no try/finally around its private serializer, but it only swaps it after flattening
            return
        if exc is not None:
            ctx.violate('csscombine = serialised resolveImports', w, {'csscombine': 'returned',
                                                                     'resolveImports': repr(exc)[:200]})
            return
        if cssutils.ser is not ser_before or dict(cssutils.ser.prefs.__dict__) != prefs_before:
            ctx.violate('csscombine leaves the global serializer as it was', w, None)
        try:
            text = out.decode(tenc or 'utf-8')
        except UnicodeError as e:
            ctx.violate('csscombine output is encoded in the target encoding', w, {'error': repr(e)})
            return
        back = cssutils.CSSParser(fetcher=lambda u: None).parseString(text, href=case['href'])
        flat = V.meaning(S.shallow(S.p_rules(back.cssRules, deep=False)), case['href'], case['vfs'], drop_empty=True,
                         minified=minify)
        orig = V.meaning(case['main'], case['href'], case['vfs'], drop_empty=True, minified=minify)
        left = V.unmerged_imports(orig, flat)
        if left:
            ctx.violate('csscombine merges an @import without media whose target is available', dict(w, output=text),
                        {'kept': left})
        seen = set()
        for kind, detail, expl in V.compare_meaning(orig, flat):
            if (kind, expl) in seen:
                continue
            seen.add((kind, expl))
            ctx.violate('the text csscombine returns means what the sheet with its @imports meant '
                        '(difference: %s)' % kind, dict(w, output=text), detail, known=expl)

    # ------------------------------------------------------------------------------------------
    def replay_case(self, ctx, cssutils, data, corpus=None):
        kind = data.get('case')
        if kind == 'urls':
            sheet = S.j_rules(data['sheet'])
            res = self.urls_case(ctx, cssutils, sheet, data.get('css') or S.r_rules(sheet), bool(data.get('ign')))
            self.check_lines(ctx, res, data)
        elif kind == 'string':
            res = self.string_ops(cssutils, data['s'], data['t'], data['b'])
            self.check_lines(ctx, res, data)
        elif kind == 'edited':
            case = {'href': data['href'], 'main': S.j_rules(data['main']),
                    'vfs': {u: S.j_rules(r) for u, r in data['vfs'].items()}}
            res = self.edited_case(ctx, cssutils, case, ctx.sub_rng('corpus'), edits=data['edits'], spell=False)
            self.check_lines(ctx, res, data)
        elif kind == 'flatten':
            case = {'href': data['href'], 'main': S.j_rules(data['main']),
                    'vfs': {u: S.j_rules(r) for u, r in data['vfs'].items()}}
            res = self.flatten_case(ctx, cssutils, case, ctx.sub_rng('corpus'), 'corpus', spell=False)
            self.check_lines(ctx, res, data)

    def replay_texts(self, ctx, cssutils, w):
        """a flatten witness is the CSS texts: read them back into the abstract form and run the case again"""
        def absr(text, href):
            sh = cssutils.CSSParser(fetcher=lambda u: None).parseString(text, href=href)
            return S.shallow(S.p_rules(sh.cssRules, deep=False))
        case = {'href': w['href'], 'main': absr(w['css'], w['href']),
                'vfs': {u: absr(t, u) for u, t in w['vfs'].items()}}
        if w.get('edits') is not None:
            res = self.edited_case(ctx, cssutils, case, ctx.sub_rng('replay'), edits=w['edits'], spell=False)
            self.check_lines(ctx, res, {'case': 'edited', 'href': w['href']})
            return
        res = self.flatten_case(ctx, cssutils, case, ctx.sub_rng('replay'), 'replay', spell=False, combine=True)
        if w.get('call') == 'csscombine':
            # both modes of the script wrapper
            self.flatten_case(ctx, cssutils, case, ctx.sub_rng('replay2'), 'replay', spell=False, combine=True)
        self.check_lines(ctx, res, {'case': 'flatten', 'href': w['href']})

    def check_lines(self, ctx, res, data):
        if not res or not ctx.model_ok:
            return
        out = ctx.driver([l for l, _ in res])
        for (line, want), got in zip(res, out):
            if norm_ws(got) != norm_ws(want) and not got.startswith('UNSUPPORTED') and not got.startswith('PARSE-UNS'):
                ctx.disagree(line.split(' ', 1)[0], data, want, got)

    def replay(self, ctx, data):
        cssutils = impl()
        try:
            w = data.get('witness') or {}
            if data.get('kind') == 'impl-violates' and 'vfs' in w:
                self.replay_texts(ctx, cssutils, w)
            elif data.get('kind') == 'impl-violates' and 'css' in w and 'vfs' not in w:
                rng = ctx.sub_rng('replay')
                s = self.parse_flat(cssutils, w['css'])
                sheet = S.p_rules(s.cssRules, deep=False)
                self.urls_case(ctx, cssutils, sheet, w['css'], bool(w.get('ignoreImportRules')))
            else:
                self.run(ctx)
        finally:
            cssutils.ser.prefs.useDefaults()

    def known(self, ctx, finding):
        """replay the witness of a known finding: does the implementation still break the property there,
        in the way the finding says?"""
        cssutils = impl()
        try:
            w = finding['witness']['data']
            case = {'href': w['href'], 'main': S.j_rules(w['main']),
                    'vfs': {u: S.j_rules(r) for u, r in w['vfs'].items()}}
            probe = Probe(ctx)
            self.flatten_case(probe, cssutils, case, ctx.sub_rng('known'), 'known', spell=False)
            for v in probe.unexplained:
                # the witness now fails in another way than listed: that is a violation, not this finding
                ctx.violate(*v)
            return finding['id'] in probe.hits
        finally:
            cssutils.ser.prefs.useDefaults()


class Probe:
    """stands in for the run context while a single witness is replayed: records what the oracle reports"""
    def __init__(self, ctx):
        self.ctx = ctx
        self.hits = set()
        self.unexplained = []
        self.model_ok = False

    def case(self, *a, **k):
        pass

    def count(self, *a, **k):
        pass

    def disagree(self, *a, **k):
        pass

    def violate(self, clause, witness, detail=None, known=None):
        if known:
            self.hits.add(known)
        else:
            self.unexplained.append((clause, witness, detail))


def collections_counter(it):
    import collections
    return collections.Counter(it)


def show_log(log):
    return ' '.join('%s:%s' % (k, enc(u)) for k, u in log)


def norm_ws(s):
    return ' '.join(s.split())


def mid(rules):
    """imports with hrefFound and styleSheet.href but without the imported rules (those are shared, mutated objects)"""
    out = []
    for r in rules:
        if r[0] == 'I':
            out.append(('I', r[1], r[2], r[3], r[4], []))
        elif r[0] == 'M':
            out.append(('M', r[1], mid(r[2])))
        else:
            out.append(r)
    return out


def case_json(case):
    return {'case': 'flatten', 'href': case['href'], 'main': case['main'], 'vfs': case['vfs']}


def explain(line):
    """driver/implementation answer with the hex strings decoded, for reading a disagreement"""
    out = []
    for w in line.split(' '):
        if w and all(c in '0123456789ABCDEF.' for c in w) and w not in ('C', 'F', 'D'):
            try:
                out.append(repr(dec(w)))
                continue
            except ValueError:
                pass
        if w[:2] in ('u:', 'd:') and len(w) > 2:
            out.append(w[:2] + repr(dec(w[2:])))
        else:
            out.append(w)
    return ' '.join(out)


# ------------------------------------------------------------------------------------------------
# independent enumeration over the abstract sheet (the oracle's reading of the property)
def comp_urls(cs, deep):
    out = []
    for c in cs:
        if c[0] == 'u':
            out.append(c[1])
        elif c[0] == 'f' and deep:
            out += comp_urls(c[2], deep)
    return out


def style_urls(st, deep):
    out = []
    for _, val, _ in st:
        out += comp_urls(val, deep)
    return out


def body_urls(rules, deep):
    out = []
    for r in rules:
        if r[0] in 'S':
            out += style_urls(r[2], deep)
        elif r[0] == 'F':
            out += style_urls(r[1], deep)
        elif r[0] == 'M':
            out += body_urls(r[2], deep)
        elif r[0] == 'P':
            out += style_urls(r[2], deep)
            for _, st in r[3]:
                out += style_urls(st, deep)
    return out


def all_urls(sheet):
    return [r[1] for r in sheet if r[0] == 'I'] + body_urls(sheet, True)


def top_urls(sheet):
    return [r[1] for r in sheet if r[0] == 'I'] + body_urls(sheet, False)


def map_comps(cs, f, deep=False):
    return [('u', f(c[1])) if c[0] == 'u' else (('f', c[1], map_comps(c[2], f, deep)) if c[0] == 'f' and deep else c)
            for c in cs]


def map_style(st, f, deep=False):
    return [(n, map_comps(v, f, deep), p) for n, v, p in st]


def map_top_urls(rules, f, imports, deep=False):
    out = []
    for r in rules:
        k = r[0]
        if k == 'I' and imports:
            out.append(('I', f(r[1]), r[2], r[3], r[4], r[5]))
        elif k == 'S':
            out.append(('S', r[1], map_style(r[2], f, deep)))
        elif k == 'F':
            out.append(('F', map_style(r[1], f, deep)))
        elif k == 'M':
            out.append(('M', r[1], map_top_urls(r[2], f, False, deep)))
        elif k == 'P':
            out.append(('P', r[1], map_style(r[2], f, deep), [(n, map_style(st, f, deep)) for n, st in r[3]]))
        else:
            out.append(r)
    return out


CHECK = C19()
