"""C06 oracle, independent of the Lean model: checks the property directly on the implementation.

* `nontoks(text)`      non-whitespace token sequence (cssutils' own tokenizer, S dropped)
* `canon(sheet)`       reparse-level projection of a DOM (DOM API; leaf texts under the *leaf* preferences of p)
* `effect(proj, p)`    the documented effect of the structural preferences as a transformation of that projection
"""
import re

import cssutils
from cssutils import css
from cssutils.helper import normalize
from cssutils.tokenize2 import Tokenizer

LAYOUT = ('indent', 'indentClosingBrace', 'lineSeparator', 'listItemSpacer', 'paranthesisSpacer', 'propertyNameSpacer',
          'selectorCombinatorSpacer', 'spacer')
# preferences that act below the declaration level (inside values / selectors / names): the projection is taken
# with these set as in p, all others at their defaults (and keepUnknownAtRules on)
LEAF = ('keepComments', 'resolveVariables', 'normalizedVarNames')
LEAF_FIXED = {'minimizeColorHash': False, 'omitLeadingZero': False}


def nontoks(text):
    return [(t[0], t[1]) for t in Tokenizer().tokenize(text, fullsheet=True) if t[0] != 'S']


_TOK = Tokenizer()


def lt(text):
    """a leaf text (selector, media list, value, unknown rule) at reparse level: its non-whitespace tokens"""
    if text is None:
        return None
    return tuple((t[0], t[1]) for t in _TOK.tokenize(text) if t[0] not in ('S', 'EOF'))


def seqtoks(rule):
    """the items of an unknown at-rule as the parser stored them (type, value), white space and comments left out,
    nested unknown rules flattened — NOT read through the serializer, so that two items which the serializer writes
    as one token (`~` `=` -> `~=`) show at reparse level"""
    out = [('ATKEYWORD', rule.atkeyword)]
    for item in rule.seq:
        v = item.value
        if item.type in ('S', 'COMMENT') or isinstance(v, css.CSSComment):
            continue
        if isinstance(v, css.CSSUnknownRule):
            out.extend(seqtoks(v))
        else:
            out.append((str(item.type), v if isinstance(v, str) else repr(v)))
    return tuple(out)


def unknown_leaf(rule):
    return (lt(rule.cssText), seqtoks(rule))


# ---------------------------------------------------------------------------------------------------------
def decls(style):
    out = []
    for item in style.seq:
        v = item.value
        if isinstance(v, css.CSSComment):
            out.append(('comment', v._cssText or ''))
        elif isinstance(v, css.Property):
            if v.wellformed and v.seqs[0]:
                out.append(('prop', v.name, lt(v.propertyValue.cssText), v.priority, bool(v.valid), v.literalname,
                            v.literalpriority))
        elif isinstance(v, css.CSSUnknownRule):
            out.append(('unknown', unknown_leaf(v), v.wellformed))
        else:
            out.append(('other', v))
    return out


def canon_rule(r):
    if isinstance(r, css.CSSComment):
        return ('comment', r._cssText or '')
    if isinstance(r, css.CSSCharsetRule):
        return ('charset', r.encoding) if r.wellformed else None
    if isinstance(r, css.CSSImportRule):
        return ('import', r.href, lt(r.media.mediaText), r.name, r.hreftype, getattr(r, '_keyword', None)) \
            if r.wellformed else None
    if isinstance(r, css.CSSNamespaceRule):
        return ('namespace', r.prefix, r.namespaceURI, getattr(r, '_keyword', None)) if r.wellformed else None
    if isinstance(r, css.CSSMediaRule):
        if not r.media.wellformed:
            return None
        return ('media', lt(r.media.mediaText), r.name, [x for x in (canon_rule(c) for c in r.cssRules) if x is not None])
    if isinstance(r, css.CSSPageRule):
        if not r.wellformed:
            return None
        return ('page', lt(r.selectorText), decls(r.style), [x for x in (canon_rule(c) for c in r.cssRules) if x is not None])
    if isinstance(r, css.MarginRule):
        return ('margin', r.margin, decls(r.style)) if r.wellformed else None
    if isinstance(r, css.CSSFontFaceRule):
        return ('fontface', decls(r.style)) if r.wellformed else None
    if isinstance(r, css.CSSStyleRule):
        if not r.wellformed or not r.selectorList.wellformed or not r.selectorText:
            return None
        return ('style', lt(r.selectorText), decls(r.style))
    if isinstance(r, css.CSSUnknownRule):
        return ('unknown', unknown_leaf(r), r.wellformed) if r.wellformed else None
    if isinstance(r, css.CSSVariablesRule):
        if not r.wellformed:
            return None
        vs = []
        for item in r.variables.seq:
            if item.type == 'var':
                vt = lt(item.value[1].cssText)
                if not vt:
                    # a variable without a value cannot be written and read back (the block `a:;` is C10's /
                    # C03's subject): such a rule is left out of the comparison on both sides
                    return None
                vs.append(('var', item.value[0], vt))
            elif isinstance(item.value, css.CSSComment):
                vs.append(('comment', item.value._cssText or ''))
        return ('variables', vs) if any(v[0] == 'var' for v in vs) else None
    return ('other', type(r).__name__)


def used_uris(sheet):
    """namespace URIs referenced by the selectors of any style rule of the sheet (at any nesting depth) — read off
    the (namespaceURI, name) pairs the parser stored"""
    used = set()

    def walk(rules):
        for r in rules:
            if isinstance(r, css.CSSStyleRule):
                for s in r.selectorList:
                    for item in s.seq:
                        v = item.value
                        if isinstance(v, tuple) and v[0] is not None and v[0] != cssutils._ANYNS:
                            used.add(v[0])
            elif isinstance(r, css.CSSMediaRule):
                walk(r.cssRules)
    walk(sheet.cssRules)
    return used


def canon(sheet):
    """call with the LEAF preferences of p set on cssutils.ser.prefs"""
    return [x for x in (canon_rule(r) for r in sheet.cssRules) if x is not None]


# ---------------------------------------------------------------------------------------------------------
def effective(ds):
    """documented `keepAllProperties=False`: of the declarations with the same (normalised) name only the one that
    wins the cascade inside the block stays: the last `!important` one, else the last one"""
    win = {}
    for i, d in enumerate(ds):
        if d[0] == 'prop':
            name, prio = d[1], d[3]
            cur = win.get(name)
            if cur is None or prio or not ds[cur][3]:
                win[name] = i
    return [d for i, d in enumerate(ds) if d[0] != 'prop' or win.get(d[1]) == i]


_LEADING_ZERO = re.compile(r'^([+-]?)0+(\.[0-9]+)(.*)$', re.S)


def leaf_effect(toks, p):
    """documented effect of the preferences that act on single tokens of a value, on the token tuple of the value
    as written WITHOUT them: `minimizeColorHash` (#aabbcc -> #abc). `omitLeadingZero` (0.5px -> .5px) does not
    show at reparse level — `.5px` is read back as the number 0.5 — so the projection (taken with omitLeadingZero off
    on both sides) only sees it when the number itself changes."""
    if toks is None:
        return None
    out = []
    for t, v in toks:
        if t == 'HASH' and p['minimizeColorHash'] and len(v) == 7 and v[1] == v[2] and v[3] == v[4] and v[5] == v[6]:
            v = '#' + v[1] + v[3] + v[5]
        out.append((t, v))
    return tuple(out)


def eff_decls(ds, p):
    out = []
    if not p['keepAllProperties']:
        ds = effective(ds)
    for d in ds:
        if d[0] == 'comment':
            if p['keepComments'] and d[1]:
                out.append(d)
        elif d[0] == 'prop':
            if p['validOnly'] and not d[4]:
                continue
            out.append(('prop', d[1], leaf_effect(d[2], p), d[3],
                        d[1] if (p['defaultPropertyName'] and not p['keepAllProperties']) else d[5],
                        d[3] if p['defaultPropertyPriority'] else d[6]))
        elif d[0] == 'unknown':
            if p['keepUnknownAtRules']:
                out.append(d[:2])
        else:
            out.append(d)
    return out


def eff_rule(r, p, used):
    k = r[0]
    if k == 'comment':
        return r if p['keepComments'] and r[1] else None
    if k == 'unknown':
        return r[:2] if p['keepUnknownAtRules'] else None
    if k == 'namespace':
        if p['keepUsedNamespaceRulesOnly'] and r[2] not in used:
            return None
        return ('namespace', r[1], r[2], '@namespace' if p['defaultAtKeyword'] else r[3])
    if k == 'import':
        ht = {'string': 'string', 'uri': 'uri'}.get(p['importHrefFormat'], r[4])
        return ('import', r[1], r[2], r[3], ht, '@import' if p['defaultAtKeyword'] else r[5])
    if k == 'variables':
        if p['resolveVariables']:
            return None
        vs = [(v[0], normalize(v[1]) if p['normalizedVarNames'] else v[1], leaf_effect(v[2], p)) if v[0] == 'var' else v
              for v in r[1] if v[0] == 'var' or (p['keepComments'] and v[1])]
        return ('variables', vs) if any(v[0] == 'var' for v in vs) else None
    if k == 'style':
        ds = eff_decls(r[2], p)
        if not ds and not p['keepEmptyRules']:
            return None
        return ('style', r[1], ds)
    if k == 'media':
        rs = [x for x in (eff_rule(c, p, used) for c in r[3]) if x is not None]
        if not rs and not p['keepEmptyRules']:
            return None
        return ('media', r[1], r[2], rs)
    # rules that are never written without content, whatever keepEmptyRules says (see docs/C06.md)
    if k == 'page':
        ds = eff_decls(r[2], p)
        rs = [x for x in (eff_rule(c, p, used) for c in r[3]) if x is not None]
        return ('page', r[1], ds, rs) if ds or rs else None
    if k == 'margin':
        ds = eff_decls(r[2], p)
        return ('margin', r[1], ds) if ds else None
    if k == 'fontface':
        ds = eff_decls(r[1], p)
        return ('fontface', ds) if ds else None
    return r


def effect(proj, p, used):
    return [x for x in (eff_rule(r, p, used) for r in proj) if x is not None]


def strip_flags(proj):
    """projection of a reparsed sheet -> same shape as the output of `effect`"""
    def ds(l):
        return [(d[:4] + d[5:7]) if d[0] == 'prop' else (d[:2] if d[0] == 'unknown' else d) for d in l]

    def rule(r):
        k = r[0]
        if k == 'unknown':
            return r[:2]
        if k == 'style':
            return ('style', r[1], ds(r[2]))
        if k == 'media':
            return ('media', r[1], r[2], [rule(c) for c in r[3]])
        if k == 'page':
            return ('page', r[1], ds(r[2]), [rule(c) for c in r[3]])
        if k == 'margin':
            return ('margin', r[1], ds(r[2]))
        if k == 'fontface':
            return ('fontface', ds(r[1]))
        return r
    return [rule(r) for r in proj]
