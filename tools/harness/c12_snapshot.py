"""C12 oracle: a flattened snapshot of all module-level and class-level state of cssutils / encutils.

Every mutable thing reachable from a module global or a class attribute of the package is walked (lists, dicts, sets,
instances of package classes, compiled regexes by pattern); two snapshots are compared key by key. This is independent
of the model: it does not know which globals the model has.
"""
import itertools
import logging
import re
import sys
import types

# paths whose change is not a hidden state in the sense of the property (each with the reason)
BENIGN = [
    # ErrorHandler.__getattr__ stores the bound logging method it is about to call; it is assigned again before
    # every use (errorhandler.py:68-71)
    re.compile(r"\['_logcall'\]$"),
    # errorhandler.py:98-101 annotates the exception CLASS with the position just before raising it
    re.compile(r"^xml\.dom\.\w+\['(line|col)'\]$"),
    re.compile(r"^xml\.dom\.\w+#keys$"),
    # the push-back queue is cleared by ProdParser() before anything can read it (model: engine_pushed_irrelevant)
    re.compile(r"^cssutils\.prodparser\.tokenizer\.\['_pushed'\]"),
    # pure memo keyed by its content (DESIGN C12 residual)
    re.compile(r"^cssutils\.tokenize2\._TOKENIZER_CACHE"),
    # util.LazyRegex compiles its pattern on first use and then mirrors the compiled object's attributes: a pure
    # memo of `pattern`, which is compared
    re.compile(r"\['_profilesProperties'\].*\.(matcher|flags|groups|groupindex.*)$"),
]


def flat(o, path, out, depth=0, seen=()):
    if o is None or isinstance(o, (bool, int, float, str, bytes)):
        out[path] = o
        return
    if id(o) in seen:
        out[path] = '<cycle>'
        return
    if depth > 7:
        out[path] = '<deep %s>' % type(o).__name__
        return
    seen = seen + (id(o),)
    if isinstance(o, (list, tuple)):
        out[path + '#len'] = len(o)
        for i, x in enumerate(o):
            flat(x, '%s[%d]' % (path, i), out, depth + 1, seen)
        return
    if isinstance(o, (set, frozenset)):
        out[path] = tuple(sorted(repr(x) for x in o))
        return
    if isinstance(o, dict):
        out[path + '#keys'] = tuple(sorted(repr(k) for k in o))
        for k, v in o.items():
            flat(v, '%s[%r]' % (path, k), out, depth + 1, seen)
        return
    if isinstance(o, re.Pattern):
        out[path] = ('re', o.pattern, o.flags)
        return
    if isinstance(o, (types.FunctionType, types.BuiltinFunctionType, types.MethodType, type, types.ModuleType)):
        out[path] = ('callable', getattr(o, '__qualname__', getattr(o, '__name__', '?')))
        return
    if isinstance(o, itertools.chain):
        out[path] = ('chain',)
        return
    if isinstance(o, logging.Logger):
        out[path] = ('logger', o.name, o.level, len(o.handlers))
        return
    mod = type(o).__module__ or ''
    if mod.startswith('cssutils') or mod.startswith('encutils'):
        d = getattr(o, '__dict__', None)
        if d is not None:
            out[path + '#type'] = type(o).__qualname__
            if type(o).__name__ in ('_ErrorHandler', 'ErrorHandler'):
                d = {k: v for k, v in d.items() if k != '_logcall'}
            flat(d, path + '.', out, depth + 1, seen)
            return
        slots = getattr(type(o), '__slots__', None)
        if slots:
            out[path + '#type'] = type(o).__qualname__
            for s in slots:
                flat(getattr(o, s, None), '%s.%s' % (path, s), out, depth + 1, seen)
            return
    out[path] = ('other', type(o).__qualname__)


def snapshot():
    out = {}
    for name, m in sorted(sys.modules.items()):
        if not (name == 'cssutils' or name.startswith('cssutils.') or name == 'encutils' or name.startswith('encutils.')):
            continue
        if '.tests' in name or m is None:
            continue
        for k, v in sorted(vars(m).items()):
            if k.startswith('__'):
                continue
            if isinstance(v, (types.ModuleType, types.FunctionType, types.BuiltinFunctionType)):
                continue
            if isinstance(v, type):
                if (v.__module__ or '') == name:
                    for ck, cv in sorted(vars(v).items()):
                        if ck.startswith('__'):
                            continue
                        if isinstance(cv, (types.FunctionType, property, staticmethod, classmethod)):
                            continue
                        flat(cv, '%s.%s.%s' % (name, k, ck), out)
                continue
            flat(v, '%s.%s' % (name, k), out)
    import xml.dom
    for k, v in vars(xml.dom).items():
        if isinstance(v, type) and issubclass(v, Exception):
            flat({a: b for a, b in vars(v).items() if not a.startswith('__')}, 'xml.dom.%s' % k, out)
    return out


def diff(a, b):
    keys = sorted(k for k in set(a) | set(b) if a.get(k) != b.get(k))
    return [k for k in keys if not any(p.search(k) for p in BENIGN)]
