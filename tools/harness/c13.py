"""C13 — the validation verdict depends only on name, value, profiles; validation only annotates.

model:     lean/CssVerif/Model/Validate.lean (+ ValidateReg.lean over Gen/C13Profiles.lean)
theorems:  lean/CssVerif/Props/C13.lean
translate: tools/gen/c13_profiles.py regenerates Gen/C13Profiles.lean from cssutils/profiles.py and cross-checks it
           with the live `cssutils.profile` (patterns, order, flags, knownNames, defaultProfiles)
correspondence (model vs implementation):
  acc   — every registered pattern (148) as `Re` vs the live compiled regex on values sampled from its own
          grammar, from other properties' grammars, and near misses
  vwp   — `Profiles.validate` / `validateWithProfile` for known/unknown names x profile arguments x defaults
  prop  — `Property.valid` of properties parsed / constructed / set through the DOM, ordinary and @font-face
  sheet — `CSSStyleSheet.valid`, `rule.valid` of generated sheets (style, @font-face, @media, @page, other rules)
  vt    — `PropertyValue(text).seq` / `.value` / `Property.value` of values put together from components and gap
          pieces, under five preference settings (tools/harness/c13_valuetext.py, model Model/ValueText.lean)
oracle (implementation only):
  spelling invariance (case, comments, whitespace), serialise->reparse stability, creation-path independence,
  CSS 2.1 reference grammars (keyword lists from Model/Css21Keywords.lean, single length / percentage / number /
  integer / colour / URI built by construction), unknown names never valid, block/rule/sheet conjunction,
  validation on/off at parser / sheet / declaration level leaves DOM and cssText identical.
"""
import contextlib
import json
import os
import re
import time

from lib.framework import Check, enc, time_limit, TimeLimit, VERIF
from gen import c13_profiles, relib
from harness.c13_valuetext import ValueTextMixin

FOLD_SPECIAL = 'İıſK'      # non-ASCII letters that re.I folds onto ASCII letters
UNITS = ['em', 'ex', 'px', 'in', 'cm', 'mm', 'pt', 'pc']
CSS21_COLORS = ['maroon', 'red', 'orange', 'yellow', 'olive', 'purple', 'fuchsia', 'white', 'lime', 'green', 'navy',
                'blue', 'aqua', 'teal', 'black', 'silver', 'gray']
CSS21_SYSTEM_COLORS = ['ActiveBorder', 'ActiveCaption', 'AppWorkspace', 'Background', 'ButtonFace',
                       'ButtonHighlight', 'ButtonShadow', 'ButtonText', 'CaptionText', 'GrayText', 'Highlight',
                       'HighlightText', 'InactiveBorder', 'InactiveCaption', 'InactiveCaptionText',
                       'InfoBackground', 'InfoText', 'Menu', 'MenuText', 'Scrollbar', 'ThreeDDarkShadow',
                       'ThreeDFace', 'ThreeDHighlight', 'ThreeDLightShadow', 'ThreeDShadow', 'Window',
                       'WindowFrame', 'WindowText']

# CSS 2.1 (REC 2011) Appendix F: properties whose grammar is an alternative of keywords and SINGLE typed values
# property -> (types, keywords); independent of cssutils
SINGLE_TYPE = {
    'bottom': ('LP', ['auto', 'inherit']), 'left': ('LP', ['auto', 'inherit']),
    'right': ('LP', ['auto', 'inherit']), 'top': ('LP', ['auto', 'inherit']),
    'width': ('LP', ['auto', 'inherit']), 'height': ('LP', ['auto', 'inherit']),
    'margin-top': ('LP', ['auto', 'inherit']), 'margin-right': ('LP', ['auto', 'inherit']),
    'margin-bottom': ('LP', ['auto', 'inherit']), 'margin-left': ('LP', ['auto', 'inherit']),
    'padding-top': ('LP', ['inherit']), 'padding-right': ('LP', ['inherit']),
    'padding-bottom': ('LP', ['inherit']), 'padding-left': ('LP', ['inherit']),
    'max-height': ('LP', ['none', 'inherit']), 'max-width': ('LP', ['none', 'inherit']),
    'min-height': ('LP', ['inherit']), 'min-width': ('LP', ['inherit']),
    'text-indent': ('LP', ['inherit']),
    'letter-spacing': ('L', ['normal', 'inherit']), 'word-spacing': ('L', ['normal', 'inherit']),
    'line-height': ('NLP', ['normal', 'inherit']),
    'orphans': ('I', ['inherit']), 'widows': ('I', ['inherit']), 'z-index': ('I', ['auto', 'inherit']),
    'pitch-range': ('N', ['inherit']), 'richness': ('N', ['inherit']), 'stress': ('N', ['inherit']),
    'speech-rate': ('N', ['x-slow', 'slow', 'medium', 'fast', 'x-fast', 'faster', 'slower', 'inherit']),
    'volume': ('NP', ['silent', 'x-soft', 'soft', 'medium', 'loud', 'x-loud', 'inherit']),
    'color': ('C', ['inherit']), 'background-color': ('C', ['transparent', 'inherit']),
    'border-top-color': ('C', ['transparent', 'inherit']), 'border-right-color': ('C', ['transparent', 'inherit']),
    'border-bottom-color': ('C', ['transparent', 'inherit']), 'border-left-color': ('C', ['transparent', 'inherit']),
    'background-image': ('U', ['none', 'inherit']), 'list-style-image': ('U', ['none', 'inherit']),
    'cue-after': ('U', ['none', 'inherit']), 'cue-before': ('U', ['none', 'inherit']),
    'border-top-width': ('L', ['thin', 'medium', 'thick', 'inherit']),
    'border-right-width': ('L', ['thin', 'medium', 'thick', 'inherit']),
    'border-bottom-width': ('L', ['thin', 'medium', 'thick', 'inherit']),
    'border-left-width': ('L', ['thin', 'medium', 'thick', 'inherit']),
    # font-size: "negative values are not allowed" (prose) — only non-negative members are generated (types l, p)
    'font-size': ('lp', ['xx-small', 'x-small', 'small', 'medium', 'large', 'x-large', 'xx-large', 'larger',
                         'smaller', 'inherit']),
    'vertical-align': ('LP', ['baseline', 'sub', 'super', 'top', 'text-top', 'middle', 'bottom', 'text-bottom',
                              'inherit']),
}
ALL_KEYWORDS = sorted({k for _, ks in SINGLE_TYPE.values() for k in ks} |
                      {'none', 'auto', 'normal', 'block', 'left', 'solid', 'bold', 'red', 'serif', 'x', 'foo'})


# @font-face descriptors whose value is a keyword list (CSS3 Fonts, as far as cssutils registers them)
FONTFACE_KEYWORDS = {
    'font-style': ['normal', 'italic', 'oblique'],
    'font-weight': ['normal', 'bold', '100', '200', '300', '400', '500', '600', '700', '800', '900'],
    'font-stretch': ['ultra-condensed', 'extra-condensed', 'condensed', 'semi-condensed', 'semi-expanded',
                     'expanded', 'extra-expanded', 'ultra-expanded'],
}


def impl():
    import logging
    import cssutils
    cssutils.log.setLevel(logging.FATAL)
    cssutils.log.raiseExceptions = False
    return cssutils


def load_keyword_spec():
    """the hand-typed CSS 2.1 keyword lists of lean/CssVerif/Model/Css21Keywords.lean (one source of truth)"""
    src = open(os.path.join(VERIF, 'lean', 'CssVerif', 'Model', 'Css21Keywords.lean'), encoding='utf-8').read()
    src = re.sub(r'--[^\n]*', '', src)
    m = re.search(r'def borderStyle : List String :=\s*\[(.*?)\]', src, re.S)
    border = re.findall(r'"([^"]*)"', m.group(1))
    body = src[src.index('def keywordProps'):]
    out = {}
    for m in re.finditer(r'\("([a-z-]+)",\s*(borderStyle \+\+ )?\[(.*?)\]\)', body, re.S):
        kws = re.findall(r'"([^"]*)"', m.group(3))
        out[m.group(1)] = (border if m.group(2) else []) + kws
    if len(out) < 30:
        raise RuntimeError('cannot read Css21Keywords.lean')
    return out


# ----------------------------------------------------------------------------------------------
# sampling strings from a pattern
def alts(r):
    out = []
    while r[0] == 'alt':
        out.append(r[1])
        r = r[2]
    out.append(r)
    return out


NEG_POOL = [ord(c) for c in 'ax1 -_".#%(),/\\é中']


def sample(r, rng, budget=[0]):
    k = r[0]
    if k in ('eps', 'eol'):
        return ''
    if k == 'cls':
        neg, rs = r[1], r[2]
        if neg:
            cand = [c for c in NEG_POOL if not any(lo <= c <= hi for lo, hi in rs)]
            return chr(rng.choice(cand)) if cand else ''
        # prefer the lower-case / printable ASCII members
        lo, hi = rng.choice(rs)
        pref = [(a, b) for a, b in rs if 32 <= a < 127 and not 65 <= a <= 90]
        if pref and rng.random() < 0.9:
            lo, hi = rng.choice(pref)
        c = rng.randint(lo, min(hi, lo + 40))
        if chr(c) in FOLD_SPECIAL or 0xD800 <= c <= 0xDFFF:
            c = lo
        return chr(c)
    if k == 'seq':
        return sample(r[1], rng) + sample(r[2], rng)
    if k == 'alt':
        return sample(rng.choice(alts(r)), rng)
    if k == 'star':
        n = 0 if rng.random() < 0.5 else rng.randint(1, 2)
        return ''.join(sample(r[1], rng) for _ in range(n))
    if k == 'rep':
        m, n = r[2], r[3]
        return ''.join(sample(r[1], rng) for _ in range(rng.randint(m, min(n, m + 2))))
    raise ValueError(k)


def mutate(s, rng):
    if not s:
        return rng.choice(['', ' ', 'x', '0'])
    i = rng.randrange(len(s))
    op = rng.randrange(8)
    if op == 0:
        return s[:i] + s[i + 1:]
    if op == 1:
        return s[:i] + rng.choice('ax1 -.%#(),/"+') + s[i:]
    if op == 2:
        return s[:i] + s[i].swapcase() + s[i + 1:]
    if op == 3:
        return s + rng.choice([' ', 'x', ' x', ' inherit', '\n', ' 1px', ',', '%', 'px'])
    if op == 4:
        return rng.choice([' ', 'x', '-', '+', '#', '"']) + s
    if op == 5:
        return s + ' ' + s
    if op == 6:
        return s.upper()
    return s[:i] + rng.choice('ax1 -.%') + s[i + 1:]


# ----------------------------------------------------------------------------------------------
# spellings of a value
SEPS = [' ', '  ', '\t', '\n', ' /*c*/ ', '/**/', ' /* a b */', '/*x*/ ', '\r\n', ' \f']


def split_top(s):
    """split a value text at top-level single spaces (outside quotes and parentheses)"""
    parts, cur, depth, q = [], '', 0, None
    i = 0
    while i < len(s):
        c = s[i]
        if q:
            cur += c
            if c == '\\' and i + 1 < len(s):
                cur += s[i + 1]
                i += 1
            elif c == q:
                q = None
        elif c in '"\'':
            q = c
            cur += c
        elif c == '(':
            depth += 1
            cur += c
        elif c == ')':
            depth = max(0, depth - 1)
            cur += c
        elif c == ' ' and depth == 0:
            parts.append(cur)
            cur = ''
        else:
            cur += c
        i += 1
    parts.append(cur)
    return parts


def flip_case(part, rng):
    """random ASCII case changes outside strings and outside url(...)"""
    if part[:4].lower() == 'url(':
        return rng.choice(['url(', 'URL(', 'Url(']) + part[4:]
    out, q = [], None
    mode = rng.randrange(3)
    for c in part:
        if q:
            out.append(c)
            if c == q:
                q = None
        elif c in '"\'':
            q = c
            out.append(c)
        elif not c.isascii():
            out.append(c)
        elif mode == 0:
            out.append(c.upper())
        elif mode == 1:
            out.append(c.swapcase() if rng.random() < 0.4 else c)
        else:
            out.append(c)
    return ''.join(out)


def respell(v, rng):
    parts = [p for p in split_top(v) if p != '']
    if not parts:
        return v
    body = parts[0] if rng.random() < 0.5 else flip_case(parts[0], rng)
    for p in parts[1:]:
        body += rng.choice(SEPS) + (p if rng.random() < 0.5 else flip_case(p, rng))
    return rng.choice(['', ' ', '/*l*/', '\n ']) + body + rng.choice(['', ' ', ' /*t*/', '\n'])


def spell_name(name, rng):
    """a spelling of a property name that normalises to `name`: letter case and simple escapes (a backslash
    before a letter that is no hex digit: `c\\olor`, `\\z-index`)"""
    r = rng.random()
    if r < 0.4:
        return name
    out = name
    if rng.random() < 0.5:
        out = ''.join(c.upper() if rng.random() < 0.5 else c for c in out)
    if rng.random() < 0.7:
        idx = [i for i, c in enumerate(out) if c.lower() in 'ghijklmnopqrstuvwxyz']
        for i in sorted(rng.sample(idx, min(len(idx), rng.randint(1, 2))), reverse=True):
            out = out[:i] + '\\' + out[i:]
    return out


def has_function(v):
    """a functional notation other than url( (inside url( a comment would be part of the URI)"""
    return any(m.group(1).lower() != 'url' for m in re.finditer(r'([A-Za-z-]+)\(', v))


def inner_comments(v, rng):
    """put comments / extra white space between the arguments of functions (not url(), not inside strings)"""
    out, depth, q, stack, i, done = [], 0, None, [], 0, False
    for m in re.finditer(r'([A-Za-z-]*)\(|\)|"|\'|,|[^()"\',]+', v):
        t = m.group(0)
        if q:
            out.append(t)
            if t == q:
                q = None
            continue
        if t in '"\'' and len(t) == 1:
            q = t
            out.append(t)
        elif t.endswith('('):
            stack.append(m.group(1).lower())
            out.append(t)
            if stack[-1] != 'url' and 'url' not in stack and rng.random() < 0.4:
                out.append(rng.choice(['/*i*/', ' /*i*/ ']))
                done = True
        elif t == ')':
            if stack and 'url' not in stack and rng.random() < 0.3:
                out.append(rng.choice(['/*i*/', ' /*i*/']))
                done = True
            if stack:
                stack.pop()
            out.append(t)
        elif t == ',' and stack and 'url' not in stack:
            r = rng.random()
            if r < 0.5:
                out.append(rng.choice([',/*i*/', ', /*i*/ ', '/*i*/,', ' /*i*/ , ']))
                done = True
            else:
                out.append(t)
        else:
            out.append(t)
    return ''.join(out), done


def safe_value(v):
    """can be put into `a{p:V}` without ending the declaration / block or containing a fold-special letter"""
    if any(c in v for c in ';{}!@') or any(c in FOLD_SPECIAL for c in v):
        return False
    if '/*' in v or '*/' in v or '\\' in v or '<!--' in v or '-->' in v:
        return False
    if any(ord(c) < 32 and c not in '\t\n\r\f' for c in v) or '\x7f' in v:
        return False
    return v.count('"') % 2 == 0 and v.count("'") % 2 == 0 and v.count('(') == v.count(')')


# ----------------------------------------------------------------------------------------------
# typed values built by construction (member / non-member of the CSS 2.1 type)
def gen_num(rng, integer=False):
    sign = rng.choice(['', '', '', '-', '+'])
    if integer:
        return sign + str(rng.choice([0, 1, 2, 7, 10, 99, 100, 12345]))
    return sign + rng.choice(['0', '1', '2', '10', '1.5', '.5', '0.25', '100', '3.14159', '007', '1.50'])


def gen_typed(t, rng):
    """-> (css text, True) a member of the CSS 2.1 type t"""
    if t in 'lp':
        v = gen_typed(t.upper(), rng)
        return v[1:] if v[0] == '-' else v
    if t == 'L':
        if rng.random() < 0.12:
            return rng.choice(['0', '-0', '+0', '0.0'])
        return gen_num(rng) + rng.choice(UNITS)
    if t == 'P':
        return gen_num(rng) + '%'
    if t == 'N':
        return gen_num(rng)
    if t == 'I':
        return gen_num(rng, integer=True)
    if t == 'C':
        r = rng.random()
        if r < 0.3:
            return rng.choice(CSS21_COLORS)
        if r < 0.4:
            return rng.choice(CSS21_SYSTEM_COLORS)
        if r < 0.6:
            return '#' + ''.join(rng.choice('0123456789abcdef') for _ in range(rng.choice([3, 6])))
        w = lambda: rng.choice(['', '', ' '])      # noqa: E731
        if r < 0.8:
            comps = [gen_num(rng, integer=True) for _ in range(3)]
        else:
            comps = [gen_num(rng) + '%' for _ in range(3)]
        return 'rgb(' + ','.join(w() + c + w() for c in comps) + ')'
    if t == 'U':
        name = rng.choice(['x', 'a.png', 'http://e.org/a?b=c', '../a/b.gif', 'a-b_c', ''])
        r = rng.random()
        if r < 0.4:
            return 'url(%s)' % name
        if r < 0.7:
            return 'url("%s")' % name
        if r < 0.85:
            return "url( '%s' )" % name
        return 'url( %s )' % name
    raise ValueError(t)


def gen_nonmember(types, rng):
    """a value that belongs to none of the CSS 2.1 types in `types` and is no keyword"""
    cands = ['1px 1px', '1px,1px', '"1px"', 'foo', '1 px', '1qx', '#abcde', 'rgb(1,2)', '1px/2px', 'url', '1e3',
             '--', 'red blue', '1%%', 'rgb(1.5,2,3)', 'rgb(1,2%,3)', '# fff', 'u(x)', '1.5.5', 'px', '%', '1px%']
    if 'N' not in types and 'I' not in types:
        cands += ['1', '1.5', '-2', '+3']
    if 'N' not in types and 'I' in types:
        cands += ['1.5', '-0.5']
    types = types.upper()
    if 'L' not in types:
        cands += ['1px', '-2em', '+1.5cm']
    if 'P' not in types:
        cands += ['1%', '-50%']
    if 'C' not in types:
        cands += ['red', '#fff', 'rgb(1,2,3)', 'ButtonFace']
    if 'U' not in types:
        cands += ['url(x)', 'url("a b")']
    return rng.choice(cands)


# ----------------------------------------------------------------------------------------------
class C13(ValueTextMixin, Check):
    id = 'C13'
    props_module = 'CssVerif.Props.C13'
    driver_exe = 'drv_c13'
    sources = ('cssutils/profiles.py', 'cssutils/css/property.py', 'cssutils/css/cssstyledeclaration.py',
               'cssutils/css/cssstylerule.py', 'cssutils/css/cssstylesheet.py', 'cssutils/css/cssfontfacerule.py',
               'cssutils/util.py', 'cssutils/serialize.py', 'cssutils/prodparser.py', 'cssutils/css/value.py')
    trusted_base = (
        'translator tools/gen/c13_profiles.py (reads profiles.py with ast, re-implements addProfiles/_expand_macros/'
        '_compile_regexes, parses every expanded pattern with CPython re._parser via tools/gen/relib.py); '
        'cross-checked each run against the live cssutils.profile (patterns, flags, order, knownNames)',
        'hand-written model lean/CssVerif/Model/Validate.lean of validate / validateWithProfile / Property.validate / '
        'the valid conjunctions / the validOnly guard, tied to the code by the correspondence of this run',
        'Re semantics (lean/CssVerif/Lib/Re.lean) = CPython sre on the supported subset: exercised here on all 148 '
        'registered patterns (acc correspondence)',
        'reference keyword lists lean/CssVerif/Model/Css21Keywords.lean typed from the CSS 2.1 Recommendation',
        'hand-written model lean/CssVerif/Model/ValueText.lean of ProdParser.parse on the value grammar, _SorTokens, '
        'PropertyValue._setCssText and do_css_PropertyValue(valuesOnly=True) (over the Out.append model of C06), tied '
        'by the vt correspondence of this run; the derived four-state automaton of the grammar is part of that '
        'transcription',
        'reference colour grammar lean/CssVerif/Model/Css21Colors.lean typed from CSS 2.1 4.3.6 / 18.2 and CSS Color 3',
    )
    assumptions = (
        'Property.value: the top level of a value (tokens -> items -> valuesOnly serialisation) is modelled '
        '(Model/ValueText.lean) and tied by the vt correspondence; what a term production makes of its token(s) (item '
        'type, cssText under the preferences, wellformed) is an INPUT of that model, measured on the implementation; '
        'round-trip stability and comments inside a function are checked on the implementation only (oracle)',
        're.I = ASCII case folding on the generated alphabets; the four non-ASCII letters that CPython folds onto '
        'ASCII in Unicode mode (U+0130 U+0131 U+017F U+212A) and non-ASCII digits are an implementation-only stream '
        '(the patterns are compiled with re.ASCII since the fix; such values must be invalid)',
        'Property.value never ends in a line feed (checked by the oracle on every generated property)',
    )
    rule = ('acc: every (profile, property) pattern x values sampled from its own Re AST, from other patterns, and '
            'mutations; vwp: known/unknown names x profile arguments x defaultProfiles settings; prop/sheet: generated '
            'sheets (style, @font-face, @media, @page, other rules; repeated names; priorities) parsed, constructed '
            'and set through the DOM; vt: values built from components (all term productions, operators, refused '
            'tokens) x gap pieces (white-space forms, comments, nothing) x five preference settings; '
            'oracle: 2-4 spellings per (property, value), round trip, typed values by '
            'construction. non-trivial = distinct (property, value text) whose verdict is True, or a near miss of a '
            'valid value, or a sheet with at least one invalid declaration')

    # ------------------------------------------------------------------------------------------
    def translate(self, ctx):
        text, info = c13_profiles.translate(ctx.repo)
        diffs = c13_profiles.crosscheck(ctx.repo, info)
        self.info = info
        ctx.notes['translator'] = {'profiles': len(info['profiles']),
                                   'entries': sum(len(p['props']) for p in info['profiles']),
                                   'finite_language_entries': sum(1 for p in info['profiles'] for x in p['props']
                                                                  if x['finite']),
                                   'sha256_profiles_py': info['sha256'][:16], 'crosscheck_differences': diffs[:5]}
        if diffs:
            raise RuntimeError('translated registry differs from the live one: %s' % diffs[:3])
        return {'CssVerif/Gen/C13Profiles.lean': text}

    def setup(self, ctx):
        if not hasattr(self, 'info'):
            _, self.info = c13_profiles.translate(ctx.repo)
        self.cu = impl()
        self.P = self.cu.profile
        self.entries = []           # (profile index, profile name, property, ast)
        self.by_name = {}
        cache = {}
        for i, pr in enumerate(self.info['profiles']):
            for x in pr['props']:
                if x['pattern'] not in cache:
                    cache[x['pattern']] = c13_profiles.parse_pattern(x['pattern'], self.info.get('flags', re.I))
                self.entries.append((i, pr['name'], x['name'], cache[x['pattern']]))
                self.by_name.setdefault(x['name'], []).append(cache[x['pattern']])
        self.names = sorted(self.by_name)
        self.profile_names = [p['name'] for p in self.info['profiles']]
        self.FF = self.info['fontface']
        self.kwspec = load_keyword_spec()

    # ------------------------------------------------------------------------------------------
    ORACLES = ('oracle_numbers_prefs', 'oracle_moved_properties', 'oracle_grammar',
               'oracle_spelling_roundtrip_paths', 'oracle_annotates', 'oracle_unicode_fold')

    def run(self, ctx):
        self.setup(ctx)
        self.salt = getattr(self, 'salt', '')
        saved_default = self.P._defaultProfiles
        try:
            for name in ('run_corpus', 'corr_acc', 'corr_vwp', 'corr_props_and_sheets', 'corr_value_text', 'oracle_vtab_direct',
                         'oracle_numbers_prefs',
                         'oracle_moved_properties', 'oracle_spelling_roundtrip_paths', 'oracle_grammar',
                         'oracle_annotates', 'corr_valid_only', 'oracle_unicode_fold'):
                ctx.phase(getattr(self, name), ctx)
                self.P._defaultProfiles = saved_default
        finally:
            self.P._defaultProfiles = saved_default

    def search(self, ctx):
        """an obligation or the correspondence broke and the run produced no failing input: repeat the
        implementation-side oracles with fresh random streams for at most ~2 minutes"""
        ctx.search_mode = True
        t0 = time.time()
        saved_default = self.P._defaultProfiles
        try:
            for rnd in range(1, 40):
                self.salt = '/search%d' % rnd
                for name in self.ORACLES + ('corr_props_and_sheets',):
                    if ctx.violations or time.time() - t0 > 100:
                        return
                    ctx.phase(getattr(self, name), ctx)
                    self.P._defaultProfiles = saved_default
        finally:
            self.salt = ''
            self.P._defaultProfiles = saved_default
            ctx.notes['search_seconds'] = round(time.time() - t0, 1)

    def rng(self, ctx, tag):
        return ctx.sub_rng(tag + getattr(self, 'salt', ''))

    @contextlib.contextmanager
    def prefs(self, setting):
        """serializer preferences for the duration of the block; always restored"""
        pr = self.cu.ser.prefs
        saved = dict(pr.__dict__)
        try:
            pr.useDefaults()
            if setting == 'minified':
                pr.useMinified()
            else:
                for k, v in setting.items():
                    setattr(pr, k, v)
            yield
        finally:
            pr.__dict__.clear()
            pr.__dict__.update(saved)

    # -- helpers ---------------------------------------------------------------------------------
    def parse(self, css, **kw):
        with time_limit(10):
            return self.cu.parseString(css, **kw)

    def value_for(self, name, rng, own=0.5):
        """a value text for property `name`: own grammar / other grammar / near miss -> (text, kind)"""
        r = rng.random()
        if own > 0.5:
            r = r * 0.5 / own if r < own else 0.5 + (r - own) * 0.5 / (1 - own)
        if name in self.by_name and r < 0.5:
            return sample(rng.choice(self.by_name[name]), rng), 'own'
        if r < 0.7:
            other = rng.choice(self.names)
            return sample(rng.choice(self.by_name[other]), rng), 'other'
        if name in self.by_name:
            v = sample(rng.choice(self.by_name[name]), rng)
        else:
            v = sample(rng.choice(self.by_name[rng.choice(self.names)]), rng)
        for _ in range(rng.randint(1, 2)):
            v = mutate(v, rng)
        return v, 'nearmiss'

    # -- corpus ------------------------------------------------------------------------------------
    def run_corpus(self, ctx):
        path = os.path.join(VERIF, 'tools', 'corpus', 'C13', 'cases.json')
        if not os.path.exists(path):
            return
        data = json.load(open(path))
        sheets = [c['css'] for c in data.get('sheets', [])]
        self.check_sheets(ctx, sheets, 'corpus')
        lines, exp = [], []
        for c in data.get('acc', []):
            for i, pn, name, _ in self.entries:
                if name == c['name']:
                    lines.append('acc %d %s %s' % (i, enc(name), enc(c['value'])))
                    exp.append((pn, name, c['value'],
                                '1' if self.P._profilesProperties[pn][name](c['value']) else '0'))
        self.compare(ctx, 'acc(corpus)', lines, exp)

    def drive(self, ctx, lines, chunk=1500, timeout=90):
        """ctx.driver in chunks; a chunk that does not come back in time is bisected and the request that
        stalls the model is reported as a disagreement (reply `TIMEOUT`) instead of killing the run"""
        import subprocess
        out = []
        for i in range(0, len(lines), chunk):
            part = lines[i:i + chunk]
            try:
                out += ctx.driver(part, timeout=timeout)
            except subprocess.TimeoutExpired:
                for l in part:
                    try:
                        out += ctx.driver([l], timeout=10)
                    except subprocess.TimeoutExpired:
                        out.append('TIMEOUT')
        return out

    def compare(self, ctx, what, lines, exp):
        out = self.drive(ctx, lines) if ctx.model_ok and lines else [None] * len(lines)
        for l, e, o in zip(lines, exp, out):
            if o is not None and l.startswith('vwp ') and o.startswith('ok '):
                o = ' '.join(o.split()[:3])
            if o is not None and o != e[-1]:
                ctx.disagree(what, {'request': l, 'case': [repr(x) for x in e[:-1]]}, e[-1], o)

    # -- correspondence: patterns ------------------------------------------------------------------
    def corr_acc(self, ctx):
        rng = self.rng(ctx, 'acc')
        per = ctx.n(80, 1400)
        lines, exp = [], []
        for i, pn, name, ast_ in self.entries:
            rx = self.P._profilesProperties[pn][name]
            big = relib.size(ast_) > 5000
            n = max(8, per // 4) if big else per
            for j in range(n):
                r = j % 6
                if r < 2:
                    v, kind = sample(ast_, rng), 'own'
                elif r == 2:
                    v, kind = sample(rng.choice(self.entries)[3], rng), 'other'
                elif r == 3:
                    v, kind = mutate(sample(ast_, rng), rng), 'nearmiss'
                elif r == 4:
                    v, kind = mutate(mutate(sample(ast_, rng), rng), rng), 'nearmiss2'
                else:
                    v, kind = rng.choice(['', ' ', 'inherit', 'INHERIT', 'inherit\n', '\ninherit', 'none', '0', 'auto',
                                          '1px', 'red', 'inherit ', 'x' * 30, 'a b c d e f g h']), 'fixed'
                if len(v) > 120:
                    v, kind = v[:120], kind + '-truncated'
                with time_limit(10):
                    got = '1' if rx(v) else '0'
                ctx.case(key=('acc', name, pn, v), nontrivial=(got == '1' or kind.startswith('near')),
                         kind='acc:%s:%s' % (kind, got),
                         sample={'pattern': '%s / %s' % (pn, name), 'value': v, 'impl': got})
                if kind == 'own' and got != '1':
                    # the sampler draws from the translated AST: a rejected own sample means AST != compiled regex
                    ctx.disagree('sample of the translated pattern is rejected by the compiled regex',
                                 {'profile': pn, 'property': name, 'value': v}, got, '1')
                lines.append('acc %d %s %s' % (i, enc(name), enc(v)))
                exp.append((pn, name, v, got))
        self.compare(ctx, 'pattern acceptance (Re vs compiled regex)', lines, exp)

    # -- correspondence: validate / validateWithProfile ---------------------------------------------
    def corr_vwp(self, ctx):
        rng = self.rng(ctx, 'vwp')
        P = self.P
        CSS2 = self.info['consts']['CSS_LEVEL_2']
        C3 = self.info['consts']['CSS3_COLOR']
        defaults = [None, None, CSS2, [CSS2], [CSS2, C3], [self.FF], (), list(reversed(self.profile_names)),
                    ['no such profile'], [CSS2, 'nope']]
        lines, exp = [], []

        def lst(x):
            if x is None:
                return 'N'
            if isinstance(x, str):
                x = [x]
            x = list(x)
            return ','.join(enc(p) for p in x) if x else 'E'

        for _ in range(ctx.n(2500, 60000)):
            name = rng.choice(self.names) if rng.random() < 0.85 else rng.choice(['x', 'colour', '', 'COLOR', '-moz-x'])
            v, kind = self.value_for(name, rng)
            d = rng.choice(defaults)
            ps = rng.choice([None, None, None, CSS2, self.FF, rng.choice(self.profile_names), [], [CSS2, C3],
                             [rng.choice(self.profile_names), rng.choice(self.profile_names)], 'unknown profile',
                             [CSS2, 'unknown profile']])
            P._defaultProfiles = None
            P.defaultProfiles = d
            try:
                with time_limit(10):
                    a, b, names = P.validateWithProfile(name, v, ps)
                got = 'ok %d %d' % (a, b)       # the list of profile names (log text) is not compared
            except KeyError as e:
                got = 'KeyError %s' % enc(e.args[0])
            with time_limit(10):
                got2 = '1' if P.validate(name, v) else '0'
            P._defaultProfiles = None
            ctx.case(key=('vwp', name, v, repr(d), repr(ps)), nontrivial=got.startswith('ok 1') or 'Key' in got,
                     kind='vwp:' + got[:6], sample={'validateWithProfile': [name, v, repr(ps)], 'default': repr(d),
                                                    'impl': got})
            lines.append('vwp %s %s %s %s' % (lst(d), lst(ps), enc(name), enc(v)))
            exp.append((name, v, d, ps, got))
            lines.append('validate %s %s' % (enc(name), enc(v)))
            exp.append((name, v, got2))
            # oracle: `valid` of validateWithProfile is `validate`, whatever profiles/default say
            if got.startswith('ok') and got[3] != got2:
                ctx.violate('validateWithProfile(...)[0] equals validate(...) (valid in ANY profile)',
                            {'name': name, 'value': v, 'profiles': repr(ps), 'default': repr(d)},
                            {'validateWithProfile': got, 'validate': got2})
        self.compare(ctx, 'validate / validateWithProfile', lines, exp)

    # -- DOM -> model tokens --------------------------------------------------------------------------
    def decl_token(self, p):
        return 'd/%s/%s/%s' % (enc(p.name), enc(p.value), enc(p.priority))

    def block_tokens(self, style):
        out = []
        for item in style.seq:
            if isinstance(item.value, self.cu.css.Property):
                out.append(self.decl_token(item.value))
            else:
                out.append('c')
        return out

    def rule_tokens(self, rule):
        css = self.cu.css
        t = rule.type
        if t == rule.STYLE_RULE:
            return ['s('] + self.block_tokens(rule.style) + [')']
        if t == rule.FONT_FACE_RULE:
            return ['f('] + self.block_tokens(rule.style) + [')']
        if t == rule.MEDIA_RULE:
            out = ['m(']
            for r in rule.cssRules:
                out += self.rule_tokens(r)
            return out + [')']
        if t == rule.PAGE_RULE:
            out = ['p('] + self.block_tokens(rule.style)
            for r in rule.cssRules:
                if isinstance(r, css.MarginRule):
                    out += ['g('] + self.block_tokens(r.style) + [')']
            return out + [')']
        return ['o']

    def all_props(self, rule, ctxpath=()):
        """every Property in the rule with its context path -> [(path kinds, block id, Property, effective?)]"""
        css = self.cu.css
        out = []
        t = rule.type
        if hasattr(rule, 'style') and rule.style is not None and t != rule.MARGIN_RULE:
            eff = {id(x) for x in rule.style.getProperties()}
            for p in rule.style.getProperties(all=True):
                out.append((ctxpath + (rule.typeString,), p, id(p) in eff))
        if t == rule.MARGIN_RULE:
            eff = {id(x) for x in rule.style.getProperties()}
            for p in rule.style.getProperties(all=True):
                out.append((ctxpath + ('MARGIN_RULE',), p, id(p) in eff))
        if hasattr(rule, 'cssRules') and t in (rule.MEDIA_RULE, rule.PAGE_RULE):
            for r in rule.cssRules:
                out += self.all_props(r, ctxpath + (rule.typeString,))
        return out

    def fontface_member(self, name, value):
        """independent (CSS3 Fonts) reading: the six descriptors cssutils registers; keyword descriptors take
        exactly their keywords (no `inherit`, no relative weights); the others are not judged here (True)"""
        if name not in ('font-family', 'src', 'font-style', 'font-weight', 'font-stretch', 'unicode-range'):
            return False
        if name in FONTFACE_KEYWORDS:
            return self.fold(value) in FONTFACE_KEYWORDS[name]
        return True

    # -- sheets ------------------------------------------------------------------------------------
    def gen_decl(self, rng, fontface=False):
        r = rng.random()
        if fontface and r < 0.7:
            name = rng.choice(['font-family', 'src', 'font-style', 'font-weight', 'font-stretch', 'unicode-range'])
        elif r < 0.9:
            name = rng.choice(self.names)
        else:
            name = rng.choice(['x', 'colour', '-moz-foo', 'margin-x'])
        if fontface and name in ('font-family', 'src') and rng.random() < 0.7:
            v = {'font-family': rng.choice(['x', '"A B"', 'a b']), 'src': rng.choice(['url(x)', 'local(a)', 'url(a) format("b")'])}[name]
            kind = 'own'
        else:
            v, kind = self.value_for(name, rng, own=0.8)
        if not safe_value(v) or not v.strip():
            v, kind = rng.choice(['inherit', 'none', '1px', 'red', '4', 'auto']), 'fixed'
        prio = rng.choice(['', '', '', '', ' !important', '!IMPORTANT', ' ! important', ' !x'])
        spelled = spell_name(name, rng) if rng.random() < 0.5 else name
        return '%s:%s%s' % (spelled, v, prio), name

    def gen_block(self, rng, fontface=False):
        decls = []
        for _ in range(rng.randint(0, 4)):
            d, name = self.gen_decl(rng, fontface)
            decls.append(d)
            if rng.random() < 0.3:           # repeat the name with another value: exercises "effective"
                d2, _ = self.gen_decl(rng, fontface)
                decls.append(name + ':' + d2.split(':', 1)[1])
            if rng.random() < 0.1:
                decls.append('/*c*/')
        if fontface and rng.random() < 0.6:
            decls += ['font-family:x', 'src:url(x)'] if rng.random() < 0.7 else ['src:url(y)']
            rng.shuffle(decls)
        return ';'.join(decls)

    def gen_sheet(self, rng):
        rules = []
        for _ in range(rng.randint(1, 4)):
            r = rng.random()
            if r < 0.5:
                rules.append('%s{%s}' % (rng.choice(['a', '.b', 'p > q', '#i']), self.gen_block(rng)))
            elif r < 0.65:
                rules.append('@font-face{%s}' % self.gen_block(rng, True))
            elif r < 0.78:
                inner = ''.join('%s{%s}' % (rng.choice(['a', 'b']), self.gen_block(rng))
                                for _ in range(rng.randint(1, 2)))
                if rng.random() < 0.2:
                    inner += '@page{%s}' % self.gen_block(rng)
                rules.append('@media %s{%s}' % (rng.choice(['print', 'all', 'screen, tv']), inner))
            elif r < 0.9:
                margin = '@top-left{%s}' % self.gen_block(rng) if rng.random() < 0.4 else ''
                rules.append('@page%s{%s;%s}' % (rng.choice(['', ' :first']), self.gen_block(rng), margin))
            else:
                rules.append(rng.choice(['/*c*/', '@x y;', '@unknown{a:b}']))
        return '\n'.join(rules)

    def corr_props_and_sheets(self, ctx):
        rng = self.rng(ctx, 'sheets')
        sheets = [self.gen_sheet(rng) for _ in range(ctx.n(1200, 30000))]
        self.check_sheets(ctx, sheets, 'gen')

    def analyse_sheet(self, css):
        """one sheet on the implementation -> (driver lines, expected replies, case records, violations)"""
        P = self.P
        lines, exp, cases, viols = [], [], [], []
        s = self.parse(css)
        toks = []
        for r in s.cssRules:
            toks += self.rule_tokens(r)
        with time_limit(10):
            sv = s.valid
            rv = [('-' if not hasattr(r, 'valid') else '1' if r.valid else '0') for r in s.cssRules]
        props = []
        for r in s.cssRules:
            props += self.all_props(r)
        pv = []
        for path, p, eff in props:
            with time_limit(10):
                pv.append(bool(p.valid))
            if p.value.endswith('\n'):
                viols.append(('Property.value does not end in a line feed (assumption of the keyword theorem)',
                              {'css': css, 'property': p.name, 'value': p.value}, None, None))
        # reading of the property text: every declaration anywhere valid (+ @font-face needs both descriptors)
        allvalid = all(pv)
        for r in s.cssRules:
            if r.type == r.FONT_FACE_RULE:
                names = [p.name for p in r.style.getProperties(all=True)]
                allvalid = allvalid and 'font-family' in names and 'src' in names
        got = 'ok %d %s %d' % (sv, ','.join(rv) if rv else 'E', allvalid)
        cases.append((('sheet', css), not all(pv), 'valid=%d' % sv, {'sheet': css, 'impl': got}))
        lines.append(('sheet N ' + ' '.join(toks)).rstrip())
        exp.append((css, got))
        # property-level correspondence for every declaration in its context
        for (path, p, eff), v in zip(props, pv):
            ff = 'FONT_FACE_RULE' in path
            cases.append((('prop', ff, p.name, p.value, p.priority), v, 'prop:parsed:%d' % v, None))
            lines.append('prop N %d %s %s %s' % (ff, enc(p.name), enc(p.value), enc(p.priority)))
            exp.append((css, p.name, p.value, p.priority, 'ok %d' % v))
            w = {'css': css, 'property': p.name, 'value': p.value, 'priority': p.priority}
            if p.name not in P.knownNames and v:
                viols.append(('a property with an unknown name is never valid', w, {'valid': True}, None))
            if p.priority not in ('', 'important') and v:
                viols.append(('a declaration whose priority is not !important is never valid', w, {'valid': True}, None))
            if ff and v and not self.fontface_member(p.name, p.value):
                viols.append(('inside @font-face only font descriptors with descriptor values are valid', w,
                              {'valid': True}, None))
            if ff and not v and p.priority in ('', 'important') and self.fontface_member(p.name, p.value) \
                    and self.fold(p.value) in FONTFACE_KEYWORDS.get(p.name, ()):
                viols.append(('inside @font-face the descriptor keywords are valid', w, {'valid': False}, None))
        # oracle: conjunction, as the property text reads it
        if bool(sv) != allvalid:
            viols.append(('a sheet is valid iff all its declarations are', {'css': css},
                          {'sheet.valid': bool(sv), 'all declarations valid': allvalid,
                           'invalid': [(p.name, p.value) for (_, p, _), v in zip(props, pv) if not v]},
                          None))
        return lines, exp, cases, viols

    def shrink_sheet(self, css, clause):
        """greedy: drop whole rules (lines), then single declarations of flat rules, while the same clause is
        still violated outside the known regions"""
        def bad(text):
            try:
                return any(c == clause and k is None for c, _, _, k in self.analyse_sheet(text)[3])
            except TimeLimit:
                raise
            except Exception:
                return False
        rules = css.split('\n')
        i = 0
        while i < len(rules) and len(rules) > 1:
            cand = rules[:i] + rules[i + 1:]
            if bad('\n'.join(cand)):
                rules = cand
            else:
                i += 1
        for k, r in enumerate(rules):
            m = re.fullmatch(r'([^{}]*)\{([^{}]*)\}', r)
            if not m:
                continue
            decls = m.group(2).split(';')
            j = 0
            while j < len(decls) and len(decls) > 1:
                cand = decls[:j] + decls[j + 1:]
                text = '\n'.join(rules[:k] + ['%s{%s}' % (m.group(1), ';'.join(cand))] + rules[k + 1:])
                if bad(text):
                    decls = cand
                else:
                    j += 1
            rules[k] = '%s{%s}' % (m.group(1), ';'.join(decls))
        return '\n'.join(rules)

    def check_sheets(self, ctx, sheets, tag):
        lines, exp = [], []
        reported = 0
        for css in sheets:
            l, e, cases, viols = self.analyse_sheet(css)
            lines += l
            exp += e
            for key, nontrivial, kind, sample in cases:
                ctx.case(key=key, nontrivial=nontrivial, sample=sample,
                         kind=kind if kind.startswith('prop') else 'sheet:%s:%s' % (tag, kind))
            for clause, witness, detail, known in viols:
                if known is None and reported < 3:
                    reported += 1
                    small = self.shrink_sheet(css, clause)
                    for c2, w2, d2, k2 in self.analyse_sheet(small)[3]:
                        if c2 == clause and k2 is None:
                            witness, detail = dict(w2, shrunk_from=css), d2
                            break
                ctx.violate(clause, witness, detail, known=known)
        self.compare(ctx, 'sheet.valid / rule.valid / Property.valid', lines, exp)

    # -- oracle: spelling, round trip, creation paths ------------------------------------------------
    def prop_obs(self, p):
        return (p.name, self.fold(p.value), p.priority, bool(p.valid))

    @staticmethod
    def fold(s):
        return ''.join(chr(ord(c) + 32) if 'A' <= c <= 'Z' else c for c in s)

    FUNCTION_VALUES = [('color', 'rgb(1, 2, 3)'), ('background-color', 'rgb(10%, 20%, 30%)'),
                       ('clip', 'rect(1px, 2px, 3px, 4px)'), ('content', 'counter(x, disc)'),
                       ('content', 'attr(title) "x"'), ('color', 'rgba(1, 2, 3, 0.5)'), ('color', 'hsl(1, 2%, 3%)'),
                       ('border-top-color', 'hsla(1, 2%, 3%, 0.5)'), ('text-shadow', '1px 1px rgb(1, 2, 3)'),
                       ('src', 'local(a b), url(a) format("b", "c")'), ('background', 'url(x) rgb(1, 2, 3) no-repeat'),
                       ('width', 'calc(1px + 2px)'), ('content', 'counters(x, ".")'),
                       # numbers with a zero integer part where several lengths follow each other
                       ('box-shadow', '0.7pc red'), ('text-shadow', '0.5em 0.25em'), ('margin', '0.5em 0.25em'),
                       ('border-spacing', '0.5px'), ('background-position', '0.5em 0.5em')]

    def oracle_spelling_roundtrip_paths(self, ctx):
        rng = self.rng(ctx, 'spell')
        cu = self.cu
        lines, exp = [], []
        for _ in range(ctx.n(1200, 20000)):
            name = rng.choice(self.names) if rng.random() < 0.93 else rng.choice(['x', 'colour'])
            v, kind = self.value_for(name, rng)
            if rng.random() < 0.1:
                name, v = rng.choice(self.FUNCTION_VALUES)
                kind = 'function'
            v = ' '.join(v.split())
            if not safe_value(v) or not v:
                continue
            ff = rng.random() < 0.15
            wrap = '@font-face{%s}' if ff else 'a{%s}'
            prio = rng.choice(['', '', '', '!important'])
            base = None
            spellings = [(v, None)] + [(respell(v, rng), None) for _ in range(rng.randint(1, 3))]
            if has_function(v) and rng.random() < 0.6:
                outer = respell(v, rng)
                inner, done = inner_comments(outer, rng)
                if done:
                    spellings.append((inner, outer))
            for sp, sp_outer in spellings:
                nm = name if sp is v else spell_name(name, rng)
                css = wrap % ('%s:%s%s' % (nm, sp, prio))
                s = self.parse(css)
                ps = s.cssRules[0].style.getProperties(all=True) if s.cssRules.length and hasattr(s.cssRules[0], 'style') else []
                obs = [self.prop_obs(p) for p in ps]
                ctx.case(key=('spell', ff, name, sp, prio), nontrivial=bool(obs and obs[0][3]),
                         kind='spelling:%s' % kind, sample={'css': css, 'impl': obs})
                if base is None:
                    base = (css, obs)
                    # the same objects, verdict read under other serializer preferences
                    for label, setting in self.PREF_SETTINGS[1:]:
                        with self.prefs(setting):
                            with time_limit(10):
                                v2 = [bool(p.valid) for p in ps]
                        if v2 != [o[3] for o in obs]:
                            ctx.violate('the verdict does not depend on the serializer preferences in effect when '
                                        '`valid` is read', {'css': css, 'preferences': label},
                                        {'default': [o[3] for o in obs], label: v2})
                            break
                elif obs != base[1]:
                    known = None
                    if sp_outer is not None:
                        # region of C13-comment-inside-function: the only difference to a spelling that agrees
                        # with the base is the comments between function arguments
                        s0 = self.parse(wrap % ('%s:%s%s' % (nm, sp_outer, prio)))
                        ps0 = s0.cssRules[0].style.getProperties(all=True) \
                            if s0.cssRules.length and hasattr(s0.cssRules[0], 'style') else []
                        if [self.prop_obs(q) for q in ps0] == base[1]:
                            known = 'C13-comment-inside-function'
                    ctx.violate('the verdict and the value text (up to ASCII case) are the same for every spelling '
                                '(case, comments, whitespace) of a value and of the property name (case, escapes)',
                                {'css_a': base[0], 'css_b': css}, {'a': base[1], 'b': obs}, known=known)
                    if known is None:
                        break
                    continue
                if not ps:
                    continue
                p = ps[0]
                # round trip
                text = s.cssText.decode('utf-8') if isinstance(s.cssText, bytes) else s.cssText
                s2 = self.parse(text)
                ps2 = s2.cssRules[0].style.getProperties(all=True) if s2.cssRules.length and hasattr(s2.cssRules[0], 'style') else []
                obs2 = [self.prop_obs(q) for q in ps2]
                if obs2 != obs:
                    ctx.violate('the verdict is the same before and after a serialise/reparse round trip',
                                {'css': css, 'serialised': text}, {'before': obs, 'after': obs2})
                    break
                # model on what the implementation stores
                lines.append('prop N %d %s %s %s' % (ff, enc(p.name), enc(p.value), enc(p.priority)))
                exp.append((css, 'ok %d' % p.valid))
            # creation paths (ordinary context; same source text for name/value/priority)
            if base is None or not base[1] or ff:
                continue
            want = base[1][0]
            pr = 'important' if prio else ''
            paths = {}
            nm = spell_name(name, rng)          # the name as the caller writes it: case and simple escapes
            try:
                with time_limit(10):
                    p1 = cu.css.Property(nm, v, pr)
                    paths['Property()'] = self.prop_obs(p1) if p1.wellformed else None
                    st = cu.css.CSSStyleDeclaration()
                    st.setProperty(nm, v, pr)
                    paths['setProperty'] = [self.prop_obs(q) for q in st.getProperties(all=True)]
                    st2 = cu.css.CSSStyleDeclaration()
                    st2.cssText = '%s:%s%s' % (nm, v, prio)
                    paths['style.cssText'] = [self.prop_obs(q) for q in st2.getProperties(all=True)]
                    st3 = cu.parseStyle('%s:%s%s' % (nm, v, prio))
                    paths['parseStyle'] = [self.prop_obs(q) for q in st3.getProperties(all=True)]
                    st4 = cu.css.CSSStyleDeclaration()
                    st4[nm] = (v, pr) if pr else v
                    paths['style[name]='] = [self.prop_obs(q) for q in st4.getProperties(all=True)]
                    rule = cu.css.CSSStyleRule(selectorText='a')
                    rule.style.setProperty(nm, v, pr)
                    sh = cu.css.CSSStyleSheet()
                    sh.add(rule)
                    paths['rule in sheet'] = [self.prop_obs(q) for q in rule.style.getProperties(all=True)]
            except TimeLimit:
                raise
            except Exception as e:          # a path that raises is C01/C11 territory, not a verdict difference
                ctx.count('creation-path-exception:' + type(e).__name__)
                continue
            for k, o in paths.items():
                o1 = o[0] if isinstance(o, list) and o else o
                ctx.case(key=('path', k, name, v, prio), nontrivial=bool(want[3]), kind='path:' + k)
                if o1 != want:
                    ctx.violate('the verdict does not depend on how the property came to exist '
                                '(parsed, constructed, set through the DOM)',
                                {'name': nm, 'value': v, 'priority': prio, 'path': k},
                                {'parsed': want, k: o1})
                    break
        self.compare(ctx, 'Property.valid of parsed spellings', lines, exp)

    # -- oracle: every number form of the grammar, directly and through the DOM, under serializer preferences ----
    PREF_SETTINGS = [('defaults', {}), ('omitLeadingZero', {'omitLeadingZero': True}), ('useMinified()', 'minified'),
                     ('no spacers', {'listItemSpacer': '', 'propertyNameSpacer': '', 'omitLeadingZero': True,
                                     'minimizeColorHash': False, 'keepComments': False})]
    MAGNITUDES = ['0', '1', '7', '10', '007', '100', '.5', '0.5', '0.50', '00.5', '.25', '1.5', '1.50', '01.5', '.0',
                  '0.0', '2.0', '10.00', '3.14159', '.999', '12.75']
    BAD_MAGNITUDES = ['5.', '.', '1..2', '1.5.5', '1e3', '1,5', '. 5']
    NUM_RE = r'[+-]?(?:[0-9]+|[0-9]*\.[0-9]+)'

    def typed_member(self, types, kws, v):
        """independent CSS 2.1 reading (4.3.1-4.3.3) of a single number / integer / length / percentage / keyword"""
        f = self.fold(v)
        if f in kws:
            return True
        t = types.upper()
        if 'N' in t and re.fullmatch(self.NUM_RE, f):
            return True
        if 'I' in t and re.fullmatch(r'[+-]?[0-9]+', f):
            return True
        if 'P' in t and re.fullmatch(self.NUM_RE + '%', f):
            return True
        if 'L' in t and (re.fullmatch(self.NUM_RE + '(?:%s)' % '|'.join(UNITS), f)
                         or re.fullmatch(r'[+-]?(?:0+|0*\.0+)', f)):
            return True
        return False

    def number_known(self, name, types, v, expected, direct):
        f = self.fold(v)
        k = self.grammar_known(name, v, expected)
        if k:
            return k
        # (the former finding C13-unitless-zero-direct is fixed by 61cd342: no region left)
        if not direct and not expected and 'L' not in types.upper() \
                and re.fullmatch(r'[+-]?(?:0+|0*\.0+)(?:%s)' % '|'.join(UNITS), f):
            return 'C13-normalised-number-forms'
        if not direct and not expected and 'I' in types.upper() and 'N' not in types.upper() \
                and 'L' not in types.upper() and re.fullmatch(r'[+-]?[0-9]*\.0+', f):
            return 'C13-normalised-number-forms'
        return None

    def oracle_numbers_prefs(self, ctx):
        rng = self.rng(ctx, 'numbers')
        cu, P = self.cu, self.P
        typed = {n: tk for n, tk in SINGLE_TYPE.items() if set(tk[0].upper()) & set('LPNI') and 'C' not in tk[0]
                 and 'U' not in tk[0] and n != 'font-size'}
        typed['opacity'] = ('N', ['inherit'])                       # CSS3 Color: <number> | inherit
        lines, exp = [], []
        full = {'width', 'line-height', 'orphans', 'opacity', 'text-indent', 'letter-spacing'}
        for name, (types, kws) in sorted(typed.items()):
            forms = []
            for mag in self.MAGNITUDES + self.BAD_MAGNITUDES:
                for sign in ('', '-', '+'):
                    for suffix in [''] + ['%'] + [rng.choice(UNITS), rng.choice(UNITS).upper()]:
                        forms.append(sign + mag + suffix)
            if name not in full:
                forms = rng.sample(forms, ctx.n(14, 120))
            else:
                forms = rng.sample(forms, ctx.n(90, len(forms)))
            # strings drawn from the translated pattern(s) of the property: whatever the registry accepts has to
            # be in the CSS 2.1 grammar (judged by the independent reading; concrete input when a table grows)
            for ast_ in self.by_name.get(name, []):
                for _ in range(ctx.n(12, 150)):
                    v = sample(ast_, rng)
                    if v and v not in forms and len(v) < 40:
                        forms.append(v)
            for v in forms:
                expected = self.typed_member(types, kws, v)
                w = {'property': name, 'value': v}
                # (a) the registry asked directly
                with time_limit(10):
                    d1 = bool(P.validate(name, v))
                    d2 = P.validateWithProfile(name, v)[:2]
                ctx.case(key=('num-direct', name, v), nontrivial=expected, kind='numbers:direct:%s' % expected,
                         sample={'validate': [name, v], 'css21': expected, 'impl': d1})
                if d1 != expected or d2 != (expected, expected):
                    ctx.violate('for single-type properties the verdict agrees with the CSS 2.1 grammar of numbers, '
                                'lengths and percentages (cssutils.profile.validate called directly)',
                                dict(w, call='cssutils.profile.validate'),
                                {'validate': d1, 'validateWithProfile': list(d2), 'css21_grammar_member': expected},
                                known=self.number_known(name, types, v, expected, True))
                # (b) parsed and constructed; the verdict read under several serializer preferences
                if not safe_value(v) or ' ' in v:
                    continue
                s = self.parse('a{%s:%s}' % (name, v))
                ps = s.cssRules[0].style.getProperties(all=True) if s.cssRules.length else []
                objs = [('parsed', ps[0] if ps else None, s)]
                try:
                    with time_limit(10):
                        pc = cu.css.Property(name, v)
                    objs.append(('Property()', pc if pc.wellformed else None, None))
                except TimeLimit:
                    raise
                except Exception:
                    objs.append(('Property()', None, None))
                for how, p, sheet in objs:
                    seen = []
                    for label, setting in self.PREF_SETTINGS:
                        with self.prefs(setting):
                            with time_limit(10):
                                got = bool(p.valid) if p is not None else False
                                vt = p.value if p is not None else None
                                sv = bool(sheet.valid) if sheet is not None and p is not None else got
                        seen.append((label, got, sv, vt))
                        ctx.case(key=('num', how, label, name, v), nontrivial=expected,
                                 kind='numbers:%s:%s' % (how, label))
                        if p is not None:
                            lines.append('prop N 0 %s %s %s' % (enc(p.name), enc(vt), enc(p.priority)))
                            exp.append((name, v, how, label, 'ok %d' % got))
                    verdicts = {(g, sv) for _, g, sv, _ in seen}
                    if len(verdicts) > 1:
                        ctx.violate('the verdict does not depend on the serializer preferences in effect when '
                                    '`valid` is read', dict(w, how=how, css='a{%s:%s}' % (name, v)),
                                    {'by_preferences': [list(x) for x in seen], 'css21_grammar_member': expected})
                    elif p is not None and seen[0][1] != expected:
                        ctx.violate('for single-type properties the verdict agrees with the CSS 2.1 grammar of '
                                    'numbers, lengths and percentages, for every spelling of the number',
                                    dict(w, how=how, css='a{%s:%s}' % (name, v)),
                                    {'valid': seen[0][1], 'value_text': seen[0][3], 'css21_grammar_member': expected},
                                    known=self.number_known(name, types, v, expected, False))
        self.compare(ctx, 'Property.valid under serializer preferences', lines, exp)

    # -- oracle: Property objects handed from one block to another --------------------------------------
    CONTEXTS = {'style': 'a{color:red}', 'fontface': '@font-face{font-family:x;src:url(x)}'}

    def oracle_moved_properties(self, ctx):
        """a Property object created stand-alone, in a detached declaration, in a style rule or in @font-face and
        then given to another block with setProperty(prop): its verdict there is the verdict of the same
        declaration parsed in that place, and survives serialise -> reparse"""
        rng = self.rng(ctx, 'moved')
        cu = self.cu
        ffnames = ['font-style', 'font-weight', 'font-stretch', 'font-family', 'src', 'unicode-range']
        for _ in range(ctx.n(260, 5000)):
            r = rng.random()
            name = rng.choice(ffnames) if r < 0.6 else rng.choice(self.names)
            v, kind = self.value_for(name, rng, own=0.8)
            v = ' '.join(v.split())
            if not v or not safe_value(v):
                v = rng.choice(['inherit', 'normal', 'bold', 'bolder', 'wider', 'condensed', 'x', '400'])
            src = rng.choice(['standalone', 'declaration', 'style', 'fontface'])
            dst = rng.choice([d for d in ('style', 'fontface') if d != src])
            replace = rng.random() < 0.8
            w = {'move': [src, dst], 'name': name, 'value': v, 'replace': replace}
            try:
                obs = self.move_case(src, dst, name, v, replace)
            except TimeLimit:
                raise
            except Exception as e:
                ctx.count('moved-exception:' + type(e).__name__)
                continue
            if obs is None:
                continue
            moved, after, fresh, text = obs
            ctx.case(key=('moved', src, dst, name, v, replace), nontrivial=moved[0] is True or fresh[0] is True,
                     kind='moved:%s>%s' % (src, dst), sample={'move': w, 'impl': moved})
            if moved != after:
                ctx.violate('the verdict is the same before and after a serialise/reparse round trip, however the '
                            'property came to exist (Property object handed to another block)',
                            w, {'(declaration, rule, sheet).valid': moved, 'after_reparse': after, 'serialised': text})
            elif fresh[0] is not None and moved != fresh:      # (a declaration the parser drops is C02's subject)
                ctx.violate('the verdict does not depend on how the property came to exist '
                            '(Property object handed to another block vs. the same declaration parsed there)',
                            w, {'(declaration, rule, sheet).valid': moved, 'parsed_in_place': fresh})

    def move_case(self, src, dst, name, v, replace):
        cu = self.cu
        with time_limit(20):
            if src == 'standalone':
                p = cu.css.Property(name, v)
            else:
                if src == 'declaration':
                    st = cu.css.CSSStyleDeclaration()
                else:
                    st = cu.parseString(self.CONTEXTS[src]).cssRules[0].style
                st.setProperty(name, v)
                p = st.getProperty(name)
                if p is None:
                    return None
                st.removeProperty(name)
            if not p.wellformed:
                return None
            sheet = cu.parseString(self.CONTEXTS[dst])
            style = sheet.cssRules[0].style
            had = style.getProperty(name) is not None
            style.setProperty(p, replace=replace)

            def observe(sh):
                rule = sh.cssRules[0]
                q = rule.style.getProperty(name)
                return (None if q is None else bool(q.valid), bool(rule.valid), bool(sh.valid),
                        [bool(x.valid) for x in rule.style.getProperties(all=True)])
            moved = observe(sheet)
            text = sheet.cssText
            text = text.decode('utf-8') if isinstance(text, bytes) else text
            after = observe(cu.parseString(text))
            # the same declaration written into the source text of the destination
            body = self.CONTEXTS[dst]
            if had and replace:
                fresh = after           # an existing entry was updated in place: compared with the round trip only
            else:
                fresh = observe(cu.parseString(body[:-1] + ';%s: %s\n}' % (name, v)))
        return moved, after, fresh, text

    # -- oracle: CSS 2.1 reference grammars ------------------------------------------------------------
    def grammar_known(self, name, value_src, expected):
        """region predicates of the table-level known findings; value_src = the source text of the value"""
        f = self.fold(' '.join(value_src.split()))
        if name == 'display' and f == 'run-in' and not expected:
            return 'C13-display-run-in'
        # (single numbers / lengths / percentages / integers with a leading '+' are accepted since 7275f27; what is left of
        # the region: `opacity`, whose pattern is the token macro {num}, pinned by test_profiles)
        if expected and name == 'opacity' and re.fullmatch(r'\+[0-9.]+', f):
            return 'C13-plus-sign'
        if expected and re.fullmatch(r'rgb\(.*\)', f) and '+' in f:
            return 'C13-plus-sign'
        if expected and f in [self.fold(c) for c in CSS21_SYSTEM_COLORS]:
            return 'C13-system-colors'
        return None

    def oracle_grammar(self, ctx):
        rng = self.rng(ctx, 'grammar')
        cases = []
        # keyword lists: every keyword of every list against every keyword-list property (exhaustive), in 2 cases
        allkw = sorted({k for ks in self.kwspec.values() for k in ks} | {'run-in', 'auto', 'normal', 'x', 'red'})
        for name, kws in sorted(self.kwspec.items()):
            for k in allkw:
                cases.append((name, k, k in kws, 'kw'))
                cases.append((name, k.upper() if rng.random() < 0.5 else k.title(), k in kws, 'kw-case'))
            extended = sum(1 for _, _, n, _ in self.entries if n == name) > 1   # e.g. overflow in CSS3 Box
            for k in kws:
                m = mutate(k, rng)
                if extended and len(m.split()) > 1:
                    continue
                cases.append((name, m, None, 'kw-nearmiss'))
        # candidates enumerated from the translated pattern itself: every word of its finite language (and of the
        # other patterns registered under the name) that the reference list does not have, every reference keyword
        # the pattern does not have, and recombinations of the segments of the pattern's words
        for name, kws in sorted(self.kwspec.items()):
            pool = set()
            for ast_ in self.by_name.get(name, []):
                w = c13_profiles.words(c13_profiles.body_of(c13_profiles.freeze(ast_)))
                if w is not None:
                    pool |= {''.join(chr(c) for c in x) for x in w}
            segs = sorted({p for k in pool | set(kws) for p in k.split('-')})
            heads = sorted({k.split('-')[0] for k in pool | set(kws) if '-' in k})
            recomb = {h + '-' + t for h in heads for t in segs if t != h}
            for k in sorted((pool ^ set(kws)) | (pool - set(kws))):
                cases.append((name, k, k in kws, 'kw-pattern-word'))
            for k in sorted(recomb - set(kws)):
                cases.append((name, k, False, 'kw-recombination'))
        # single-type properties
        for name, (types, kws) in sorted(SINGLE_TYPE.items()):
            for k in ALL_KEYWORDS:
                member = k in kws or ('C' in types and k in CSS21_COLORS)
                if 'C' in types and not member:
                    continue            # CSS3 colour names (all profiles are active) are not judged here
                cases.append((name, k, member, 'st-kw'))
            for _ in range(ctx.n(20, 120)):
                t = rng.choice(types)
                cases.append((name, gen_typed(t, rng), True, 'st-member:' + t))
            for _ in range(ctx.n(6, 60)):
                v = gen_nonmember(types, rng)
                if 'C' in types and re.match(r'rgb|#|[a-z]+$', v):
                    if v not in ('#abcde', 'rgb(1,2)', 'rgb(1.5,2,3)', 'rgb(1,2%,3)', 'foo', 'url', 'px'):
                        continue
                cases.append((name, v, False, 'st-nonmember'))
        for name, v, expected, kind in cases:
            if not safe_value(v) or not v.strip():
                continue
            css = 'a{%s:%s}' % (name, v)
            s = self.parse(css)
            ps = s.cssRules[0].style.getProperties(all=True) if s.cssRules.length else []
            if expected is None:
                f = self.fold(' '.join(v.split()))
                expected = f in self.kwspec[name]
            if not ps:
                # not wellformed: dropped by the parser, nothing is reported valid
                got = False
                if expected:
                    ctx.count('grammar-member-dropped-by-parser')
                    continue
            else:
                got = bool(ps[0].valid)
            ctx.case(key=('grammar', name, v), nontrivial=expected, kind='grammar:%s:%s' % (kind.split(':')[0], expected),
                     sample={'css': css, 'css21': expected, 'impl': got})
            if got != expected:
                ctx.violate('for keyword-list and single-type properties the verdict agrees with the CSS 2.1 grammar',
                            {'css': css, 'property': name, 'value': v},
                            {'valid': got, 'css21_grammar_member': expected,
                             'value_text': ps[0].value if ps else None},
                            known=self.grammar_known(name, v, expected))

    # -- oracle: validation only annotates -------------------------------------------------------------
    def dom_projection(self, sheet):
        out = []

        def walk(rule):
            if hasattr(rule, 'style') and rule.style is not None:
                out.append((rule.typeString, [(type(i.value).__name__,
                                               (i.value.literalname, i.value.propertyValue.cssText,
                                                i.value.literalpriority, i.value.wellformed)
                                               if hasattr(i.value, 'literalname') else getattr(i.value, 'cssText', None))
                                              for i in rule.style.seq]))
            else:
                out.append((rule.typeString, getattr(rule, 'cssText', None)))
            if hasattr(rule, 'cssRules') and rule.type in (rule.MEDIA_RULE, rule.PAGE_RULE):
                for r in rule.cssRules:
                    walk(r)
        for r in sheet.cssRules:
            walk(r)
        return out

    def oracle_annotates(self, ctx):
        rng = self.rng(ctx, 'annot')
        cu = self.cu
        for _ in range(ctx.n(400, 8000)):
            css = self.gen_sheet(rng)
            variants = {}
            with time_limit(20):
                variants['parseString(validate=True)'] = cu.parseString(css, validate=True)
                variants['parseString(validate=False)'] = cu.parseString(css, validate=False)
                variants['CSSParser(validate=False)'] = cu.CSSParser(validate=False).parseString(css)
                variants['CSSParser(validate=True).parseString(validate=False)'] = \
                    cu.CSSParser(validate=True).parseString(css, validate=False)
                sh = cu.css.CSSStyleSheet(validating=False)
                sh.cssText = css
                variants['CSSStyleSheet(validating=False).cssText='] = sh
                sh2 = cu.css.CSSStyleSheet(validating=True)
                sh2.cssText = css
                variants['CSSStyleSheet(validating=True).cssText='] = sh2
            base = None
            for k, s in variants.items():
                obs = (s.cssText, self.dom_projection(s))
                ctx.case(key=('annot', k, css), nontrivial=True, kind='annotates:sheet')
                if base is None:
                    base = (k, obs)
                elif obs != base[1]:
                    ctx.violate('with validation on or off the stored and serialised content is identical',
                                {'css': css, 'a': base[0], 'b': k},
                                {'a': repr(base[1])[:600], 'b': repr(obs)[:600]})
                    break
            flags = [variants[k].validating for k in variants]
            if flags != [True, False, False, False, False, True]:
                ctx.violate('the validating flag is what was asked for', {'css': css}, {'flags': flags})
            # declaration level
            block = self.gen_block(rng)
            with time_limit(20):
                d = {'parseStyle(validate=True)': cu.parseStyle(block, validate=True),
                     'parseStyle(validate=False)': cu.parseStyle(block, validate=False),
                     'CSSStyleDeclaration(validating=False)': cu.css.CSSStyleDeclaration(block, validating=False),
                     'CSSStyleDeclaration()': cu.css.CSSStyleDeclaration(block)}
                d2 = cu.css.CSSStyleDeclaration(validating=False)
                for p in d['CSSStyleDeclaration()'].getProperties(all=True):
                    d2.setProperty(p.literalname, p.propertyValue.cssText, p.priority, replace=False)
            base = None
            for k, st in d.items():
                obs = (st.cssText, [(p.literalname, p.propertyValue.cssText, p.literalpriority)
                                    for p in st.getProperties(all=True)])
                ctx.case(key=('annot-decl', k, block), nontrivial=True, kind='annotates:declaration')
                if base is None:
                    base = (k, obs)
                elif obs != base[1]:
                    ctx.violate('with validation on or off the stored and serialised content is identical',
                                {'block': block, 'a': base[0], 'b': k}, {'a': base[1], 'b': obs})
                    break
            # the verdict itself does not depend on the flag either
            va = [p.valid for p in d['parseStyle(validate=True)'].getProperties(all=True)]
            vb = [p.valid for p in d['parseStyle(validate=False)'].getProperties(all=True)]
            if va != vb:
                ctx.violate('Property.valid does not depend on the validating flag', {'block': block},
                            {'on': va, 'off': vb})
            # model: flag resolution
        lines, exp = [], []
        for sflag in (None, True, False):
            for dflag in (None, True, False):
                with time_limit(10):
                    st = cu.css.CSSStyleDeclaration('color:red', validating=dflag)
                    if sflag is not None:
                        sh = cu.css.CSSStyleSheet(validating=sflag)
                        rule = cu.css.CSSStyleRule(selectorText='a', style=st)
                        sh.add(rule)
                        st = rule.style
                        if dflag is not None:
                            st.validating = dflag
                    got = '1' if st.validating else '0'
                want = sflag if sflag is not None else (dflag if dflag is not None else True)
                if got != str(int(want)):
                    ctx.violate('the validating flag is resolved sheet > declaration > default True',
                                {'sheet_flag': sflag, 'declaration_flag': dflag}, {'validating': got})
                f = lambda x: 'N' if x is None else str(int(x))     # noqa: E731
                lines.append('flag %s %s' % (f(sflag), f(dflag)))
                exp.append((sflag, dflag, got))
                ctx.case(key=('flag', sflag, dflag), nontrivial=True, kind='flag')
        self.compare(ctx, 'validating flag resolution', lines, exp)

    # -- validOnly: the one documented way in which validation reaches the output ------------------------
    def corr_valid_only(self, ctx):
        rng = self.rng(ctx, 'validonly')
        cu = self.cu
        lines, exp = [], []
        prefs = cu.ser.prefs
        for _ in range(ctx.n(300, 6000)):
            ff = rng.random() < 0.2
            block = self.gen_block(rng, ff)
            css = ('@font-face{%s}' if ff else 'a{%s}') % block
            s = self.parse(css)
            if not s.cssRules.length or not hasattr(s.cssRules[0], 'style'):
                continue
            props = s.cssRules[0].style.getProperties(all=True)
            valid = [bool(p.valid) for p in props]
            obs = [(p.name, self.fold(p.value), p.priority) for p in props]
            try:
                prefs.validOnly = True
                with time_limit(10):
                    text = s.cssText
            finally:
                prefs.validOnly = False
            text = text.decode('utf-8') if isinstance(text, bytes) else text
            s2 = self.parse(text)
            kept = []
            if s2.cssRules.length and hasattr(s2.cssRules[0], 'style'):
                kept = [(p.name, self.fold(p.value), p.priority) for p in s2.cssRules[0].style.getProperties(all=True)]
            want = [o for o, v in zip(obs, valid) if v]
            ctx.case(key=('validonly', css), nontrivial=not all(valid), kind='validOnly:%s' % ('all' if all(valid) else 'some'),
                     sample={'css': css, 'validOnly_output': text})
            if kept != want:
                ctx.violate('with validOnly the output holds exactly the valid declarations',
                            {'css': css}, {'output': text, 'kept': kept, 'valid_declarations': want})
            with time_limit(10):
                plain = s.cssText
            plain = plain.decode('utf-8') if isinstance(plain, bytes) else plain
            s3 = self.parse(plain)
            all3 = []
            if s3.cssRules.length and hasattr(s3.cssRules[0], 'style'):
                all3 = [(p.name, self.fold(p.value), p.priority) for p in s3.cssRules[0].style.getProperties(all=True)]
            if all3 != obs:
                ctx.violate('without validOnly every stored declaration is written, valid or not',
                            {'css': css}, {'output': plain, 'written': all3, 'stored': obs})
            if props:
                toks = ' '.join(self.decl_token(p) for p in props)
                lines.append('ser N %d 1 %s' % (ff, toks))
                exp.append((css, ''.join('1' if v else '0' for v in valid)))
                lines.append('ser N %d 0 %s' % (ff, toks))
                exp.append((css, '1' * len(props)))
        self.compare(ctx, 'validOnly guard of do_Property', lines, exp)

    # -- oracle: non-ASCII letters that re.I folds onto ASCII (implementation only) ---------------------
    def oracle_unicode_fold(self, ctx):
        """keywords with U+212A/U+017F/U+0131/U+0130 for k/s/i, integers and lengths with non-ASCII decimal digits:
        CSS 2.1 keywords are ASCII case-insensitive and numbers are ASCII digits, so none of these is a member"""
        rng = self.rng(ctx, 'ufold')
        sub = {'k': '\u212a', 's': '\u017f', 'i': '\u0131', 'I': '\u0130', 'K': '\u212a', 'S': '\u017f'}
        cases = []
        for name, kws in sorted(self.kwspec.items()):
            for k in kws:
                idx = [i for i, c in enumerate(k) if c in sub]
                if idx:
                    i = rng.choice(idx)
                    cases.append((name, k[:i] + sub[k[i]] + k[i + 1:]))
        for name, (types, kws) in sorted(SINGLE_TYPE.items()):
            for k in kws:
                idx = [i for i, c in enumerate(k) if c in sub]
                if idx:
                    i = rng.choice(idx)
                    cases.append((name, k[:i] + sub[k[i]] + k[i + 1:]))
            for t in types.upper():
                if t in 'LPNI':
                    d = rng.choice('\u0663\u0967\uff15')        # ARABIC-INDIC 3, DEVANAGARI 1, FULLWIDTH 5
                    cases.append((name, {'L': d + 'px', 'P': '1' + d + '%', 'N': d, 'I': '-' + d}[t]))
        rng.shuffle(cases)
        for name, v in cases[:ctx.n(80, 600)]:
            css = 'a{%s:%s}' % (name, v)
            s = self.parse(css)
            ps = s.cssRules[0].style.getProperties(all=True) if s.cssRules.length else []
            got = bool(ps and ps[0].valid)
            ctx.case(key=('ufold', name, v), nontrivial=True, kind='unicode-classes:%d' % got)
            if got:
                ctx.violate('for keyword-list and single-type properties the verdict agrees with the CSS 2.1 grammar '
                            '(keywords are ASCII case-insensitive, numbers are written with ASCII digits)',
                            {'css': css, 'property': name, 'value': v}, {'valid': True},
                            known=self.unicode_region(v))

    @staticmethod
    def unicode_region(v):
        """(the finding C13-unicode-regex-classes is fixed: the patterns are compiled with re.ASCII)"""
        return None

    # ------------------------------------------------------------------------------------------
    def known(self, ctx, finding):
        if not hasattr(self, 'cu'):
            self.setup(ctx)
        w = finding['witness']['data']
        if 'call' in w:
            return bool(self.P.validate(w['name'], w['value'])) != w['css21_grammar_member']
        if 'preferences' in w:
            s = self.parse(w['css'])
            ps = [p for r in s if hasattr(r, 'style') for p in r.style.getProperties(all=True)]
            base = [bool(p.valid) for p in ps]
            for label, setting in self.PREF_SETTINGS[1:]:
                with self.prefs(setting):
                    if [bool(p.valid) for p in ps] != base:
                        return True
            return False
        if 'css_a' in w:
            obs = []
            for k in ('css_a', 'css_b'):
                s = self.parse(w[k])
                obs.append([self.prop_obs(p) for p in s.cssRules[0].style.getProperties(all=True)])
            return obs[0] != obs[1]
        if 'css' in w and finding['id'].startswith('C13-valid'):
            s = self.parse(w['css'])
            props = []
            for r in s.cssRules:
                props += self.all_props(r)
            return bool(s.valid) and not all(p.valid for _, p, _ in props)
        if 'css' in w:
            s = self.parse(w['css'])
            ps = s.cssRules[0].style.getProperties(all=True)
            return bool(ps[0].valid) != w['css21_grammar_member']
        return True

    def replay(self, ctx, data):
        self.setup(ctx)
        w = data.get('witness') or {}
        det = data.get('detail') or {}
        clause = data.get('clause') or ''
        if data.get('kind') != 'impl-violates':
            self.run(ctx)
        elif self.vt_replay(ctx, clause, w):
            pass
        elif 'move' in w:
            obs = self.move_case(w['move'][0], w['move'][1], w['name'], w['value'], w.get('replace', True))
            if obs is not None and (obs[0] != obs[1] or (obs[2][0] is not None and obs[0] != obs[2])):
                ctx.violate(clause, w, {'moved': obs[0], 'after_reparse': obs[1], 'parsed_in_place': obs[2]})
        elif w.get('call') == 'cssutils.profile.validate':
            got = bool(self.P.validate(w['property'], w['value']))
            if got != det.get('css21_grammar_member'):
                ctx.violate(clause, w, {'validate': got})
        elif 'how' in w and 'css' in w:
            s = self.parse(w['css'])
            ps = s.cssRules[0].style.getProperties(all=True) if s.cssRules.length else []
            p = ps[0] if ps else None
            if w['how'] == 'Property()':
                p = self.cu.css.Property(w['property'], w['value'])
                p = p if p.wellformed else None
            seen = []
            for label, setting in self.PREF_SETTINGS:
                with self.prefs(setting):
                    seen.append((label, bool(p.valid) if p is not None else False, p.value if p is not None else None))
            if len({g for _, g, _ in seen}) > 1 or seen[0][1] != det.get('css21_grammar_member', seen[0][1]):
                ctx.violate(clause, w, {'by_preferences': [list(x) for x in seen]})
        elif 'preferences' in w:
            s = self.parse(w['css'])
            ps = [p for r in s if hasattr(r, 'style') for p in r.style.getProperties(all=True)]
            base = [bool(p.valid) for p in ps]
            for label, setting in self.PREF_SETTINGS[1:]:
                with self.prefs(setting):
                    v2 = [bool(p.valid) for p in ps]
                if v2 != base:
                    ctx.violate(clause, w, {'default': base, label: v2})
                    break
        elif 'css_a' in w:
            a = self.parse(w['css_a'])
            b = self.parse(w['css_b'])
            oa = [self.prop_obs(p) for p in a.cssRules[0].style.getProperties(all=True)] if a.cssRules.length else []
            ob = [self.prop_obs(p) for p in b.cssRules[0].style.getProperties(all=True)] if b.cssRules.length else []
            if oa != ob:
                ctx.violate(clause, w, {'a': oa, 'b': ob})
        elif 'css' in w and 'css21_grammar_member' in det:
            s = self.parse(w['css'])
            ps = s.cssRules[0].style.getProperties(all=True) if s.cssRules.length else []
            if bool(ps and ps[0].valid) != det['css21_grammar_member']:
                ctx.violate(clause, w, {'valid': bool(ps and ps[0].valid)})
        elif 'css' in w and 'serialised' in w:
            s = self.parse(w['css'])
            text = s.cssText.decode('utf-8') if isinstance(s.cssText, bytes) else s.cssText
            s2 = self.parse(text)
            o1 = [self.prop_obs(p) for r in s if hasattr(r, 'style') for p in r.style.getProperties(all=True)]
            o2 = [self.prop_obs(p) for r in s2 if hasattr(r, 'style') for p in r.style.getProperties(all=True)]
            if o1 != o2:
                ctx.violate(clause, w, {'before': o1, 'after': o2})
        elif 'css' in w and not any(k in w for k in ('a', 'b', 'path')):
            for c2, w2, d2, k2 in self.analyse_sheet(w['css'])[3]:
                if k2 is None:
                    ctx.violate(c2, w2, d2)
        else:
            self.run(ctx)


CHECK = C13()
