"""C14 — the profile registry's verdicts depend on its contents, not its history.

model: lean/CssVerif/Model/Profiles.lean (class Profiles of cssutils/profiles.py, statement by statement);
theorems: lean/CssVerif/Props/C14.lean; tables: lean/CssVerif/Gen/C14Profiles.lean (tools/gen/c14_profiles.py).

correspondence: generated histories of addProfile / addProfiles / removeProfile / removeProfile(all) /
defaultProfiles assignments run on a private `Profiles(log=...)` instance and on the model driver; after EVERY
operation: exception class, `profiles`, `knownNames`, `defaultProfiles`, `propertiesByProfile()`, the expanded
pattern of every (profile, property) [length + hash; full text for the battery's property names], and the
verdict vectors `validate` / `validateWithProfile` of a fixed battery, where the model's regex acceptance is
Python `re` evaluated on the MODEL's expanded pattern strings.

oracle (implementation only, independent of the model): (O1) add-then-remove of a fresh profile in any
interleaving leaves the registry observably equal to a twin that never saw it; (O2) the registry reached by any
history behaves like a canonical registry built from the same contents; (O3) valid iff some registered profile
that defines the property accepts; (O4) defaultProfiles changes `matching`/reported profile only; (O5) removing
an unknown profile raises NoSuchProfileException and changes nothing; (O6) remove-all then re-adding the
built-ins in the original order restores a fresh `Profiles()`; (O7) any mutator that raises (undefined macro,
cyclic macro, unknown profile) leaves the registry unchanged; (O8) for a macro set without a cycle
`_expand_macros` ends within the rank bound, leaves no placeholder, and returns a text when every macro is defined;
(O9) no built-in macro lies on a cycle (else `addProfile` with a definition that names it does not return).

wave 3 streams: termination (`phs`, `acyc`, `passes` against re.findall, an independent cycle search and the pass
count of the real loop) and `spec` (the model's `specReg` on independently tracked contents against the
implementation's observables after a history).
"""
import copy
import json
import os
import re

from lib.framework import Check, enc, time_limit, TimeLimit

from gen import c14_profiles

MOD = 2147483647
_hash_cache = {}


def poly_hash(s):
    h = _hash_cache.get(s)
    if h is None:
        h = 7
        for ch in s:
            h = (h * 1000003 + ord(ch) + 1) % MOD
        _hash_cache[s] = h
    return h


# ----------------------------------------------------------------------------------------------
# callables usable as property definitions (id -> function)
def _f0(v):
    return v == 'ok'


def _f1(v):
    return int(v) > 0          # raises on non-numbers


def _f2(v):
    return True


FNS = [_f0, _f1, _f2]

BATTERY_SPEC = {
    'color': ['red', 'aliceblue', 'rgba(1,1,1,1)', 'inherit', 'foo', 'q', 'z', 'RED', 'currentcolor', 'XXX', '#fff'],
    'x': ['a', 'b', 'q', 'z', 'zz', 'foo', 'red', 'aliceblue', '1px', '5', '-1', 'ok', '', 'x', 'a b', 'auto'],
    'y': ['a', 'q', 'z', 'foo', 'red', '1px', '5', 'ok', 'x', '10%', 'serif', 'solid', 'aliceblue', 'currentcolor'],
    '-test-a': ['a', 'b', 'q', 'zz', 'foo', '5', 'ok', 'hidden', 'none'],
    'font-family': ['serif', 'foo', 'a b', 'inherit', 'x', '5'],
    'overflow': ['hidden', 'q', 'a', 'hidden hidden', 'inherit', 'visible'],
    'width': ['1px', 'auto', '5', '10%', '5q', 'q'],
    'margin': ['1px', 'auto', '1px 1px', 'z', '5'],
    'opacity': ['5', '-1', 'inherit', 'q'],
    'nosuchprop': ['a'],
    'border-top-style': ['solid', 'none', 'q', 'inherit'],
}
BAT_NAMES = list(BATTERY_SPEC)
BATTERY = [(n, v) for n in BAT_NAMES for v in BATTERY_SPEC[n]]
VALUES = sorted(set(v for _, v in BATTERY))

CUSTOM_NAMES = ['X', 'Y', 'Z', 'W']
PROP_NAMES = ['x', 'y', 'color', 'font-family', 'overflow', 'width', '-test-a', 'margin']
PATTERNS = ['a|b', '{color}', '{length}|auto', '{m1}', '{m1}{w}{m2}?', '{ident}', '{num}{w}', 'q{1,2}',
            '{x11color}|none', '{family-name}', '{overflow}', '{m2}|{percentage}', '({m1})+', '{border-style}',
            '{namedcolor}', 'foo', '{m3}', '{m3}|{m1}', '{int}', 'z{w}z', '{color}|{m2}', '{hexcolor}|x']
ODD_PATTERNS = ['{', '}', '{{color}}', '{Color}', '{color', 'color}', '{1a}', 'a{2}', '{a b}', '{-a}', '{m1}{',
                '{{m1}', '{m1}}', '{m-1}', '{}', '{m1x}|a', 'é|{m1}', '(', '{m1}{m1}{m1}', '{{}', '{a{m1}']
# macro keys by rank: a body may only mention keys of strictly higher rank (keeps the generated macro sets acyclic)
MACRO_RANK = ['m1', 'm2', 'm3', 'color', 'namedcolor', 'x11color', 'length', 'percentage', 'family-name', 'overflow',
              'border-style', 'ident', 'num', 'int', 'w']
MACRO_BODIES = {
    'm1': ['a', 'q|z', '{m2}|b', '{m3}', 'foo', '{num}px', '{color}', '{m2}{w}{m3}', '[a-c]'],
    'm2': ['z', 'z+', '{m3}', '{length}', 'b|{namedcolor}', 'q'],
    'm3': ['q', 'foo|{ident}', '{w}x', '{percentage}', 'zz'],
    'color': ['foo', '{namedcolor}|{hexcolor}', 'XXX', '{x11color}', 'red|q'],
    'namedcolor': ['(red|q)', 'z', '(currentcolor|red)'],
    'x11color': ['aliceblue|zz', 'q'],
    'length': ['0|{num}(px|q)', 'auto', '{num}px'],
    'percentage': ['{num}%', 'z'],
    'family-name': ['{ident}', 'serif|{ident}', 'foo'],
    'overflow': ['visible|hidden', 'q', 'a|b'],
    'border-style': ['solid|q', 'none'],
    'ident': ['[a-z]+', 'x', '[-]?{nmstart}{nmchar}*'],
    'num': ['[0-9]+', r'[-]?\d+', '5'],
    'int': [r'\d', '[-]?{num}'],
    'w': [r'\s*', ' ?', ''],
}


PH = re.compile(r'{([a-z][a-z0-9-]*)}')



# ----------------------------------------------------------------------------------------------
# termination of `_expand_macros` (T14.6): independent Python renderings of the notions of Model/MacroRank.lean
class TooManyPasses(Exception):
    pass


class CountingRe:
    """stands in for the module `re` inside cssutils.profiles while one `_expand_macros` call runs: counts the
    `re.sub` passes of the real loop and stops it after `cap` passes (the model's fuel)"""

    def __init__(self, real, cap):
        self.real, self.cap, self.passes = real, cap, 0

    def sub(self, *a, **k):
        self.passes += 1
        if self.passes > self.cap:
            raise TooManyPasses()
        return self.real.sub(*a, **k)

    def __getattr__(self, name):
        return getattr(self.real, name)


def py_acyclic(m):
    """no cycle among the defined macros (depth-first search, three colours)"""
    colour = {}

    def visit(k):
        stack = [(k, iter(PH.findall(m[k])))]
        colour[k] = 1
        while stack:
            node, it = stack[-1]
            for n in it:
                if n not in m:
                    continue
                c = colour.get(n, 0)
                if c == 1:
                    return False
                if c == 0:
                    colour[n] = 1
                    stack.append((n, iter(PH.findall(m[n]))))
                    break
            else:
                colour[node] = 2
                stack.pop()
        return True
    return all(colour.get(k, 0) == 2 or visit(k) for k in m)


def py_closed(m):
    return all(n in m for b in m.values() for n in PH.findall(b))


def py_rank(m, k, memo):
    if k not in m:
        return 0
    if k not in memo:
        memo[k] = max([py_rank(m, n, memo) + 1 for n in PH.findall(m[k])] or [0])
    return memo[k]


def py_depth(m, v):
    memo = {}
    return max([py_rank(m, n, memo) + 1 for n in PH.findall(v)] or [0])


def exc_name(e):
    return type(e).__name__


# ----------------------------------------------------------------------------------------------
# protocol encoding
def enc_props(props):
    if not props:
        return 'E'
    out = []
    for k, v in props.items():
        if isinstance(v, str):
            out.append('%s=P%s' % (enc(k), enc(v)))
        else:
            out.append('%s=F%d' % (enc(k), v[1]))
    return ','.join(out)


def enc_macros(m):
    if m is None:
        return 'N'
    if not m:
        return 'E'
    return ','.join('%s=%s' % (enc(k), enc(v)) for k, v in m.items())


def enc_names(d):
    if d is None:
        return 'N'
    if isinstance(d, str):
        d = [d]
    if not d:
        return 'L'
    return 'L:' + ','.join(enc(x) for x in d)


def dec_list(w):
    if w == '_':
        return []
    return [''.join(chr(int(x, 16)) for x in p.split('.')) if p != '-' else '' for p in w.split(',')]


def op_line(op):
    k = op[0]
    if k == 'add':
        return 'add %s %s %s' % (enc(op[1]), enc_props(op[2]), enc_macros(op[3]))
    if k == 'addps':
        return 'addps ' + ' '.join('%s %s %s' % (enc(n), enc_props(p), enc_macros(m)) for n, p, m in op[1])
    if k == 'rm':
        return 'rm %s' % enc(op[1])
    if k == 'rmnone':
        return 'rmnone'
    if k == 'rmall':
        return 'rmall'
    if k == 'def':
        return 'def %s' % enc_names(op[1])
    if k == 'init':
        return 'init'
    raise ValueError(op)


def to_impl_props(props):
    return {k: (v if isinstance(v, str) else FNS[v[1]]) for k, v in props.items()}


# ----------------------------------------------------------------------------------------------
# implementation side
class QuietLog:
    """what Profiles needs of a log: `error(e, error=Exception)`; never raises, prints nothing
    (= cssutils.log with raiseExceptions off, which is the mode in which parsing validates)"""
    raiseExceptions = False

    def error(self, *a, **k):
        pass

    warn = info = debug = critical = fatal = error


class Impl:
    def __init__(self):
        import cssutils
        import cssutils.profiles as P
        self.cssutils = cssutils
        self.P = P

    def fresh(self):
        return self.P.Profiles(log=QuietLog())

    def apply(self, p, op):
        """run one operation; returns 'OK' or the exception class name"""
        k = op[0]
        try:
            with time_limit(1.0):
                if k == 'add':
                    p.addProfile(op[1], to_impl_props(op[2]), None if op[3] is None else dict(op[3]))
                elif k == 'addps':
                    p.addProfiles([(n, to_impl_props(ps), None if m is None else dict(m)) for n, ps, m in op[1]])
                elif k == 'rm':
                    p.removeProfile(op[1])
                elif k == 'rmnone':
                    p.removeProfile()
                elif k == 'rmall':
                    p.removeProfile(all=True)
                elif k == 'def':
                    d = op[1]
                    p.defaultProfiles = list(d) if isinstance(d, list) else d
                else:
                    raise ValueError(op)
            return 'OK'
        except TimeLimit:
            return 'Diverges'
        except self.P.NoSuchProfileException:
            return 'NoSuchProfileException'
        except (KeyError, ValueError) as e:
            return exc_name(e)

    def compiled_items(self, p):
        for prof, d in p._profilesProperties.items():
            for prop, v in d.items():
                yield prof, prop, v

    def observe(self, p):
        """the observables compared with the model after every operation"""
        try:
            bp = 'OK:' + repr(list(p.propertiesByProfile()))
        except self.P.NoSuchProfileException:
            bp = 'ERR:NoSuchProfileException'
        except KeyError:
            bp = 'ERR:KeyError'
        pats = []
        for prof, prop, v in self.compiled_items(p):
            if hasattr(v, 'pattern'):
                pats.append((prof, prop, '%d:%d' % (len(v.pattern), poly_hash(v.pattern))))
            else:
                pats.append((prof, prop, 'F%d' % FNS.index(v)))
        eff = p.defaultProfiles
        return {'names': list(p.profiles), 'known': list(p.knownNames),
                'eff': [eff] if isinstance(eff, str) else list(eff), 'bp': bp, 'pats': pats}

    def verdicts(self, p, battery=BATTERY, profiles_arg=None):
        """verdict vector; exceptions by class"""
        out = []
        if True:
            for n, v in battery:
                try:
                    a = 'OK %d' % bool(p.validate(n, v))
                except KeyError:
                    a = 'ERR KeyError'
                try:
                    r = p.validateWithProfile(n, v, profiles_arg)
                    b = 'OK %d %d %s' % (bool(r[0]), bool(r[1]), r[2])
                except KeyError:
                    b = 'ERR KeyError'
                out.append((a, b))
        return out


_re_cache = {}


def re_accepts(pattern, value):
    """what LazyRegex(pattern, re.I)(value) answers; a pattern that does not compile counts as 'no'
    (validate catches the exception and reports the value as not accepted)"""
    key = (pattern, value)
    r = _re_cache.get(key)
    if r is None:
        try:
            with time_limit(2.0):
                r = bool(re.compile(pattern, re.I).match(value))
        except (re.error, RecursionError, OverflowError):
            r = False
        _re_cache[key] = r
    return r


def fn_accepts(i, value):
    try:
        return bool(FNS[i](value))
    except Exception:
        return False


def parse_dump(line):
    d = {}
    for w in line.split(' '):
        k, _, v = w.partition('=')
        d[k] = v
    out = {'names': dec_list(d['names']), 'known': dec_list(d['known']), 'eff': dec_list(d['eff'])}
    bp = d['bp']
    out['bp'] = 'OK:' + repr(dec_list(bp[3:])) if bp.startswith('OK:') else bp.split(':')[0] + ':' + bp.split(':')[1]
    pats = []
    if d['pats'] != '_':
        for e in d['pats'].split(','):
            key, _, h = e.partition('=')
            a, _, b = key.partition('/')
            pats.append((dec_list(a)[0], dec_list(b)[0], h))
    out['pats'] = pats
    full = {}
    if d['full'] != '_':
        for e in d['full'].split(','):
            key, _, h = e.partition('=')
            a, _, b = key.partition('/')
            full[(dec_list(a)[0], dec_list(b)[0])] = h        # '#id' or the text in hex
    out['full'] = full
    return out


# ----------------------------------------------------------------------------------------------
# contents tracker: what is registered, by the documented meaning of the operations (independent of model
# and implementation); also decides which known-finding regions a history has entered
class Tracker:
    def __init__(self, builtin_order):
        self.contents = [[n, dict(p), dict(m)] for n, p, m in builtin_order]   # ordered
        self.default = None
        self.taint = set()           # ids of known findings whose region the history has entered (none open)
        self.undefined = False

    def names(self):
        return [c[0] for c in self.contents]

    def find(self, n):
        for c in self.contents:
            if c[0] == n:
                return c
        return None

    def pre(self, op, base_keys):
        """(kept for the regions of known findings: none is open now — the four that existed are fixed)"""
        return

    def post(self, op, outcome):
        k = op[0]
        if outcome != 'OK':
            # a mutator that raises leaves the registry as it was (`_atomic`); checked by oracle O7
            return
        if k == 'add':
            n, ps, ms = op[1], op[2], op[3]
            c = self.find(n)
            if c is None:
                self.contents.append([n, dict(ps), dict(ms or {})])
            else:
                c[1] = dict(ps)
                if ms:
                    c[2] = dict(ms)
        elif k == 'addps':
            for n, ps, ms in op[1]:
                c = self.find(n)
                if c is None:
                    self.contents.append([n, dict(ps), {}])
                else:
                    c[1] = dict(ps)
            # the macros stored with a profile are the last non-empty ones given for its name in this call
            for n, ps, ms in op[1]:
                if ms:
                    self.find(n)[2] = dict(ms)
        elif k == 'rm':
            self.contents.remove(self.find(op[1]))
        elif k == 'rmall':
            self.contents = []
        elif k == 'def':
            d = op[1]
            self.default = [d] if isinstance(d, str) else (None if d is None else list(d))

    def defaults_ok(self):
        return not self.default or all(self.find(n) is not None for n in self.default)


# ----------------------------------------------------------------------------------------------
class C14(Check):
    id = 'C14'
    props_module = 'CssVerif.Props.C14'
    driver_exe = 'drv_c14'
    sources = ('cssutils/profiles.py', 'cssutils/util.py')
    trusted_base = (
        'hand-written model lean/CssVerif/Model/Profiles.lean of class Profiles (cssutils/profiles.py:100-450), tied '
        'to the code by the per-operation correspondence of this run (exception class, profiles, knownNames, '
        'defaultProfiles, propertiesByProfile, every expanded pattern, verdict vectors)',
        'translator tools/gen/c14_profiles.py (ast; _TOKEN_MACROS, _MACROS, macros[..], properties[..], the '
        'addProfiles list of __init__), cross-checked by comparing the initial registry of model and implementation',
        "regex acceptance is a parameter of the model; in the correspondence it is CPython's `re` applied to the "
        "model's own expanded pattern strings",
        'lean/CssVerif/Model/MacroRank.lean (placeholder names, ranks, cycle check, pass count) tied by the termination '
        'stream of this run: re.findall, an independent depth-first cycle search, and the number of re.sub passes of '
        'the real loop counted through a stand-in for the module `re` inside cssutils.profiles; '
        'lean/CssVerif/Model/ProfilesSpec.lean (specReg) tied by comparing it, on contents tracked independently, '
        'with what the implementation shows after a history',
        'the built-in tables are generated as code points and the builtin_* theorems are evaluated by the Lean kernel '
        'on them at build time (a changed table re-checks them)',
    )
    assumptions = (
        'the registry is given a log that never raises (= log.raiseExceptions off, the mode used while parsing): a '
        'callable or pattern that raises counts as "not accepted"',
        'property definitions are strings or callables; macro definitions are strings',
    )
    rule = ('histories: 6-30 operations from {addProfile (fresh / existing name, new or redefined properties, macros '
            'overriding token macros, general macros and other profiles\' macros, odd placeholder spellings, rare '
            'undefined and cyclic macros), addProfiles (1-3 entries, also the built-in tables), removeProfile '
            '(registered, unknown, None), removeProfile(all), defaultProfiles := None / subset / single name / '
            'unregistered} from 4 start states (fresh Profiles(), built-ins removed one by one, random subset '
            'removed, remove-all); corpus = the histories of the four repaired findings and hand-made ones, run '
            'first. non-trivial = distinct (history prefix) whose last operation changed an observable or raised, '
            'and distinct oracle cases; verdict battery: %d (name, value) pairs x validate/validateWithProfile '
            'after every operation, plus validateWithProfile/propertiesByProfile with explicit profile arguments; '
            'termination stream: (macro set, value) pairs over 8 macro names of kinds ranked / chain / free / ring '
            'with odd literal pieces and undefined names, and the built-in macro environment with the built-in '
            'patterns; specReg stream: the first 60 (thorough 500) histories'
            % len(BATTERY))

    # ------------------------------------------------------------------------------------------
    def translate(self, ctx):
        files, t = c14_profiles.translate(ctx.repo)
        ctx.notes['translator'] = {'profiles_py_sha256': t['sha'][:16], 'base_shape_ok': t['base_shape_ok'],
                                   'builtins': [n for n, _, _ in t['order']]}
        return files

    def tables(self, ctx):
        if not hasattr(self, '_tables'):
            self._tables = c14_profiles.read_tables(os.path.join(ctx.repo, 'cssutils', 'profiles.py'))
        return self._tables

    # ------------------------------------------------------------------------------------------
    def run(self, ctx):
        impl = Impl()
        t = self.tables(ctx)
        self.base_keys = set(t['token']) | set(t['general'])
        self.builtin_order = t['order']
        rng = ctx.sub_rng('c14')
        seqs = self.corpus(ctx) + self.fixed_histories() + \
            [self.gen_history(rng, clean=(i % 3 == 0)) for i in range(ctx.n(70, 1000))]
        if ctx.model_ok:
            # hypotheses of theorem C14.init_contents evaluated on the generated tables (names differ, no exception)
            rep = ctx.driver(['initcheck'])[0]
            ctx.notes['init_contents_hypotheses_hold_for_generated_tables'] = rep
            if rep != 'OK':
                ctx.disagree('hypotheses of init_contents on the built-in tables', {'op': 'initcheck'}, 'Profiles() works', rep)
        self.correspond(ctx, impl, seqs)
        self.expand_correspond(ctx, impl, rng)
        self.spec_correspond(ctx, impl, seqs)
        self.termination_correspond(ctx, impl, ctx.sub_rng('c14-term'))
        self.oracle_builtin_macros(ctx, impl)
        self.oracle(ctx, impl, seqs, rng)

    # -- generators --------------------------------------------------------------------------------
    def corpus(self, ctx):
        d = os.path.join(ctx.verif, 'tools', 'corpus', 'C14')
        out = []
        if os.path.isdir(d):
            for fn in sorted(os.listdir(d)):
                if fn.endswith('.json'):
                    out.append(json.load(open(os.path.join(d, fn)))['ops'])
        return out

    def builtin_def(self, name):
        for n, p, m in self.builtin_order:
            if n == name:
                return [n, dict(p), dict(m)]
        raise KeyError(name)

    def fixed_histories(self):
        names = [n for n, _, _ in self.builtin_order]
        hs = []
        # remove everything one by one and re-add in the original order, in one go and one at a time
        hs.append([['rm', n] for n in names] + [['addps', [self.builtin_def(n) for n in names]]])
        hs.append([['rm', n] for n in reversed(names)] + [['add'] + self.builtin_def(n) for n in names])
        hs.append([['rmall'], ['addps', [self.builtin_def(n) for n in names]]])
        hs.append([['rmall']] + [['add'] + self.builtin_def(n) for n in names])
        for n in names:
            hs.append([['rm', n], ['add'] + self.builtin_def(n), ['rm', n], ['rm', n]])
        # the scenario of test_profiles.test_validate2
        hs.append([['rm', 'CSS Color Module Level 3'], ['add', 'test', {}, {'color': 'XXX'}], ['rmall']])
        return hs

    def gen_macros(self, rng, defined, bad=0.0):
        """macros for a new profile; bodies mention only macros that are defined (or come with this set)"""
        r = rng.random()
        if r < 0.25:
            return None
        if r < 0.30:
            return {}
        keys = []
        for _ in range(rng.randint(1, 3)):
            k = rng.choice(MACRO_RANK)
            if k not in keys:
                keys.append(k)
        avail = set(defined) | set(keys)
        m = {}
        for k in keys:
            ok = [b for b in MACRO_BODIES[k] if set(PH.findall(b)) <= avail]
            m[k] = rng.choice(ok or [x for x in MACRO_BODIES[k] if not PH.findall(x)])
        if rng.random() < bad:
            m[rng.choice(['m1', 'm2', 'color'])] = rng.choice(['{nosuch}', 'a{nosuch}', '{m9}'])
        if rng.random() < bad / 3:
            k = rng.choice(['m1', 'm2', 'w'])
            m[k] = 'x{%s}' % k
        return m

    def gen_props(self, rng, defined, bad=0.0, own=()):
        ps = {}
        # mostly patterns that need only the base macros and the profile's own ones: a profile that leans on
        # another profile's macros breaks when that one is removed (kept, but rarer)
        safe = set(self.base_keys) | set(own)
        good = [x for x in PATTERNS if set(PH.findall(x)) <= safe]
        if rng.random() < 0.25 or not good:
            good = [x for x in PATTERNS if set(PH.findall(x)) <= set(defined)]
        odd = [x for x in ODD_PATTERNS if set(PH.findall(x)) <= safe]
        for _ in range(rng.choice([0, 1, 1, 2, 2, 3, 4])):
            k = rng.choice(PROP_NAMES)
            r = rng.random()
            if r < 0.08:
                ps[k] = ['fn', rng.randrange(len(FNS))]
            elif r < 0.20:
                ps[k] = rng.choice(odd)
            elif rng.random() < bad:
                ps[k] = rng.choice(['{nosuch}', '{m1}|{undefined-macro}', '{m1}', '{m2}{m3}'])
            else:
                ps[k] = rng.choice(good)
        return ps

    def gen_profile(self, rng, name, reg, bad=0.0):
        defined = set(self.base_keys)
        for ms in reg.values():
            defined |= set(ms)
        ms = self.gen_macros(rng, defined, bad)
        ps = self.gen_props(rng, defined | set(ms or {}), bad, own=set(ms or {}))
        return [name, ps, ms]

    def gen_history(self, rng, bad=0.03, avoid=(), clean=False):
        """one history; `avoid`: profile names that must not be mentioned; `clean`: stay outside the regions of
        the known findings (no bulk add over existing macros, no replacement with macros, no remove-all)"""
        names = [n for n, _, _ in self.builtin_order]
        builtin_macros = {n: dict(m) for n, _, m in self.builtin_order}
        ops = []
        start = rng.random()
        reg = dict(builtin_macros)          # registered name -> macros (as far as the generator knows)
        if start < 0.35:
            pass
        elif start < 0.55:
            for n in names:
                ops.append(['rm', n])
            reg = {}
        elif start < 0.85 or clean:
            for n in rng.sample(names, rng.randint(1, len(names) - 1)):
                ops.append(['rm', n])
                del reg[n]
        else:
            ops.append(['rmall'])
            reg = {}
        pool = [n for n in CUSTOM_NAMES + names if n not in avoid]
        custom = [n for n in CUSTOM_NAMES if n not in avoid]

        def one(n):
            if n in names and rng.random() < 0.75:
                d = self.builtin_def(n)
                if rng.random() < 0.06:
                    d[2] = None
                return d
            return self.gen_profile(rng, n, reg, bad)

        for _ in range(rng.randint(4, 16)):
            r = rng.random()
            if r < 0.40:
                if rng.random() < 0.75 or clean:
                    cands = [n for n in pool if n not in reg] or ['V%d' % len(ops)]
                else:
                    cands = pool
                d = one(rng.choice(cands))
                if clean and d[0] in reg:
                    d[2] = None
                ops.append(['add'] + d)
                if d[2] or d[0] not in reg:
                    reg[d[0]] = dict(d[2] or {})
            elif r < 0.50:
                ents = []
                for _ in range(rng.randint(1, 3)):
                    taken = [e[0] for e in ents]
                    if rng.random() < 0.8 or clean:
                        cands = [n for n in pool if n not in reg and n not in taken] or ['V%d_%d' % (len(ops), len(ents))]
                    else:
                        cands = pool
                    d = one(rng.choice(cands))
                    if clean and reg:
                        used = set(self.base_keys)
                        for ms in reg.values():
                            used |= set(ms)
                        for e in ents:
                            used |= set(e[2] or {})
                        if d[2] and set(d[2]) & used:
                            d[2] = {k: v for k, v in d[2].items() if k not in used} or None
                            defined = used | set(d[2] or {})
                            d[1] = {k: v for k, v in d[1].items()
                                    if not isinstance(v, str) or set(PH.findall(v)) <= defined}
                    ents.append(d)
                ops.append(['addps', ents])
                for e in ents:
                    if e[2] or e[0] not in reg:
                        reg[e[0]] = dict(e[2] or {})
            elif r < 0.75:
                if reg and rng.random() < 0.8:
                    n = rng.choice([x for x in reg if x not in avoid] or ['nope'])
                else:
                    n = rng.choice(['nope', 'css level 2.1', ''] + [x for x in pool if x not in reg])
                ops.append(['rm', n])
                reg.pop(n, None)
            elif r < 0.78:
                ops.append(['rmnone'])
            elif r < 0.81 and not clean:
                ops.append(['rmall'])
                reg = {}
            else:
                q = rng.random()
                live = list(reg)
                if q < 0.2 or not live:
                    d = None
                elif q < 0.5:
                    d = rng.choice(live)
                elif q < 0.9:
                    d = rng.sample(live, rng.randint(1, min(3, len(live))))
                elif q < 0.95:
                    d = []
                else:
                    d = [rng.choice(['nope'] + pool)]
                ops.append(['def', d])
        return ops

    # -- correspondence ------------------------------------------------------------------------------
    def extra_queries(self, si, oi, names):
        """a few validateWithProfile calls with an explicit `profiles` argument, and propertiesByProfile calls"""
        import random
        r = random.Random('%d/%d/q' % (si, oi))
        qs = []
        for _ in range(3):
            n, v = r.choice(BATTERY)
            q = r.random()
            if q < 0.5 and names:
                arg = r.sample(names, r.randint(1, min(3, len(names))))
            elif q < 0.7 and names:
                arg = r.choice(names)          # a single name given as a string
            elif q < 0.85:
                arg = ['nope']
            else:
                arg = []
            qs.append(('vwp', n, v, arg))
        q = r.random()
        if q < 0.5 and names:
            qs.append(('pbp', r.sample(names, r.randint(1, min(3, len(names))))))
        elif q < 0.7 and names:
            qs.append(('pbp', r.choice(names)))
        else:
            qs.append(('pbp', r.choice([['nope'], [], ['X', 'nope']])))
        return qs

    def impl_query(self, impl, p, q):
        try:
            if q[0] == 'vwp':
                r = p.validateWithProfile(q[1], q[2], q[3])
                return 'OK %d %d %s' % (bool(r[0]), bool(r[1]), r[2])
            return 'OK %s' % list(p.propertiesByProfile(q[1]))
        except impl.P.NoSuchProfileException:
            return 'ERR NoSuchProfileException'
        except KeyError:
            return 'ERR KeyError'

    def correspond(self, ctx, impl, seqs):
        want = 'L:' + ','.join(enc(n) for n in BAT_NAMES)
        # 1. implementation: run every history, keep the observables after every operation
        pat_ids, acc_lines = {}, []
        rec = {}
        for si, ops in enumerate(seqs):
            p = impl.fresh()
            prev = None
            for oi in range(-1, len(ops)):
                op = ['init'] if oi < 0 else ops[oi]
                outcome = 'OK' if oi < 0 else impl.apply(p, op)
                obs = impl.observe(p)
                changed = obs != prev or outcome != 'OK'
                prev = obs
                ctx.case(key=('hist', repr(ops[:oi + 1])), nontrivial=changed, kind='op:%s:%s' % (op[0], outcome),
                         sample={'history_prefix_len': oi + 1, 'last_op': op_line(op)[:200], 'outcome': outcome,
                                 'profiles': obs['names']} if oi >= 0 else None)
                full = {}
                for prof, prop, v in impl.compiled_items(p):
                    if prop in BATTERY_SPEC and hasattr(v, 'pattern'):
                        pat = v.pattern
                        full[(prof, prop)] = pat
                        if pat not in pat_ids:
                            pat_ids[pat] = len(pat_ids)
                            acc_lines.append('pat %d %s' % (pat_ids[pat], enc(pat)))
                            for val in VALUES:
                                if re_accepts(pat, val):
                                    acc_lines.append('acc %d %s' % (pat_ids[pat], enc(val)))
                qs = self.extra_queries(si, oi, obs['names'])
                rec[(si, oi)] = (outcome, obs, full, impl.verdicts(p), qs, [self.impl_query(impl, p, q) for q in qs])
        if not ctx.model_ok:
            return
        by_id = {v: k for k, v in pat_ids.items()}
        for i in range(len(FNS)):
            for v in VALUES:
                if fn_accepts(i, v):
                    acc_lines.append('accfn %d %s' % (i, enc(v)))
        # 2. the model: same histories; regex acceptance = Python `re` on the pattern text (the texts are compared:
        #    a model pattern that differs from the implementation's is reported and has no acceptance entries)
        lines, index = list(acc_lines), [None] * len(acc_lines)
        for si, ops in enumerate(seqs):
            for oi in range(-1, len(ops)):
                lines.append(op_line(['init'] if oi < 0 else ops[oi]))
                index.append((si, oi, 'op', 0))
                lines.append('dump ' + want)
                index.append((si, oi, 'dump', 0))
                for bi, (n, v) in enumerate(BATTERY):
                    lines.append('val %s %s' % (enc(n), enc(v)))
                    index.append((si, oi, 'val', bi))
                    lines.append('vwp %s %s N' % (enc(n), enc(v)))
                    index.append((si, oi, 'vwp', bi))
                for qi, q in enumerate(rec[(si, oi)][4]):
                    if q[0] == 'vwp':
                        lines.append('vwp %s %s %s' % (enc(q[1]), enc(q[2]), enc_names(q[3])))
                    else:
                        lines.append('pbp %s' % enc_names(q[1]))
                    index.append((si, oi, 'q', qi))
        out = ctx.driver(lines)
        dead = set()            # histories with a disagreement: later operations are not compared
        n_bad = 0
        for ix, rep in zip(index, out):
            if ix is None or ix[0] in dead:
                continue
            si, oi, kind, k = ix
            outcome, obs, full, verd, qs, qres = rec[(si, oi)]
            where = {'history': seqs[si][:oi + 1], 'start': 'Profiles()'}
            bad = False
            if kind == 'op':
                m_exc = 'OK' if rep == 'OK' else rep.split()[1]
                if m_exc != outcome:
                    ctx.disagree('exception class of the operation', where, outcome, rep)
                    bad = True
            elif kind == 'dump':
                md = parse_dump(rep)
                for key in ('names', 'known', 'eff', 'bp', 'pats'):
                    if md[key] != obs[key]:
                        ctx.disagree('observable %s after the operation' % key, where,
                                     obs[key] if key != 'pats' else [x for x in obs[key] if x not in md[key]][:5],
                                     md[key] if key != 'pats' else [x for x in md[key] if x not in obs[key]][:5])
                        bad = True
                        break
                if not bad:
                    mfull = {kk: (by_id.get(int(vv[1:])) if vv.startswith('#') else dec_list(vv)[0])
                             for kk, vv in md['full'].items()}
                    if mfull != full:
                        diff = [kk for kk in set(mfull) | set(full) if mfull.get(kk) != full.get(kk)][:1]
                        ctx.disagree('expanded pattern text', dict(where, at=diff),
                                     [(full.get(kk) or '')[:300] for kk in diff],
                                     [(mfull.get(kk) or '')[:300] for kk in diff])
                        bad = True
            else:
                if kind == 'val':
                    got = verd[k][0]
                    what = {'call': 'validate', 'name': BATTERY[k][0], 'value': BATTERY[k][1]}
                elif kind == 'vwp':
                    got = verd[k][1]
                    what = {'call': 'validateWithProfile', 'name': BATTERY[k][0], 'value': BATTERY[k][1]}
                else:
                    got = qres[k]
                    what = {'call': qs[k][0], 'args': qs[k][1:]}
                w = rep.split(' ')
                if rep.startswith('OK') and (kind == 'vwp' or (kind == 'q' and qs[k][0] == 'vwp')):
                    rep = 'OK %s %s %s' % (w[1], w[2], dec_list(w[3]))
                elif rep.startswith('OK') and kind == 'q':
                    rep = 'OK %s' % dec_list(w[1])
                elif rep.startswith('ERR'):
                    rep = ' '.join(w[:2])
                ctx.evaluations += 1
                if rep != got:
                    ctx.disagree(what['call'], dict(where, **what), got, rep)
                    bad = True
            if bad:
                dead.add(si)
                n_bad += 1
                if n_bad >= 8:
                    break
        ctx.notes['correspondence'] = {'histories': len(seqs), 'operations': sum(len(s) for s in seqs),
                                       'distinct_patterns_evaluated_with_re': len(pat_ids),
                                       'driver_lines': len(lines)}

    def expand_correspond(self, ctx, impl, rng):
        """`_expand_macros` on single values with explicit macro sets, including odd placeholder spellings"""
        alphabet = ['{', '}', 'a', 'b', 'm1', '-', '1', 'A', '{m1}', '{b}', '{a-1}', ' ', '(', '|', '{{', '}}', '\xe9']
        cases = []
        for v in ODD_PATTERNS + PATTERNS:
            cases.append(({'m1': 'Q', 'm2': '{m1}', 'm3': 'z', 'color': 'c', 'a': '{b}', 'b': 'B', 'a-1': '{m2}'}, v))
        for _ in range(ctx.n(1500, 30000)):
            v = ''.join(rng.choice(alphabet) for _ in range(rng.randint(0, 10)))
            m = {'m1': rng.choice(['Q', '{b}', '{', '}', '{m', '1}']), 'b': rng.choice(['B', '{a-1}', 'm1}', '{']),
                 'a-1': rng.choice(['', '{m1}', 'x'])}
            if rng.random() < 0.2:
                del m[rng.choice(sorted(m))]
            # keep it acyclic: a-1 -> m1 -> b -> a-1 would loop
            if '{b}' in m.get('m1', '') and '{a-1}' in m.get('b', '') and '{m1}' in m.get('a-1', ''):
                m['a-1'] = 'x'
            cases.append((m, v))
        lines = ['expand %s %s' % (enc_macros(m) if m else 'E', enc(v)) for m, v in cases]
        out = ctx.driver(lines) if ctx.model_ok else [None] * len(lines)
        p = impl.fresh()
        for (m, v), rep in zip(cases, out):
            try:
                with time_limit(1.0):
                    got = 'OK ' + enc(p._expand_macros({'k': v}, dict(m))['k'])
            except KeyError:
                got = 'ERR KeyError'
            except TimeLimit:
                got = 'ERR Diverges'
            ctx.case(key=('expand', repr(sorted(m.items())), v), nontrivial=got != 'OK ' + enc(v), kind='expand')
            if rep is not None:
                r = ' '.join(rep.split(' ')[:2])
                if r != got:
                    ctx.disagree('_expand_macros', {'macros': m, 'value': v}, got, rep)

    # -- the registry as a function of the contents (`specReg`, C14.answers_from_contents) ---------------
    def spec_correspond(self, ctx, impl, seqs):
        """after a history: what the implementation shows against the model's `specReg` evaluated on the contents
        that the tracker derived from the documented meaning of the operations (independent of both)"""
        if not ctx.model_ok:
            return
        cases, lines = [], []
        for ops in seqs[:ctx.n(60, 500)]:
            p, tr = self.run_history(impl, ops)
            cases.append((ops, impl.observe(p)))
            lines.append(('spec %s ' % enc_names(tr.default)) + ' '.join(
                '%s %s %s' % (enc(n), enc_props(ps), enc_macros(ms) if ms else 'E') for n, ps, ms in tr.contents))
        for (ops, obs), rep in zip(cases, ctx.driver([ln.rstrip() for ln in lines])):
            ctx.case(key=('spec', repr(ops)), nontrivial=True, kind='spec')
            if rep == 'bad-op':
                ctx.disagree('specReg request', {'history': ops}, 'observables', rep)
                continue
            md = parse_dump(rep)
            for key in ('names', 'known', 'eff', 'bp', 'pats'):
                if md[key] != obs[key]:
                    ctx.disagree('registry computed from the contents: observable %s' % key,
                                 {'history': ops, 'start': 'Profiles()'},
                                 obs[key] if key != 'pats' else [x for x in obs[key] if x not in md[key]][:5],
                                 md[key] if key != 'pats' else [x for x in md[key] if x not in obs[key]][:5])
                    break

    # -- termination of the expansion (T14.6) ---------------------------------------------------------
    TERM_NAMES = ['a', 'b', 'c1', 'd-e', 'f', 'g', 'h2', 'i-']
    TERM_LIT = ['x', '|', '(', ')', '{', '}', '{2}', '{1,2}', 'A', ' ', '-', 'a', '{A}', '{1a}', '\\{', '']

    def gen_term_case(self, rng):
        """(macros, value, kind): ranked = a body uses later names only (no cycle by construction); free = any name
        (cycles happen); ring = a cycle of single references (the loop never ends, the text grows slowly)"""
        names = list(self.TERM_NAMES)
        rng.shuffle(names)
        names = names[:rng.randint(1, len(names))]
        kind = rng.choice(['ranked', 'ranked', 'ranked', 'free', 'ring', 'chain'])
        m = {}

        def body(allowed):
            parts = []
            for _ in range(rng.randint(0, 4)):
                if allowed and rng.random() < 0.5:
                    parts.append('{%s}' % rng.choice(allowed))
                elif rng.random() < 0.08:
                    parts.append('{%s}' % rng.choice(['nosuch', 'z9']))
                else:
                    parts.append(rng.choice(self.TERM_LIT))
            return ''.join(parts)
        for i, k in enumerate(names):
            if kind == 'ranked':
                m[k] = body(names[i + 1:])
            elif kind == 'free':
                m[k] = body(names)
            elif kind == 'chain':
                # every macro uses the next one: as many passes as there are names
                m[k] = rng.choice(['', 'x', '(']) + ('{%s}' % names[i + 1] if i + 1 < len(names) else 'z')
            else:
                m[k] = rng.choice(['', 'x', '(']) + '{%s}' % names[(i + 1) % len(names)] + rng.choice(['', '|y'])
        if rng.random() < 0.15:
            m[rng.choice(['A', '1x', 'a b'])] = '{%s}' % rng.choice(names)   # a key no placeholder can name
        v = body(names + ['nosuch'] if rng.random() < 0.1 else names)
        if kind == 'chain' and rng.random() < 0.7:
            v = '{%s}' % names[0]
        return m, v, kind

    def term_case(self, ctx, impl, m, v, kind, reps):
        """one (macro set, value): the model's answers `reps` = [phs, acyc, passes] (None without a model) against
        the implementation and against the independent Python renderings; the property on the implementation"""
        P = impl.P
        acyc, closed = py_acyclic(m), py_closed(m)
        names = PH.findall(v)
        bound = py_depth(m, v) if acyc else None
        proxy = CountingRe(re, 200)
        if not hasattr(self, '_term_p'):
            self._term_p = impl.fresh()      # `_expand_macros` reads and writes nothing of the registry
        p = self._term_p
        P.re = proxy
        try:
            with time_limit(5.0):
                got = ('OK', p._expand_macros({'k': v}, dict(m))['k'])
        except KeyError as e:
            got = ('KeyError', e.args[0] if e.args else None)
        except (TooManyPasses, TimeLimit):
            got = ('Diverges', None)
        finally:
            P.re = re
        passes = proxy.passes
        ctx.case(key=('term', repr(sorted(m.items())), v), nontrivial=passes > 0, kind='term-' + kind)
        w = {'oracle': 'O8', 'macros': m, 'value': v, 'kind': kind}
        # the property, on the implementation alone
        if acyc:
            if got[0] == 'Diverges':
                ctx.violate('T14.6 the expansion ends for a macro set without a cycle', w,
                            'no cycle among the macros, but _expand_macros made more than 200 passes')
            elif passes > bound:
                ctx.violate('T14.6 the expansion ends within depth passes', w,
                            '%d passes, the ranks allow %d' % (passes, bound))
            elif got[0] == 'OK' and PH.search(got[1]):
                ctx.violate('T14.6 an expansion that returns has no placeholder left', w, got[1])
            elif closed and all(n in m for n in names) and got[0] != 'OK':
                ctx.violate('T14.6 every macro defined: the expansion returns a text', w, repr(got))
        if reps is None:
            return
        r_phs, r_acyc, r_passes = reps
        if r_phs != 'OK ' + (','.join(enc(n) for n in names) if names else '_'):
            ctx.disagree('placeholder names of a value', {'value': v}, names, r_phs)
        if r_acyc != 'OK %d %d' % (acyc, closed):
            ctx.disagree('cycle check / closedness of a macro set', {'macros': m}, [acyc, closed], r_acyc)
        if r_passes is not None:
            if got[0] == 'OK':
                want = 'OK %d %s' % (passes, bound if acyc else '-')
            elif got[0] == 'KeyError':
                want = 'ERR KeyError %s' % enc(got[1])
            else:
                want = 'ERR Diverges'
            if r_passes != want:
                ctx.disagree('passes of _expand_macros', {'macros': m, 'value': v}, want, r_passes)

    def oracle_builtin_macros(self, ctx, impl):
        """the built-in macro set itself (token macros, general macros, the macros of the built-in profiles): a cycle
        in it makes `addProfile` hang for every definition that names a macro on the cycle"""
        env = c14_profiles.final_env(self.tables(ctx))
        if py_acyclic(env):
            return
        for k in env:
            sub = {k: env[k]}
            todo = [k]
            while todo:                      # the macros `k` reaches
                for n in PH.findall(sub[todo.pop()]):
                    if n in env and n not in sub:
                        sub[n] = env[n]
                        todo.append(n)
            if py_acyclic(sub):
                continue
            p = impl.fresh()
            impl.P.re = CountingRe(re, 200)
            try:
                with time_limit(5.0):
                    p.addProfile('T', {'t': '{%s}' % k})
                outcome = 'returned'
            except (TooManyPasses, TimeLimit):
                outcome = 'Diverges'
            except Exception as e:
                outcome = exc_name(e)
            finally:
                impl.P.re = re
            if outcome == 'Diverges':
                ctx.violate('T14.6 the built-in macros have no cycle', {'oracle': 'O9', 'history': [['add', 'T', {'t': '{%s}' % k}, None]]},
                            "addProfile('T', {'t': '{%s}'}) on a fresh Profiles() does not return: the built-in macro "
                            "%r is on a cycle (%s)" % (k, k, ', '.join(sorted(sub))))
                return

    def term_lines(self, m, v, with_passes):
        ms = enc_macros(m) if m else 'E'
        ls = ['phs %s' % enc(v), 'acyc %s' % ms]
        if with_passes:
            ls.append('passes %s %s' % (ms, enc(v)))
        return ls

    def termination_correspond(self, ctx, impl, rng, only=None):
        t = self.tables(ctx)
        cases = []
        if only is not None:
            cases = only
        else:
            env = c14_profiles.final_env(t)
            pats = [v for _, p, _ in t['order'] for v in p.values()] + list(env.values())
            rng.shuffle(pats)
            for v in pats[:ctx.n(25, len(pats))]:
                cases.append((env, v, 'builtin'))
            ring = dict(env)
            ring['w'] = r'\s*{nl}?'
            ring['nl'] = r'\n|{w}'
            cases.append((ring, 'a', 'builtin-ring'))
            for _ in range(ctx.n(1200, 25000)):
                cases.append(self.gen_term_case(rng))
        lines, shape = [], []
        for m, v, kind in cases:
            # a cycle that is not a ring of single references can double the text with every pass: no `passes`
            # request then (model and implementation would both be stopped by the size, not by the property)
            wp = kind in ('ranked', 'ring', 'chain', 'builtin') or py_acyclic(m)
            ls = self.term_lines(m, v, wp)
            shape.append((len(lines), wp))
            lines += ls
        out = ctx.driver(lines) if ctx.model_ok else None
        for (m, v, kind), (i, wp) in zip(cases, shape):
            if not wp and kind != 'builtin-ring':
                # the implementation is not run either on such a set
                if out is not None:
                    self.term_static(ctx, m, v, out[i], out[i + 1])
                continue
            reps = None if out is None else [out[i], out[i + 1], out[i + 2] if wp else None]
            self.term_case(ctx, impl, m, v, kind, reps)

    def term_static(self, ctx, m, v, r_phs, r_acyc):
        names = PH.findall(v)
        ctx.case(key=('term-static', repr(sorted(m.items())), v), nontrivial=bool(names), kind='term-cyclic')
        if r_phs != 'OK ' + (','.join(enc(n) for n in names) if names else '_'):
            ctx.disagree('placeholder names of a value', {'value': v}, names, r_phs)
        if r_acyc != 'OK %d %d' % (py_acyclic(m), py_closed(m)):
            ctx.disagree('cycle check / closedness of a macro set', {'macros': m}, [py_acyclic(m), py_closed(m)], r_acyc)

    # -- oracle ---------------------------------------------------------------------------------------
    def snapshot(self, impl, p):
        try:
            bp = list(p.propertiesByProfile())
        except (KeyError, impl.P.NoSuchProfileException) as e:
            bp = exc_name(e)
        return {'profiles': list(p.profiles), 'knownNames': list(p.knownNames), 'propertiesByProfile': bp,
                'verdicts': impl.verdicts(p)}

    @staticmethod
    def snap_diff(a, b):
        for k in ('profiles', 'knownNames', 'propertiesByProfile'):
            if a[k] != b[k]:
                return {'observable': k, 'got': a[k], 'expected': b[k]}
        for (n, v), x, y in zip(BATTERY, a['verdicts'], b['verdicts']):
            if x != y:
                return {'observable': 'verdict', 'name': n, 'value': v, 'got': x, 'expected': y}
        return None

    def run_history(self, impl, ops, p=None):
        """run a history on the implementation; returns registry and tracker"""
        p = p or impl.fresh()
        tr = Tracker(self.builtin_order)
        tr.outcomes = []
        for op in ops:
            tr.pre(op, self.base_keys)
            out = impl.apply(p, op)
            tr.outcomes.append(out)
            tr.post(op, out)
        return p, tr

    PRIORITY = []       # open known findings, most specific first (none)

    def attribute(self, tr):
        for k in self.PRIORITY:
            if k in tr.taint:
                return k
        return None

    def canonical(self, impl, tr):
        """a registry with the same contents built by the shortest clean history: the built-ins removed one by
        one (each removal re-expands from what is left), then everything added in one addProfiles call"""
        k = impl.fresh()
        for n in list(k.profiles):
            k.removeProfile(n)
        out = impl.apply(k, ['addps', [[n, ps, (ms or None)] for n, ps, ms in tr.contents]]) if tr.contents else 'OK'
        if out != 'OK':
            return None
        k.defaultProfiles = tr.default
        return k

    def oracle(self, ctx, impl, seqs, rng):
        names = [n for n, _, _ in self.builtin_order]
        fresh_snap = self.snapshot(impl, impl.fresh())
        # O6 fixed histories that must end in the initial behaviour
        for ops in self.fixed_histories()[:4]:
            p, tr = self.run_history(impl, ops)
            d = self.snap_diff(self.snapshot(impl, p), fresh_snap)
            ctx.case(key=('O6', repr(ops)[:200]), nontrivial=True, kind='oracle:restore-builtins')
            if d:
                ctx.violate('removing the built-in profiles and adding them again in the original order restores '
                            'the behaviour of a fresh Profiles()', {'oracle': 'O6', 'history': ops}, d,
                            known=self.attribute(tr))
        for si, ops in enumerate(seqs):
            self.oracle_history(ctx, impl, ops, rng)
        for _ in range(ctx.n(60, 1500)):
            self.oracle_twin(ctx, impl, rng)

    def cheap_state(self, impl, p):
        """everything observable except the verdicts, which are a function of the compiled patterns/callables"""
        pats = [(prof, prop, getattr(v, 'pattern', v)) for prof, prop, v in impl.compiled_items(p)]
        eff = p.defaultProfiles
        return (list(p.profiles), list(p.knownNames), pats, [eff] if isinstance(eff, str) else list(eff))

    def oracle_rejected(self, ctx, impl, ops):
        """O7: an operation that raises (undefined or cyclic macro, unknown profile) changes nothing"""
        p = impl.fresh()
        for i, op in enumerate(ops):
            before = self.cheap_state(impl, p)
            out = impl.apply(p, op)
            if out != 'OK':
                ctx.case(key=('O7', repr(ops[:i + 1])), nontrivial=True, kind='oracle:rejected-unchanged:' + out)
                after = self.cheap_state(impl, p)
                if after != before:
                    what = [k for k, a, b in zip(('profiles', 'knownNames', 'compiled patterns', 'defaultProfiles'),
                                                 after, before) if a != b]
                    ctx.violate('an addProfile/addProfiles/removeProfile call that raises leaves the registry unchanged',
                                {'oracle': 'O7', 'history': ops[:i + 1]}, {'raised': out, 'changed': what})
                    return

    def oracle_history(self, ctx, impl, ops, rng):
        self.oracle_rejected(ctx, impl, ops)
        cut = rng.randint(0, len(ops))
        for stop in sorted({cut, len(ops)}):
            hist = ops[:stop]
            p, tr = self.run_history(impl, hist)
            w = {'history': hist}
            snap = self.snapshot(impl, p)
            clean = not tr.undefined
            # O2 contents determine behaviour
            if clean:
                k = self.canonical(impl, tr)
                if k is not None:
                    ctx.case(key=('O2', repr(hist)), nontrivial=bool(hist), kind='oracle:contents')
                    d = self.snap_diff(snap, self.snapshot(impl, k))
                    if d and not (d['observable'] == 'verdict' and not tr.defaults_ok()):
                        ctx.violate('the registry behaves like a canonical registry with the same contents '
                                    '(contents: %s)' % [c[0] for c in tr.contents],
                                    dict(w, oracle='O2', contents=tr.contents, default=tr.default), d,
                                    known=self.attribute(tr))
            # O3 valid iff some registered profile that defines the property accepts
            if clean and tr.defaults_ok():
                self.oracle_semantics(ctx, impl, p, tr, w, snap)
            # O4 defaults change matching only
            if clean and p.profiles:
                saved = p._defaultProfiles
                for _ in range(2):
                    d = rng.sample(list(p.profiles), rng.randint(1, min(3, len(p.profiles))))
                    p.defaultProfiles = rng.choice([d, d[0]])
                    after = impl.verdicts(p)
                    ctx.case(key=('O4', repr(hist), repr(d)), nontrivial=True, kind='oracle:defaults')
                    for (n, v), x, y in zip(BATTERY, snap['verdicts'], after):
                        if x[0] != y[0] or (x[1].split(' ')[:2] != y[1].split(' ')[:2] and tr.defaults_ok()):
                            ctx.violate('defaultProfiles changes only which profile is reported, never validity',
                                        dict(w, oracle='O4', default=d, name=n, value=v),
                                        {'before': x, 'after': y}, known=self.attribute(tr))
                            break
                p._defaultProfiles = saved
            # O5 removing an unknown profile is rejected and changes nothing
            for bogus in ('nope', None, 'css level 2.1'):
                if bogus in p.profiles:
                    continue
                out = impl.apply(p, ['rm', bogus] if bogus is not None else ['rmnone'])
                after = self.snapshot(impl, p)
                ctx.case(key=('O5', repr(hist), bogus), nontrivial=True, kind='oracle:remove-unknown')
                d = self.snap_diff(after, snap)
                if out != 'NoSuchProfileException' or d:
                    ctx.violate('removing an unknown profile raises NoSuchProfileException and changes nothing',
                                dict(w, oracle='O5', name=bogus), {'outcome': out, 'diff': d},
                                known=self.attribute(tr) if tr.undefined else None)

    def oracle_semantics(self, ctx, impl, p, tr, w, snap):
        if True:
            cp = p._profilesProperties
            eff = p.defaultProfiles
            eff = [eff] if isinstance(eff, str) else list(eff)

            def acc(q, n, v):
                try:
                    return n in cp[q] and bool(cp[q][n](v))
                except Exception:
                    return False
            for (n, v), (a, b) in zip(BATTERY, snap['verdicts']):
                accepting = [q for q in p.profiles if acc(q, n, v)]
                defining = sorted(q for q in p.profiles if n in cp[q])
                ctx.case(key=('O3', repr(w['history']), n, v), nontrivial=bool(defining), kind='oracle:semantics')
                exp_a = 'OK %d' % bool(accepting)
                if accepting:
                    in_def = [q for q in eff if q in accepting]
                    q = in_def[-1] if in_def else [q for q in accepting if q not in eff][0]
                    exp_b = 'OK 1 %d %s' % (bool(in_def), [q])
                else:
                    exp_b = 'OK 0 0 %s' % defining
                if a != exp_a or b != exp_b:
                    ctx.violate('valid iff some registered profile that defines the property accepts the value; '
                                'the reported profile is the last accepting default profile, else the first '
                                'accepting other profile; an invalid value reports the profiles defining the name',
                                dict(w, oracle='O3', name=n, value=v),
                                {'validate': a, 'expected': exp_a, 'validateWithProfile': b, 'expected2': exp_b},
                                known=self.attribute(tr) if tr.undefined else None)
                    return

    def oracle_twin(self, ctx, impl, rng, fixed=None):
        """O1: add a fresh profile, run other operations, remove it — compared with a twin that never saw it"""
        if fixed is None:
            ops = self.gen_history(rng, bad=0.0, avoid=('P',), clean=rng.random() < 0.7)
            i = rng.randint(0, len(ops))
            j = rng.randint(i, len(ops))
            pdef = self.gen_profile(rng, 'P', {}, 0.0)
            if pdef[2] is not None and rng.random() < 0.7:
                pdef[2].update({rng.choice(['color', 'w', 'num', 'length', 'ident', 'namedcolor', 'p1']):
                                rng.choice(['q', 'foo|q', 'z+'])})
        else:
            ops, i, j, pdef = fixed
        with_p = ops[:i] + [['add'] + pdef] + ops[i:j] + [['rm', 'P']] + ops[j:]
        a, tra = self.run_history(impl, with_p)
        b, trb = self.run_history(impl, ops)
        # the property speaks about a profile that IS added and removed again while the other operations go
        # through alike: if some call raised from the macro expansion in either history (e.g. another profile
        # started to lean on P's macros, so that removing P is refused), the premise does not hold
        quiet = ('OK', 'NoSuchProfileException')
        if any(o not in quiet for o in tra.outcomes + trb.outcomes) or tra.outcomes[i] != 'OK' \
                or tra.outcomes[j + 1] != 'OK':
            ctx.case(key=('O1', repr(with_p)), nontrivial=False, kind='oracle:add-remove:premise-not-met')
            return
        ctx.case(key=('O1', repr(with_p)), nontrivial=True, kind='oracle:add-remove',
                 sample={'oracle': 'O1', 'added_then_removed': pdef, 'at': [i, j], 'other_ops': len(ops)})
        d = self.snap_diff(self.snapshot(impl, a), self.snapshot(impl, b))
        if d:
            tra.taint |= trb.taint
            ctx.violate('adding a profile and removing it again, in any interleaving with other operations, restores '
                        'every verdict, knownNames, profiles and propertiesByProfile',
                        {'oracle': 'O1', 'ops': ops, 'insert_at': i, 'remove_at': j, 'profile': pdef}, d,
                        known=self.attribute(tra))

    # ------------------------------------------------------------------------------------------
    def known(self, ctx, finding):
        impl = Impl()
        t = self.tables(ctx)
        self.base_keys = set(t['token']) | set(t['general'])
        self.builtin_order = t['order']
        w = finding['witness']['data']
        n, v = w['name'], w['value']
        a, _ = self.run_history(impl, w['history'])
        va = impl.verdicts(a, [(n, v)])
        if w['check'] == 'raises':
            return va[0][0].startswith('ERR')
        b, _ = self.run_history(impl, w['same_contents_history'])
        vb = impl.verdicts(b, [(n, v)])
        return list(a.profiles) == list(b.profiles) and va != vb

    def search(self, ctx):
        """an obligation or the correspondence broke: look for a concrete failing input with the oracle alone, on
        more histories than the quick tier, stopping at the first one"""
        ctx.search_mode = True
        impl = Impl()
        t = self.tables(ctx)
        self.base_keys = set(t['token']) | set(t['general'])
        self.builtin_order = t['order']
        rng = ctx.sub_rng('c14-search')
        # histories on which model and implementation disagreed come first
        seqs = [d['input']['history'] for d in ctx.disagreements
                if isinstance(d.get('input'), dict) and d['input'].get('history')]
        seqs += self.corpus(ctx) + self.fixed_histories()
        self.oracle_builtin_macros(ctx, impl)
        if ctx.violations:
            return
        self.termination_correspond(ctx, impl, ctx.sub_rng('c14-term'))
        if ctx.violations:
            return
        for ops in seqs:
            self.oracle_history(ctx, impl, ops, rng)
            if ctx.violations:
                return
        for i in range(600):
            self.oracle_history(ctx, impl, self.gen_history(rng, clean=(i % 3 == 0)), rng)
            self.oracle_twin(ctx, impl, rng)
            if ctx.violations:
                return

    def replay(self, ctx, data):
        impl = Impl()
        t = self.tables(ctx)
        self.base_keys = set(t['token']) | set(t['general'])
        self.builtin_order = t['order']
        rng = ctx.sub_rng('replay')
        w = data.get('witness') or {}
        if w.get('oracle') == 'O9':
            self.oracle_builtin_macros(ctx, impl)
        elif w.get('oracle') == 'O8':
            self.termination_correspond(ctx, impl, rng, only=[(w['macros'], w['value'], w.get('kind', 'free'))])
        elif data.get('kind') == 'impl-violates' and w.get('oracle') == 'O1':
            self.oracle_twin(ctx, impl, rng, fixed=(w['ops'], w['insert_at'], w['remove_at'], w['profile']))
        elif data.get('kind') == 'impl-violates' and 'history' in w:
            self.oracle_history(ctx, impl, w['history'], rng)
            if w.get('oracle') == 'O6':
                p, tr = self.run_history(impl, w['history'])
                d = self.snap_diff(self.snapshot(impl, p), self.snapshot(impl, impl.fresh()))
                if d:
                    ctx.violate(data.get('clause'), w, d, known=self.attribute(tr))
        else:
            hs = [b['input']['history'] for b in data.get('broken', [])
                  if isinstance(b.get('input'), dict) and 'history' in b['input']]
            if hs and ctx.model_ok:
                self.correspond(ctx, impl, hs)
            else:
                self.run(ctx)


CHECK = C14()
