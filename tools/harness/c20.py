"""C20 — encutils reports the document encoding by the documented precedence.

model:    lean/CssVerif/Model/Encutils.lean (tables: lean/CssVerif/Gen/C20Tables.lean, regenerated from the source)
theorems: lean/CssVerif/Props/C20.lean
correspondence (model vs implementation, canonical observables only):
  * `_getTextTypeByMediaType` / `encodingByMediaType` / `_getTextType` on an exhaustive block product of media-type
    spellings + generated ones; `str.lower` / `str.strip` on every code point < 256 and the generator alphabets,
  * `detectXMLEncoding` on generated documents (grammar / malformed / boundary streams) given as str, bytes, text
    file object at every kind of position, binary file object: result or exception class, stream position afterwards,
  * `getEncodingInfo` on the FULL cross product media type x transport charset x XML part x meta part x text/bytes
    (every field of EncodingInfo), and on generated (response stub, document) pairs incl. raw message stubs.
  * wave 3: every getEncodingInfo case travels with the kind of its document (str / bytes) and with the start tags that a
    recorder in front of the code's own _MetaHTMLParser.handle_starttag saw (ops infod, meta); generated attribute lists
    straight into the callback; documents for the meta stage; text vs encoded bytes; tryEncodings without chardet (op try);
    the Lean strict XMLDecl reader against the oracle's strict parser (op strict).
oracle (implementation only, independent spec in c20_spec.py): documented classification and defaults; BOM / strict
  XML 1.0 declaration / UTF-8; position restored; the documented first-match table; lower-case; mismatch iff.
Each case is a JSON-able "witness" dict; streams only build witnesses, `process` evaluates them (also used by
replay, the corpus and the known findings).
"""
import email.utils
import glob
import io
import itertools
import json
import logging
import os
import re
import warnings
from email.message import Message
from http.client import HTTPMessage

from lib.framework import Check, enc, time_limit
from harness import c20_spec as S

KF_SHORT = 'C20-info-short'     # the only finding still open (getEncodingInfo level); the others are fixed (known/C20.json)

_silent = logging.getLogger('c20-silent')
_silent.addHandler(logging.NullHandler())
_silent.propagate = False
_silent.setLevel(logging.CRITICAL + 10)


def impl():
    import encutils
    return encutils


def opt(s):
    return 'N' if s is None else enc(s)


def as_text(x):
    """documents travel as str; bytes documents are their latin-1 decoding"""
    return x.decode('latin-1') if isinstance(x, bytes) else x


# ----------------------------------------------------------------------------------------------
# response stubs
class RawInfo:
    """message object answering exactly what it is told"""
    def __init__(self, media_type, charset):
        self._mt, self._cs = media_type, charset

    def get_content_type(self):
        return self._mt

    def get_content_charset(self):
        return self._cs


class Resp:
    def __init__(self, info, body):
        self._info, self._body = info, body

    def info(self):
        return self._info

    def read(self):
        if self._body is None:
            raise OSError('stub: read failed')
        return self._body


def build_resp(r):
    """witness['resp'] -> stub (None = no response)"""
    if r is None:
        return None
    body = r.get('body')
    if body is not None and r.get('body_bytes'):
        body = body.encode('latin-1')
    if r['kind'] == 'raw':
        return Resp(RawInfo(r['media_type'], r['charset']), body)
    m = HTTPMessage() if r.get('cls') == 'HTTPMessage' else Message()
    if r['content_type'] is not None:
        m['Content-Type'] = r['content_type']
    return Resp(m, body)


# ----------------------------------------------------------------------------------------------
# the front part of getMetaInfo that the model takes as input: HTML parser + parameter parser
def meta_raw(E, text):
    """-> ('raises', exc class name) | ('absent',) | ('found', media_type, None | str | tuple)"""
    p = E._MetaHTMLParser()
    try:
        p.feed(text)
    except Exception as e:          # noqa: BLE001  (whatever the parser stage raises is an input of the model)
        return ('raises', type(e).__name__)
    if not p.content_type:
        return ('absent',)
    try:
        m = Message()
        m['content-type'] = p.content_type
        cs = m.get_param('charset')
        if isinstance(cs, tuple):       # RFC 2231: the model is given what email.utils makes of the triple
            cs = ('T', email.utils.collapse_rfc2231_value(cs))
        return ('found', m.get_content_type(), cs)
    except Exception as e:          # noqa: BLE001
        return ('raises', type(e).__name__)


def record_meta(E, text):
    """run the code's own parser class on the text with a recorder in front of its callback:
    -> (start tags html.parser reported [(tag, [(name, value|None)])], exception class name | None, p.content_type)"""
    events = []

    class Rec(E._MetaHTMLParser):
        def handle_starttag(self, tag, attrs):
            events.append((tag, list(attrs)))
            super().handle_starttag(tag, attrs)
    p = Rec()
    try:
        p.feed(text)
    except Exception as e:          # noqa: BLE001
        return events, type(e).__name__, None
    return events, None, p.content_type


def msg_stage(content):
    """what email.message.Message answers for a content string (input of the model)
    -> ('ok', media_type, None | str | ('T', collapsed)) | ('raises', exc class name)"""
    try:
        m = Message()
        m['content-type'] = content
        cs = m.get_param('charset')
        if isinstance(cs, tuple):       # RFC 2231: the model is given what email.utils makes of the triple
            cs = ('T', email.utils.collapse_rfc2231_value(cs))
        return ('ok', m.get_content_type(), cs)
    except Exception as e:          # noqa: BLE001
        return ('raises', type(e).__name__)


def enc_events(events):
    ws = []
    for tag, attrs in events:
        ws += ['T', enc(tag), str(len(attrs))]
        for a, v in attrs:
            ws += [enc(a), opt(v)]
    return ' '.join(ws)


# ----------------------------------------------------------------------------------------------
# vocabularies
ENC_A, ENC_B, ENC_C = 'enc-a', 'Enc-B', 'ENC-C'
MEDIA_TYPES = [
    ('application/xml', 'appxml'), ('application/xml-dtd', 'appxml'),
    ('application/xml-external-parsed-entity', 'appxml'), ('application/xhtml+xml', 'appxml'),
    ('application/rss+xml', 'appxml'), ('Application/Atom+XML', 'appxml'),
    ('text/xml', 'textxml'), ('text/xml-external-parsed-entity', 'textxml'), ('text/x-foo+xml', 'textxml'),
    ('text/html', 'html'), ('TEXT/HTML', 'html'), ('text/css', 'css'), ('text/plain', 'text'),
    ('text/javascript', 'text'), ('image/png', 'other'), ('application/json', 'other'),
]
BOM_CHARS = [('\x00\x00\xfe\xff', 'utf-32-be'), ('\xff\xfe\x00\x00', 'utf-32-le'), ('\xfe\xff', 'utf-16-be'),
             ('\xff\xfe', 'utf-16-le'), ('\xef\xbb\xbf', 'utf-8')]
HTML_BODY = '<html><head><title>t</title>%s</head><body><p>text</p></body></html>'
ENC_NAMES = ['utf-8', 'UTF-8', 'iso-8859-1', 'ISO-8859-15', 'ascii', 'windows-1252', 'Shift_JIS', 'utf-16', 'koi8-r',
             'x', 'Enc-B', 'enc-a', 'ENC-C', 'EUC-JP', 'Big5', 'us-ascii']


def decl(encoding=None, q='"', s1=' ', s2=' ', eq='=', standalone=None, tail='', version='1.0', eqv='='):
    d = '<?xml' + s1 + 'version' + eqv + q + version + q
    if encoding is not None:
        d += s2 + 'encoding' + eq + q + encoding + q
    if standalone is not None:
        d += ' standalone=' + q + standalone + q
    return d + tail + '?>'


def meta_tag(charset=None, media='text/html', rng=None):
    """a Content-Type <meta> element; with rng: independent spelling choices"""
    content = media + ('' if charset is None else ';charset=' + charset)
    if rng is None:
        return '<meta http-equiv="Content-Type" content="%s">' % content
    if charset is not None:
        sp = rng.choice
        content = media + sp(['', ' ']) + ';' + sp(['', ' ', 'x=2;', 'x=2; ']) + sp(['charset', 'CHARSET', 'Charset']) \
            + sp(['=', ' = ', '= ']) + charset + sp(['', ';y=3', ' '])
    q = rng.choice(['"', "'"])
    he = rng.choice(['http-equiv', 'HTTP-EQUIV', 'Http-Equiv']) + rng.choice(['=', ' = ']) + q + \
        rng.choice(['', ' ']) + rng.choice(['Content-Type', 'content-type', 'CONTENT-TYPE']) + rng.choice(['', ' ']) + q
    co = rng.choice(['content', 'CONTENT']) + '=' + q + rng.choice(['', ' ']) + content + q
    parts = [he, co] if rng.random() < 0.5 else [co, he]
    if rng.random() < 0.3:
        parts.insert(rng.randint(0, 2), 'name="n"')
    return '<meta ' + ' '.join(parts) + rng.choice(['>', ' >', '/>', ' />'])


# ----------------------------------------------------------------------------------------------
class C20(Check):
    id = 'C20'
    props_module = 'CssVerif.Props.C20'
    driver_exe = 'drv_c20'
    sources = ('encutils/__init__.py',)
    trusted_base = (
        'hand-written models lean/CssVerif/Model/Encutils.lean (_getTextTypeByMediaType / _getTextType / encodingByMediaType / '
        'detectXMLEncoding / getEncodingInfo, tails of getHTTPInfo and getMetaInfo), Model/EncutilsDoc.lean (the bytes guards, '
        '_MetaHTMLParser.handle_starttag over the reported start tags, front of getMetaInfo, getEncodingInfo on str/bytes '
        'documents, EncodingInfo.__str__) and Model/EncutilsTry.lean (tryEncodings without chardet), tied to '
        'encutils/__init__.py by the correspondence of this run (full cross-product table, generated documents, start tags '
        'recorded in front of the code\'s own callback, generated attribute lists, byte strings)',
        'translator tools/gen/c20_tables.py (ast): constants, the if/elif ladder, lists, regexes (through '
        'tools/gen/relib.py into Re terms), bomDict, defaultencodings, read sizes, the shape and literals of '
        '_MetaHTMLParser, the codec of the five bytes guards, the tuple and literals of tryEncodings',
        'not modelled, inputs of the model (arbitrary functions in the theorems): html.parser.HTMLParser (document -> start '
        'tags), email.message.Message with email.utils.collapse_rfc2231_value (content string -> media type, charset '
        'parameter); io.StringIO/BytesIO seek/tell/read; which bytes the codecs ascii / iso-8859-1 / windows-1252 accept '
        '(typed by hand, checked on every byte each run); UTF-8 validity; the log; the url= parameter',
        'sre-faithfulness of Re.ms for the three regexes (validated each run by the correspondence on generated '
        'declarations; group spans cross-checked by the translator against CPython re)',
        'spec side typed by hand: documented table, XML 1.0 XMLDecl grammar (its executable reader is compared with the '
        'oracle\'s independent strict parser each run), first-deciding-meta rule, AsciiTransparent',
    )
    assumptions = (
        'str.lower() = ASCII + Latin-1 lower-casing and str.strip() = the Py_UNICODE_ISSPACE set on the generated '
        'alphabets (checked on every code point < 256 and on the generator alphabets each run; cased letters '
        'outside Latin-1 are not generated where the code lower-cases)',
        'bytes documents travel as bytes to the model (kind B) and are decoded as latin-1 there, as the code does',
        'tryEncodings is exercised only when chardet is not importable (the branch the model covers)',
    )
    rule = ('table: FULL product 18 transport kinds (16 media types, no Content-Type header, no response) x '
            '3 transport charsets x 11 XML parts (none / declaration without, with 3 encodings / 5 BOMs / BOM+declaration) '
            'x 5 meta parts x text|bytes; sniffer: grammar stream of XML 1.0 declarations with independent spelling '
            'choices (white space kinds, quotes, spaces around =, standalone, stray encoding attributes, other PI '
            'targets), malformed stream (truncation at every offset, deletions, case changes), boundary stream '
            '(lengths 0..6, every BOM prefix, the 2048 read limit), each as str / bytes / text file at a position / '
            'binary file, each str document also through the strict reader; classification: block product of prefixes x '
            'main types x subtypes x suffixes + random; meta stage: documents with 1-4 <meta>-like elements in odd spellings '
            'and places, and attribute lists straight into handle_starttag; text vs its bytes in utf-8 / latin-1 / cp1252 '
            '(ASCII documents, ASCII head of 2048 characters, early non-ASCII); tryEncodings: every byte, pairs of 17 bytes, '
            'random byte strings. non-trivial = distinct witness in which at least one source is present (media type '
            'classifies as non-other, or the document carries a BOM, a declaration or a meta element; a meta start tag '
            'with attributes; non-ASCII bytes)')

    def translate(self, ctx):
        from gen import c20_tables
        return c20_tables.generate(ctx.repo)

    # ------------------------------------------------------------------------------------------
    def run(self, ctx):
        E = impl()
        rng = ctx.sub_rng('c20')
        self.process(ctx, E, self.corpus(ctx), 'corpus')
        self.tie_strings(ctx, E)
        self.process(ctx, E, self.gen_classify(ctx, rng), 'classify')
        self.process(ctx, E, self.gen_sniff(ctx, rng), 'sniff')
        self.process(ctx, E, self.gen_table(ctx), 'table')
        self.process(ctx, E, self.gen_info(ctx, rng), 'info')
        self.process(ctx, E, self.gen_metadocs(ctx, rng), 'metadocs')
        self.process(ctx, E, self.gen_metascan(ctx, rng), 'metascan')
        self.process(ctx, E, self.gen_encoded(ctx, rng), 'encoded')
        self.process(ctx, E, self.gen_try(ctx, rng), 'try')
        self.default_log_path(ctx, E)

    def corpus(self, ctx):
        ws = []
        for f in sorted(glob.glob(os.path.join(ctx.verif, 'tools', 'corpus', 'C20', '*.json'))):
            ws += json.load(open(f))
        return ws

    # -- str.lower / str.strip ----------------------------------------------------------------------
    def tie_strings(self, ctx, E):
        cps = list(range(0, 256)) + [0x20AC, 0x4E2D, 0x2003, 0x3000, 0x1F600, 0x2028, 0x85, 0x1680, 0x200B, 0xFEFF]
        lines, want = [], []
        for c in cps:
            s = 'A' + chr(c) + 'z'
            lines.append('lower ' + enc(s))
            want.append(enc(s.lower()))
            for s in (chr(c) + 'a b' + chr(c), ' ' + chr(c) + 'x' + chr(c) + '\t', chr(c)):
                lines.append('strip ' + enc(s))
                want.append(enc(s.strip()))
        out = ctx.driver(lines) if ctx.model_ok else []
        for ln, w, m in zip(lines, want, out):
            ctx.case(key=('str', ln), nontrivial=False, kind='str-tie')
            if m != w:
                ctx.disagree('python string helper', ln, w, m)

    # -- generators: media types ------------------------------------------------------------------------
    def gen_classify(self, ctx, rng):
        ws = [{'call': 'classify', 'media_type': None}, {'call': 'classify', 'media_type': ''},
              # the regex source strings themselves (they sit in the same lists as the names)
              {'call': 'classify', 'media_type': 'application/.*?\\+xml'}, {'call': 'classify', 'media_type': 'text\\/.*?\\+xml'},
              {'call': 'classify', 'media_type': ' TEXT\\/.*?\\+XML '}, {'call': 'classify', 'media_type': 'text\\/.*?\\+xm'}]
        pre = ['', ' ', 'x', '\t\n']
        main = ['application/', 'text/', 'image/', 'Application/', 'TEXT/', '', 'text', 'applicationx/', 'text /']
        sub = ['xml', 'xml-dtd', 'xml-external-parsed-entity', 'html', 'css', 'plain', 'x+xml', '+xml', 'x+xm', 'x+xmlx',
               'a\n+xml', '', 'XML', 'HTML', 'Css', 'xml ', 'html+xml', 'css+xml', 'xml-dtdx', 'x+XML', 'É+xml',
               'x +xml', 'x+ xml', '++xml+', 'vnd.a+b+xml', 'htm', 'html5']
        suf = ['', ' ', '\t', 'z', '　', ';']
        for p, m, s, x in itertools.product(pre, main, sub, suf):
            ws.append({'call': 'classify', 'media_type': p + m + s + x})
        for mt, _ in MEDIA_TYPES:
            ws.append({'call': 'classify', 'media_type': mt})
        alpha = ['a', 'x', 'm', 'l', '+', '/', 'text', 'application', 'xml', 'html', 'css', ' ', 'T', 'X', '-', '\n',
                 'é', 'É', '€', '.']
        for _ in range(ctx.n(1500, 100000)):
            ws.append({'call': 'classify', 'media_type': ''.join(rng.choice(alpha) for _ in range(rng.randint(1, 7)))})
        return ws

    # -- generators: documents for the sniffer -----------------------------------------------------------
    def gen_decl(self, rng):
        """a well-formed XML 1.0 declaration with independent spelling choices"""
        # line feeds and spaces around '=' are legal but rare in the wild, and they are exactly the region of a
        # listed finding: keep most declarations outside it so that the oracle sees them
        if rng.random() < 0.2:
            ws = lambda: rng.choice([' ', '  ', '\t', '\r', '\n', '\r\n', ' \n '])     # noqa: E731
            eq = lambda: rng.choice(['=', ' =', '= ', ' = ', '\t=\n'])                  # noqa: E731
            tl = ['', ' ', '\n']
        else:
            ws = lambda: rng.choice([' ', ' ', ' ', '  ', '\t', '\r'])                  # noqa: E731
            eq = lambda: '='                                                           # noqa: E731
            tl = ['', '', ' ']
        return decl(encoding=rng.choice(ENC_NAMES) if rng.random() < 0.75 else None,
                    q=rng.choice(['"', "'"]), s1=ws(), s2=ws(), eq=eq(), eqv=eq(),
                    standalone=rng.choice([None, None, 'yes', 'no']), tail=rng.choice(tl),
                    version=rng.choice(['1.0', '1.0', '1.1']))

    def gen_body(self, rng):
        parts = ['<a>', '<x encoding="zz"/>', '<?pi data?>', "<y encoding='Q'>", '\n', 'text', '<b c="d"/>', '?>',
                 '<?xml-stylesheet href="s.css"?>', ' ', 'é', '<!-- c -->', 'encoding=', '"', "'"]
        return ''.join(rng.choice(parts) for _ in range(rng.randint(0, 6)))

    def gen_doc(self, rng):
        r = rng.random()
        bom = rng.choice(BOM_CHARS)[0] if rng.random() < 0.15 else ''
        if r < 0.5:
            d = self.gen_decl(rng) + self.gen_body(rng)
        elif r < 0.6:
            d = rng.choice(['<?xml-stylesheet href="a" encoding="pi"?>', '<?xmlx encoding="y"?>', '<?XML version="1.0" encoding="u"?>',
                            ' <?xml version="1.0" encoding="lead"?>', '<?xml encoding="nov"?>', '<?xml version="1.0" encoding=""?>',
                            '<?xml version="1.0" encoding="a\'?>', '<?xml version="1.0" encoding=\'b"?>\'?>',
                            '<?xml version="1.0"?>', '<?xml version="1.0" ?>']) + self.gen_body(rng)
        elif r < 0.8:   # malformed: mutate a well-formed one
            d = self.gen_decl(rng) + self.gen_body(rng)
            k = rng.random()
            if k < 0.4:
                d = d[:rng.randint(0, len(d))]
            elif k < 0.7 and d:
                i = rng.randrange(len(d))
                d = d[:i] + d[i + 1:]
            elif k < 0.85 and d:
                i = rng.randrange(len(d))
                d = d[:i] + d[i].swapcase() + d[i + 1:]
            else:
                i = rng.randint(0, len(d))
                d = d[:i] + rng.choice(['"', "'", '?>', '\n', 'encoding=', '<', ' ']) + d[i:]
        else:
            d = self.gen_body(rng)
        return bom + d

    def gen_sniff(self, ctx, rng):
        docs = []
        # boundary: every short document over a small alphabet, every BOM and BOM prefix
        small = ['<', '?', 'x', '\xff', '\xfe', '\x00', '\xef', '\xbb', '\xbf']
        for n in range(0, 4):
            for t in itertools.product(small[:4] if n == 3 else small, repeat=n):
                docs.append(''.join(t))
        heads = ['\x00', '\xff', '\xfe', '\xef', '\xbb', '\xbf', 'a']
        for t in itertools.product(heads, repeat=4):
            docs.append(''.join(t) + '<?xml version="1.0" encoding="d"?>')
        for b, _ in BOM_CHARS:
            for k in range(1, len(b) + 1):
                docs += [b[:k], b[:k] + 'ab', b[:k] + '<?xml version="1.0" encoding="d"?>', b[:k] + '\x00\x00\x00\x00']
        # boundary: the 2048 read limit
        for pad in (1990, 2003, 2004, 2005, 2006, 2010, 2011, 2012, 2013, 2020):
            d = '<?xml version="1.0"' + ' ' * pad + 'encoding="late"?>'
            docs += [d, d + '<a/>']
        docs.append('<?xml version="1.0" encoding="e"' + ' ' * 2100 + '?>')
        docs.append('<?xml version="1.0" encoding="' + 'n' * 2100 + '"?>')
        n_limit = len(docs)     # declarations longer than the documented 2 KB window: correspondence only
        # fixed: the unit tests' rows and the listed findings' neighbourhood
        docs += ['<?xml version="1.0" encoding="ascii" ?>', "<?xml version='1.0' encoding='ISO-8859-1' ?>",
                 '<?xml version="1.0" ?>', '<?xml version="1.0"?><x encoding="ascii"/>',
                 '<?xml version="1.0"?><x encoding="ascii"/><?pi ?>', '<?xml version="1.0"\nencoding="x"?>',
                 '<?xml version="1.0" encoding = "x"?>', '<?xml version="1.0" encoding="É"?>',
                 '<?xml version="1.0" encoding="a" encoding="b"?>', '<?xml version="1.0" encoding="a"?>\n<?p encoding="b"?>']
        for _ in range(ctx.n(2500, 150000)):
            docs.append(self.gen_doc(rng))
        ws = []
        long_decl = set(d for d in docs[:n_limit] if d.find('?>') + 2 > 2048)
        for i, d in enumerate(docs):
            forms = ['str']
            if all(ord(c) < 256 for c in d):
                forms += ['bytes']
            forms += [rng.choice(['StringIO', 'StringIO', 'BytesIO'])] if i % 3 == 0 or len(d) < 8 else []
            for f in forms:
                if f == 'BytesIO' and not all(ord(c) < 256 for c in d):
                    f = 'StringIO'
                pos = rng.choice([0, 0, 1, 3, 4, 5, len(d), len(d) + 3, max(0, len(d) - 1)]) if f.endswith('IO') else 0
                ws.append({'call': 'detectXMLEncoding', 'doc': d, 'form': f, 'pos': pos,
                           'includeDefault': rng.random() < 0.7})
                if d in long_decl:
                    ws[-1]['oracle'] = False
            if i % 5 == 0:
                ws.append({'call': 'textType', 'doc': d, 'bytes': all(ord(c) < 256 for c in d) and i % 2 == 0})
        for d in ['<?xml version=', ' ' * 16 + '<?xml version=', ' ' * 17 + '<?xml version=', '\xef\xbb\xbf<?xml version="1.0"',
                  '<?xml  version=', '<?XML version=', '', 'x' * 30 + '<?xml version=']:
            ws.append({'call': 'textType', 'doc': d, 'bytes': False})
            ws.append({'call': 'textType', 'doc': d, 'bytes': True})
        return ws

    # -- the full cross product -------------------------------------------------------------------------
    def gen_table(self, ctx):
        transports = [('resp', mt) for mt, _ in MEDIA_TYPES] + [('resp', None), ('none', None)]
        charsets = [None, ENC_A, ENC_B]
        xmls = [('', None)] + [(decl(None), None)] + [(decl(e), e) for e in (ENC_A, ENC_B, ENC_C)] + \
            [(b + '<root>', None) for b, _ in BOM_CHARS] + [('\xef\xbb\xbf' + decl(ENC_A), None)]
        metas = [('', None), (meta_tag(None), None)] + [(meta_tag(e), e) for e in (ENC_A, ENC_B, ENC_C)]
        ws = []
        for (tk, mt), cs, (xp, _xe), (mp, me), isb in itertools.product(transports, charsets, xmls, metas, (False, True)):
            if tk == 'none' and cs is not None:
                continue
            resp = None
            if tk == 'resp':
                ct = None if mt is None else (mt + ('' if cs is None else '; charset=' + cs))
                if mt is None and cs is not None:
                    continue        # a charset needs a Content-Type header
                resp = {'kind': 'message', 'content_type': ct, 'body': None}
            ws.append({'call': 'getEncodingInfo', 'resp': resp, 'text': xp + (HTML_BODY % mp), 'bytes': isb,
                       'media_type': mt, 'charset': cs, 'meta_charset': me, 'stream': 'table'})
        ctx.notes['table_rows'] = len(ws)
        return ws

    # -- generated (response, document) pairs -----------------------------------------------------------
    def gen_info(self, ctx, rng):
        ws = []
        mts = [m for m, _ in MEDIA_TYPES] + ['text/xml+xml', 'application/octet-stream', 'x/y', 'text/HTML+xml']
        for _ in range(ctx.n(2500, 150000)):
            r = rng.random()
            cs = rng.choice([None, None] + ENC_NAMES)
            mt = rng.choice(mts) if rng.random() < 0.5 else rng.choice(['text/html', 'text/html', 'text/plain', 'application/xhtml+xml'])
            me = rng.choice([None, None] + ENC_NAMES + ['X-\xc9t\xe9'])     # Latin-1 letters: lower-casing, bytes documents
            xr = rng.random()
            mr = rng.random()
            if 0.55 <= xr < 0.65:
                mr = 1.0        # a possibly malformed XML part may swallow what follows: no meta element then
            if xr < 0.45:
                xp = self.gen_decl(rng)
            elif xr < 0.55:
                xp = rng.choice(BOM_CHARS)[0] + rng.choice(['', self.gen_decl(rng)])
            elif xr < 0.65:
                xp = self.gen_doc(rng)
            else:
                xp = ''
            has_meta = mr < 0.6
            mp = ''
            if has_meta:
                mp = meta_tag(me, media=rng.choice(['text/html', 'application/xhtml+xml', 'text/plain']), rng=rng)
                if rng.random() < 0.2:      # a commented-out and a later second one: neither counts
                    mp = '<!-- ' + meta_tag('commented', rng=rng) + ' -->' + mp + meta_tag('second', rng=rng)
                if rng.random() < 0.15:     # other meta elements before it
                    mp = '<meta name="a" content="b"><META NAME=c CONTENT=d>' + mp
            else:
                me = None
            text = xp + (HTML_BODY % mp if rng.random() < 0.8 else mp)
            if rng.random() < 0.06:
                text = text[:rng.randint(0, 5)]
                if has_meta:
                    continue
            w = {'call': 'getEncodingInfo', 'text': text, 'bytes': rng.random() < 0.4 and all(ord(c) < 256 for c in text),
                 'meta_charset': me, 'stream': 'info'}
            if r < 0.12:
                w.update(resp=None, media_type=None, charset=None)
            elif r < 0.8:
                ct = mt if rng.random() < 0.7 else mt.upper()
                if cs is not None:
                    ct += rng.choice([';', '; ', ' ;']) + rng.choice(['charset=', 'CHARSET=', 'charset = ']) + \
                        rng.choice([cs, '"%s"' % cs])
                w.update(resp={'kind': 'message', 'content_type': ct, 'body': None,
                               'cls': rng.choice(['Message', 'HTTPMessage'])}, media_type=mt, charset=cs)
            else:
                rmt = rng.choice([mt, ' ' + mt.upper() + '\t', None, '', mt + ' '])
                rcs = rng.choice([cs, '', None, 'É-Enc'])
                w.update(resp={'kind': 'raw', 'media_type': rmt, 'charset': rcs, 'body': None}, media_type=rmt, charset=rcs)
            if w['resp'] is not None and rng.random() < 0.1:
                # text=None: the document is read from the response (or the read fails)
                w['resp']['body'] = None if rng.random() < 0.3 else text
                w['resp']['body_bytes'] = w['bytes']
                w['text'] = None
                if w['resp']['body'] is None:
                    w['meta_charset'] = None    # the read fails: the document is ''
            ws.append(w)
        # documents that the meta sniffer must survive
        for t, me in [('<meta charset><meta http-equiv="Content-Type" content="text/html;charset=After">', 'After'),
                      ('<meta itemscope itemtype=x>', None),
                      ('<meta http-equiv="content-type" content="text/html;charset*=utf-8\'\'ISO-8859-15">', 'ISO-8859-15'),
                      ('<meta http-equiv="Content-Type" content=\'text/html;charset*="us-ascii\'en\'X%2DEnc"\'>', None)]:
            for mt in ('text/html', 'text/plain', 'text/css', 'application/xml'):
                w = {'call': 'getEncodingInfo', 'text': t + 'padding', 'bytes': False, 'stream': 'info-meta',
                     'resp': {'kind': 'message', 'content_type': mt, 'body': None}, 'media_type': mt, 'charset': None}
                if me is not None or 'itemscope' in t:
                    w['meta_charset'] = me
                ws.append(w)
        for t in ['<meta charset>', '<meta http-equiv content="text/html;charset=x">', '<META foo><meta http-equiv="Content-Type" content="text/html;charset=x">',
                  '<meta http-equiv="content-type" content="text/html;charset*=utf-8\'\'abc">', '<meta http-equiv="content-type" content>',
                  '</ >', '<![if x]>', '<meta http-equiv="Content-Type" content="text/html;charset=x"><meta bar>', '<!DOCTYPE html><meta http-equiv=Content-Type content=text/html;charset=q>']:
            for mt in ('text/html', 'text/plain', 'text/css', 'application/xml'):
                ws.append({'call': 'getEncodingInfo', 'text': t + 'padding', 'bytes': False, 'stream': 'info-meta',
                           'resp': {'kind': 'message', 'content_type': mt, 'body': None}, 'media_type': mt, 'charset': None})
        return ws

    # -- text against its bytes in UTF-8 / latin-1 / cp1252 ------------------------------------------------
    def gen_encoded(self, ctx, rng):
        ws = []
        tails = ['<a>€中\xfc</a>', '\xe9\xe8', '<meta http-equiv="Content-Type" content="text/html;charset=中-x">',
                 'encoding="\xe9"?>', '\U0001f600']
        mts = [m for m, _ in MEDIA_TYPES] + [None]
        for _ in range(ctx.n(250, 6000)):
            mt = rng.choice(mts)
            cs = rng.choice([None, None, 'Enc-A', 'utf-8'])
            resp = None if (mt is None and rng.random() < 0.7) else \
                {'kind': 'message', 'content_type': None if mt is None else mt + ('' if cs is None else ';charset=' + cs), 'body': None}
            r = rng.random()
            xp = self.gen_decl(rng) if rng.random() < 0.7 else ''
            mp = meta_tag(rng.choice(ENC_NAMES), rng=rng) if rng.random() < 0.6 else ''
            if r < 0.35:        # all ASCII: every class, every codec
                text = xp + HTML_BODY % mp
                codec = rng.choice(['utf-8', 'latin-1', 'cp1252', 'ascii'])
            elif r < 0.8:       # ASCII head of at least 2048 characters, then anything
                head = xp + '<!--' + 'x' * rng.choice([2048, 2100, 2047 - len(xp) - 4 if len(xp) < 2000 else 2048]) + '-->'
                text = head + (HTML_BODY % mp) + rng.choice(tails)
                codec = 'utf-8'
            else:               # non-ASCII early: nothing promised, correspondence only
                text = xp + rng.choice(tails) + HTML_BODY % mp
                codec = 'utf-8'
            ws.append({'call': 'textVsEncoded', 'resp': resp, 'text': text, 'codec': codec})
        return ws

    # -- tryEncodings (the branch without chardet) -----------------------------------------------------------
    def gen_try(self, ctx, rng):
        try:
            import chardet      # noqa: F401
            ctx.notes['tryEncodings'] = 'chardet is installed: the trial loop does not run, stream skipped'
            return []
        except ImportError:
            pass
        docs = [bytes([x]) for x in range(256)] + [b'']
        hot = [0x00, 0x41, 0x7f, 0x80, 0x81, 0x8d, 0x8f, 0x90, 0x9d, 0xa0, 0xe4, 0xff, 0xc3, 0xa4, 0xe2, 0x82, 0xac]
        docs += [bytes([a, b]) for a in hot for b in hot]
        for t in ['\xe4\xf6\xfc\xdf', '€', 'a€b', '中', 'caf\xe9']:
            docs += [t.encode('utf-8')] + ([t.encode('latin-1')] if all(ord(c) < 256 for c in t) else []) + \
                [t.encode('windows-1252', 'replace')]
        for _ in range(ctx.n(600, 30000)):
            n = rng.randint(1, 12)
            docs.append(bytes(rng.choice(hot) if rng.random() < 0.4 else rng.randrange(32, 127) for _ in range(n)))
        return [{'call': 'tryEncodings', 'doc': d.decode('latin-1')} for d in docs]

    # -- documents for the meta stage: what html.parser reports for them goes through the model ------------------
    def gen_metadocs(self, ctx, rng):
        """documents with several / odd <meta> elements; no expectation from the documented table (the key meta_charset is
        left out): correspondence of the whole call, of the callback on the reported start tags, and the oracle spec_meta"""
        he = ['http-equiv="Content-Type"', "http-equiv='content-type'", 'HTTP-EQUIV=Content-Type', 'http-equiv=" content-type "',
              'http-equiv', 'http-equiv=""', 'http-equiv="refresh"', 'http-equiv="content&#45;type"', 'http-equiv="Content-Type" http-equiv="x"',
              'http-equiv="x" http-equiv="Content-Type"', 'name="keywords"', 'charset="utf-8"', 'charset']
        co = ['content="text/html;charset=%s"', "content='text/html; charset=%s'", 'content=text/html;charset=%s', 'CONTENT="TEXT/HTML;CHARSET=%s"',
              'content=""', 'content', 'content="text/html"', 'content="a" content="text/html;charset=%s"', 'content="%s"', '']
        wrap = ['%s', '%s', '%s', '<!-- %s -->', '<script>%s</script>', '<head>%s</head>', '<HEAD>%s</HEAD>', '<title>%s</title>',
                '<style>%s</style>', '<p title="%s">', '<![CDATA[%s]]>', '<noscript>%s</noscript>', '<textarea>%s</textarea>']
        end = ['>', ' >', '/>', ' />', '>', '\n>']
        ws = []
        for _ in range(ctx.n(500, 40000)):
            parts = []
            for _ in range(rng.randint(1, 4)):
                c = rng.choice(co)
                if '%s' in c:
                    c = c % rng.choice(ENC_NAMES + ['X-\xc9t\xe9', ''])
                attrs = [rng.choice(he), c]
                rng.shuffle(attrs)
                tag = rng.choice(['meta', 'meta', 'meta', 'META', 'Meta', 'link', 'metadata'])
                m = '<' + tag + ' ' + ' '.join(a for a in attrs if a) + rng.choice(end)
                w = rng.choice(wrap)
                parts.append(w % (m.replace('"', "'") if 'title=' in w else m))
            text = rng.choice(['', '<!DOCTYPE html>', '<?xml version="1.0" encoding="Enc-C"?>', '\xef\xbb\xbf']) + '<html>' + ''.join(parts) + \
                rng.choice(['</html>', '', '<body>x</body></html>', '<meta'])
            mt = rng.choice(['text/html', 'text/html', 'text/plain', 'text/x-foo', 'application/xhtml+xml'])
            cs = rng.choice([None, None, 'Enc-A'])
            ws.append({'call': 'getEncodingInfo', 'text': text, 'bytes': rng.random() < 0.4 and all(ord(ch) < 256 for ch in text),
                       'resp': {'kind': 'message', 'content_type': mt + ('' if cs is None else ';charset=' + cs), 'body': None},
                       'media_type': mt, 'charset': cs, 'stream': 'metadocs'})
        return ws

    # -- attribute lists straight into the callback of the meta parser --------------------------------------
    def gen_metascan(self, ctx, rng):
        """sequences of handle_starttag calls: what html.parser can report (lower-case names, None for a value-less
        attribute, repeated attributes) and beyond (the callback lower-cases names itself)"""
        tags = ['meta'] * 14 + ['META', 'link', 'title', 'metadata', 'met', '']
        names = ['http-equiv'] * 4 + ['content'] * 4 + ['HTTP-EQUIV', 'Http-Equiv', 'CONTENT', 'name', 'charset',
                                                         'http-equiv ', 'httpequiv', 'contents', 'É']
        equivs = ['Content-Type', 'content-type', ' content-type ', 'CONTENT-TYPE\t', '\ncontent-type', 'content-type;',
                  'refresh', 'Content-Typ', '', None, 'content type', '\xa0content-type ']
        contents = ['text/html;charset=X', 'TEXT/HTML; Charset=É', 'text/html', '', None, ' ', 'A', 'b', 'application/xhtml+xml; charset=Enc-B']
        ws = []
        fixed = [
            [('meta', [('http-equiv', 'Content-Type'), ('content', 'A')]), ('meta', [('http-equiv', 'Content-Type'), ('content', 'B')])],
            [('meta', [('http-equiv', 'Content-Type'), ('content', '')]), ('meta', [('http-equiv', 'Content-Type'), ('content', 'B')])],
            [('meta', [('http-equiv', 'Content-Type')]), ('meta', [('http-equiv', 'Content-Type'), ('content', 'B')])],
            [('meta', [('http-equiv', 'Content-Type'), ('content', None)]), ('meta', [('content', 'B'), ('http-equiv', 'Content-Type')])],
            [('meta', [('http-equiv', 'refresh'), ('http-equiv', 'Content-Type'), ('content', 'A'), ('content', 'Z')])],
            [('meta', [('http-equiv', 'Content-Type'), ('http-equiv', 'refresh'), ('content', 'A')]), ('meta', [('HTTP-EQUIV', 'CONTENT-TYPE'), ('CONTENT', 'Q')])],
            [('meta', [('charset', None)]), ('META', [('http-equiv', 'Content-Type'), ('content', 'up')]), ('meta', [('http-equiv', ' Content-Type '), ('content', 'low')])],
            [], [('meta', [])], [('link', [('http-equiv', 'Content-Type'), ('content', 'A')])],
        ]
        for ev in fixed:
            ws.append({'call': 'metaScan', 'events': [[t, [list(a) for a in at]] for t, at in ev]})
        for _ in range(ctx.n(2500, 120000)):
            ev = []
            for _ in range(rng.randint(1, 4)):
                attrs = []
                for _ in range(rng.randint(1, 4)):
                    n = rng.choice(names)
                    low = n.strip().lower()
                    if low == 'http-equiv':     # mostly a spelling that counts, so that several metas of a sequence decide
                        v = rng.choice(equivs[:5]) if rng.random() < 0.6 else rng.choice(equivs)
                    elif low == 'content':
                        v = rng.choice(contents)
                    else:
                        v = rng.choice(['n', None, 'Content-Type', 'utf-8'])
                    attrs.append([n, v])
                ev.append([rng.choice(tags), attrs])
            ws.append({'call': 'metaScan', 'events': ev})
        return ws

    def default_log_path(self, ctx, E):
        """a few calls without log= (the default path builds a log and fills logtext); observables must be the same"""
        for mt, text in [('text/html; charset=A', '<meta http-equiv="Content-Type" content="text/html;charset=b">'),
                         ('application/xml', '<?xml version="1.0" encoding="Q"?>')]:
            a = E.getEncodingInfo(build_resp({'kind': 'message', 'content_type': mt, 'body': None}), text)
            b = E.getEncodingInfo(build_resp({'kind': 'message', 'content_type': mt, 'body': None}), text, log=_silent)
            ctx.case(key=('log', mt), nontrivial=False, kind='default-log')
            if (a.encoding, a.mismatch) != (b.encoding, b.mismatch):
                ctx.violate('the reported encoding does not depend on the log argument', {'content_type': mt, 'text': text},
                            {'default': (a.encoding, a.mismatch), 'log': (b.encoding, b.mismatch)})
        logging.getLogger('encutils').handlers.clear()

    # ------------------------------------------------------------------------------------------------
    # evaluation of witnesses
    def process(self, ctx, E, ws, tag):
        lines, plans = [], []
        for w in ws:
            pl = self.plan(E, w)
            plans.append((w, pl, len(lines)))
            lines += pl['lines']
        out = ctx.driver(lines) if (ctx.model_ok and lines) else None
        for w, pl, off in plans:
            model = out[off:off + len(pl['lines'])] if out is not None else None
            self.judge(ctx, E, w, pl, model)

    def plan(self, E, w):
        """run the implementation on the witness; build the model request(s) and the implementation's canonical answers"""
        call = w['call']
        with time_limit(20):
            if call == 'classify':
                mt = w['media_type']
                try:
                    got = [str(E._getTextTypeByMediaType(mt, log=None)), opt(E.encodingByMediaType(mt))]
                except Exception as e:      # noqa: BLE001
                    got = ['ERR ' + type(e).__name__] * 2
                return {'lines': ['classify ' + opt(mt), 'ebm ' + opt(mt)], 'impl': got}
            if call == 'textType':
                d = w['doc']
                try:
                    got = [str(E._getTextType(d.encode('latin-1') if w.get('bytes') else d))]
                except Exception as e:      # noqa: BLE001
                    got = ['ERR ' + type(e).__name__]
                return {'lines': ['ttype ' + enc(d)], 'impl': got}
            if call == 'detectXMLEncoding':
                return self.plan_sniff(E, w)
            if call == 'getEncodingInfo':
                return self.plan_info(E, w)
            if call == 'metaScan':
                return self.plan_metascan(E, w)
            if call == 'tryEncodings':
                try:
                    import chardet      # noqa: F401
                    return {'lines': [], 'impl': [], 'res': None, 'skip': True}     # the trial loop does not run
                except ImportError:
                    pass
                b = w['doc'].encode('latin-1')
                try:
                    b.decode('utf-8')
                    u8 = 1
                except UnicodeDecodeError:
                    u8 = 0
                try:
                    with warnings.catch_warnings():
                        warnings.simplefilter('ignore')
                        res = ('OK', E.tryEncodings(b, log=_silent))
                except Exception as e:      # noqa: BLE001
                    res = ('ERR', type(e).__name__)
                got = 'OK ' + opt(res[1]) if res[0] == 'OK' else 'ERR ' + res[1]
                return {'lines': ['try %d %s' % (u8, enc(w['doc']))], 'impl': [got], 'res': res}
            if call == 'textVsEncoded':
                subs = []
                for isb in (False, True):
                    t = w['text'].encode(w['codec']).decode('latin-1') if isb else w['text']
                    sw = {'call': 'getEncodingInfo', 'resp': w['resp'], 'text': t, 'bytes': isb, 'stream': 'encoded'}
                    subs.append((sw, self.plan_info(E, sw)))
                return {'lines': subs[0][1]['lines'] + subs[1][1]['lines'], 'impl': subs[0][1]['impl'] + subs[1][1]['impl'],
                        'subs': subs}
        raise ValueError('unknown witness %r' % (w,))

    def plan_sniff(self, E, w):
        d, form, pos, incl = w['doc'], w['form'], w.get('pos', 0), w.get('includeDefault', True)
        if form == 'str':
            fp = d
        elif form == 'bytes':
            fp = d.encode('latin-1')
        elif form == 'StringIO':
            fp = io.StringIO(d)
            fp.seek(pos)
        else:
            fp = io.BytesIO(d.encode('latin-1'))
            fp.seek(pos)
        isfile = form.endswith('IO')
        try:
            r = E.detectXMLEncoding(fp, log=None, includeDefault=incl)
            res = ('OK', r)
        except Exception as e:      # noqa: BLE001
            res = ('ERR', type(e).__name__)
        after = fp.tell() if isfile else None
        got = '%s %s %d' % (res[0], opt(res[1]) if res[0] == 'OK' else res[1], after if isfile else 0)
        line = 'xml %d %d %d %s' % (form == 'BytesIO', incl, pos if isfile else 0, enc(d))
        lines, impls = [line], [got]
        if form == 'str':
            # the strict XML 1.0 reader of the Lean side against the independent strict parser of the oracle
            # (spec against spec: both are typed by hand from the recommendation)
            sd = S.parse_xmldecl(d)
            lines.append('strict ' + enc(d))
            impls.append('WF %s %d' % (opt(sd[1]), sd[2]) if sd[0] == 'wf' else 'NODECL')
        return {'lines': lines, 'impl': impls, 'res': res, 'after': after, 'isfile': isfile}

    def plan_metascan(self, E, w):
        p = E._MetaHTMLParser()
        try:
            for tag, attrs in w['events']:
                p.handle_starttag(tag, [tuple(a) for a in attrs])
            res = ('OK', p.content_type)
        except Exception as e:      # noqa: BLE001
            res = ('ERR', type(e).__name__)
        got = opt(res[1]) if res[0] == 'OK' else 'ERR ' + res[1]
        return {'lines': ['meta ' + enc_events(w['events'])], 'impl': [got], 'res': res}

    def plan_info(self, E, w):
        resp = build_resp(w['resp'])
        text = w['text']
        arg = text.encode('latin-1') if (text is not None and w.get('bytes')) else text
        shown = None
        try:
            i = E.getEncodingInfo(resp, arg, log=_silent)
            res = ('OK', i.encoding, bool(i.mismatch), i.http_media_type, i.http_encoding, i.meta_media_type,
                   i.meta_encoding, i.xml_encoding)
            shown = str(i)
            if i.mismatch not in (True, False):
                res = ('OK-badflag',) + res[1:]
        except Exception as e:      # noqa: BLE001
            res = ('ERR', type(e).__name__)
        # metamorphic twin (implementation only): the same values handed over in the other kind (str <-> bytes)
        twin = None
        if text is not None and all(ord(c) < 256 for c in text):
            other = text if w.get('bytes') else text.encode('latin-1')
            try:
                j = E.getEncodingInfo(build_resp(w['resp']), other, log=_silent)
                twin = ('OK', j.encoding, bool(j.mismatch), j.http_media_type, j.http_encoding, j.meta_media_type,
                        j.meta_encoding, j.xml_encoding)
            except Exception as e:      # noqa: BLE001
                twin = ('ERR', type(e).__name__)
        # inputs of the model: what the message object answers, the effective document, the parser stage of the meta sniffer
        if resp is not None:
            info = resp.info()
            mt, cs = info.get_content_type(), info.get_content_charset()
            body = w['resp'].get('body')
        else:
            mt = cs = body = None
        eff = text if text is not None else (body if body is not None else '')
        mr = meta_raw(E, eff)
        # the meta stage: the start tags html.parser reports for the decoded document (input of the model), what the
        # callback of the code makes of them (compared with the model's metaScan), what Message answers (input)
        events, hexc, ctype = record_meta(E, eff)
        if hexc is not None:
            mwords, hkind = 'none - - N', 'raises'
        else:
            hkind = 'ok'
            if ctype:
                ms = msg_stage(ctype)
                if ms[0] == 'ok':
                    pv = ms[2]
                    mwords = 'ok %s %s %s' % (enc(ctype), enc(ms[1]),
                                              'N' if pv is None else ('T' + enc(pv[1]) if isinstance(pv, tuple) else enc(pv)))
                else:
                    mwords = 'raises %s - N' % enc(ctype)
            else:
                mwords = 'none - - N'
        isb = bool(w.get('bytes'))
        bkind = 'N' if body is None else ('B' if w['resp'].get('body_bytes') else 'S')
        tkind = 'N' if text is None else ('B' if isb else 'S')
        line = 'infod %d %s %s %s %s %s %s %s N %s %s' % (
            resp is not None, opt(mt), opt(cs), bkind, '-' if body is None else enc(body), tkind,
            '-' if text is None else enc(text), mwords, hkind, enc_events(events))
        lines = [line.rstrip()]
        impls = []
        if hexc is None:
            lines.append(('meta ' + enc_events(events)).rstrip())
            impls.append(opt(ctype))
        if res[0] == 'OK':
            got = 'OK %s %d %s %s %s %s %s %s' % (opt(res[1]), res[2], opt(res[3]), opt(res[4]), opt(res[5]), opt(res[6]),
                                                  opt(res[7]), enc(shown))
        else:
            got = 'ERR ' + res[1]
        return {'lines': lines, 'impl': [got] + impls, 'res': res, 'eff': eff, 'meta_raw': mr, 'mt': mt, 'cs': cs,
                'events': events, 'ctype': ctype, 'hexc': hexc, 'twin': twin, 'shown': shown}

    # ------------------------------------------------------------------------------------------------
    def judge(self, ctx, E, w, pl, model):
        call = w['call']
        # correspondence
        if model is not None:
            for ln, g, m in zip(pl['lines'], pl['impl'], model):
                if call == 'getEncodingInfo' and m == 'ERR Extractor' and pl['meta_raw'][0] == 'raises':
                    m = 'ERR ' + pl['meta_raw'][1]      # the model only says "the parser stage raised"
                if call == 'detectXMLEncoding' and not pl['isfile'] and ln.startswith('xml '):
                    m = m.rsplit(' ', 1)[0] + ' 0'      # a str/bytes document has no position to compare
                if g != m:
                    ctx.disagree(call, w, g, m)
        if call == 'classify':
            self.oracle_classify(ctx, E, w, pl)
        elif call == 'textType':
            ctx.case(key=('tt', w['doc'], w.get('bytes')), nontrivial='<?xml' in w['doc'], kind='textType')
            if pl['impl'][0].startswith('ERR'):
                ctx.violate('a document given as text or as bytes is classified by its first characters (the call raised)',
                            w, {'impl': pl['impl'][0]})
        elif call == 'detectXMLEncoding':
            self.oracle_sniff(ctx, E, w, pl)
        elif call == 'getEncodingInfo':
            self.oracle_info(ctx, E, w, pl)
            if pl['hexc'] is None:
                self.oracle_meta(ctx, w, pl['events'], ('OK', pl['ctype']), case=False)
        elif call == 'metaScan':
            self.oracle_meta(ctx, w, w['events'], pl['res'], case=True)
        elif call == 'tryEncodings':
            if pl.get('skip'):
                return
            b = w['doc'].encode('latin-1')
            want = S.spec_try(b)
            ctx.case(key=('try', w['doc']), nontrivial=not b.isascii(), kind='try:' + want, sample={'bytes': w['doc'], 'impl': list(pl['res'])})
            if pl['res'] != ('OK', want):
                ctx.violate('tryEncodings (without chardet) answers ascii for ASCII bytes, windows-1252 for valid windows-1252 '
                            'with a Euro sign, else iso-8859-1', w, {'impl': list(pl['res']), 'spec': want})
        elif call == 'textVsEncoded':
            for sw, spl in pl['subs']:
                self.oracle_info(ctx, E, sw, spl)
            self.oracle_encoded(ctx, w, pl)

    def oracle_classify(self, ctx, E, w, pl):
        mt = w['media_type']
        if pl['impl'][0].startswith('ERR'):
            ctx.violate('every media type is classified (the call raised)', w, {'impl': pl['impl'][0]})
            return
        cls = S.spec_classify(mt)
        codes = {'appxml': E._XML_APPLICATION_TYPE, 'textxml': E._XML_TEXT_TYPE, 'html': E._HTML_TEXT_TYPE,
                 'css': E._TEXT_UTF8, 'text': E._TEXT_TYPE, 'other': E._OTHER_TYPE}
        ctx.case(key=('classify', mt), nontrivial=cls != 'other', kind='classify:' + cls,
                 sample={'media_type': mt, 'class': cls, 'default': S.DEFAULTS[cls]})
        if pl['impl'][0] != str(codes[cls]):
            ctx.violate('media-type classification as documented (application/xml family, text/xml family, text/html, '
                        'text/css, other text/*, other)', w, {'impl': pl['impl'][0], 'spec': cls, 'code': codes[cls]})
        if pl['impl'][1] != opt(S.DEFAULTS[cls]):
            ctx.violate('media-type default encoding as documented (utf-8 / ascii / iso-8859-1 / utf-8 for text/css / none)',
                        w, {'impl': pl['impl'][1], 'spec': S.DEFAULTS[cls]})

    def oracle_sniff(self, ctx, E, w, pl):
        d, form, pos, incl = w['doc'], w['form'], w.get('pos', 0), w.get('includeDefault', True)
        st, want = S.spec_sniff(d, incl)
        res = pl['res']
        ctx.case(key=('sniff', d, form, pos, incl), nontrivial=(st == 'bom' or d.startswith('<?xml')),
                 kind='sniff:%s:%s' % (form, st), sample={'doc': d[:80], 'form': form, 'pos': pos, 'impl': list(res)})
        if form == 'str' and len(d) > 2048:
            # only the first 2048 characters are looked at (theorem sniff_window; here on the implementation)
            try:
                cut = ('OK', E.detectXMLEncoding(d[:2048], log=None, includeDefault=incl))
            except Exception as e:      # noqa: BLE001
                cut = ('ERR', type(e).__name__)
            if cut != res:
                ctx.violate('XML sniffing looks at the first 2048 characters only', w, {'whole': list(res), 'cut': list(cut)})
        if w.get('oracle') is False:
            return
        known = None        # the sniffer part of the former finding C20-xml-short is fixed (759e903): no region left here
        clause_val = 'XML sniffing returns the BOM\'s encoding if there is a BOM, else the declared encoding, else UTF-8'
        if res[0] == 'ERR':
            ctx.violate(clause_val + ' (it raised)', w, {'impl': list(res)}, known=known)
        elif st == 'bom':
            if not S.same_codec(res[1], want):
                ctx.violate(clause_val, w, {'impl': res[1], 'spec': want}, known=known)
        elif st == 'exact':
            if res[1] != want:
                ctx.violate(clause_val, w, {'impl': res[1], 'spec': want}, known=known)
        if res[0] == 'OK' and isinstance(res[1], str) and res[1] != res[1].lower():
            ctx.violate('the sniffed encoding is lower-case', w, {'impl': res[1]})
        if pl['isfile'] and pl['after'] != pos:
            ctx.violate('XML sniffing leaves the stream position untouched', w, {'before': pos, 'after': pl['after'],
                                                                              'impl': list(res)})

    def oracle_meta(self, ctx, w, events, res, case):
        want = S.spec_meta(events)
        if case:
            ctx.case(key=('metascan', json.dumps(events)), nontrivial=any(t == 'meta' and a for t, a in events),
                     kind='metaScan:' + ('decided' if want else 'none'), sample={'events': events, 'impl': list(res)})
        if res[0] == 'ERR':
            ctx.violate('the meta sniffer survives every attribute list the HTML parser can report (it raised)', w,
                        {'impl': list(res)})
            return
        got = res[1] or None
        if got != want:
            ctx.violate('the Content-Type <meta> used is the first one that has a content (http-equiv stripped and '
                        'case-insensitive, last attribute of a name counts)', w, {'impl': res[1], 'spec': want,
                                                                                 'events': events})

    def oracle_encoded(self, ctx, w, pl):
        """text vs its bytes in an ASCII-transparent codec: same EncodingInfo when the whole document is ASCII, or when the
        first 2048 characters are and the class does not consult the meta stage (theorems ascii_document_any_encoding /
        ascii_head_any_encoding; here checked on the implementation)"""
        t = w['text']
        (_, p1), (_, p2) = pl['subs']
        has_resp = w['resp'] is not None
        cls = S.spec_classify(p1['mt']) if has_resp else S.absent_class(t)
        if t.isascii():
            must = True
        elif t[:2048].isascii() and len(t) >= 2048 and cls not in ('html', 'text', None):
            must = True
        else:
            must = False
        ctx.count('encoded:' + ('must-agree' if must else 'free'))
        if must and p1['res'] != p2['res']:
            ctx.violate('text and its bytes in an ASCII-transparent encoding get the same EncodingInfo when the part of the '
                        'document that is looked at is ASCII', w, {'text': list(p1['res']), 'bytes': list(p2['res'])})

    def oracle_info(self, ctx, E, w, pl):
        res, doc = pl['res'], as_text(pl['eff'])
        has_resp = w['resp'] is not None
        cls_guess = S.spec_classify(pl['mt']) if has_resp else S.absent_class(doc)
        srcs = (cls_guess not in ('other', None)) or bool(S.spec_bom(doc)) or doc.startswith('<?xml') or '<meta' in doc.lower()
        ctx.case(key=('info', json.dumps(w, sort_keys=True)), nontrivial=srcs,
                 kind='%s:%s' % (w.get('stream', 'info'), cls_guess),
                 sample={'resp': w['resp'], 'text': (w['text'] or '')[:100], 'bytes': w.get('bytes'), 'impl': list(res)})
        if pl.get('twin') is not None and pl['twin'][1:] != res[1:] and pl['twin'][0][:2] == res[0][:2]:
            ctx.violate('the document given as text or as bytes (same values) gets the same EncodingInfo', w,
                        {'given': list(res), 'other kind': list(pl['twin'])})
        elif pl.get('twin') is not None and pl['twin'][0][:2] != res[0][:2]:
            ctx.violate('the document given as text or as bytes (same values) gets the same EncodingInfo (one call raised)', w,
                        {'given': list(res), 'other kind': list(pl['twin'])})
        if res[0] == 'ERR':
            ctx.violate('for every document the encoding is reported by the documented rules (the call raised)', w,
                        {'impl': list(res)})
            return
        if res[0] != 'OK':
            ctx.violate('mismatch is a flag', w, {'impl': list(res)})
            return
        _, encoding, mismatch, http_mt, http_enc, meta_mt, meta_enc, xml_enc = res
        # clauses that need no knowledge of the document
        if pl.get('shown') is not None and pl['shown'] != (encoding or ''):
            ctx.violate('str(info) is the reported encoding or the empty string', w, {'str': pl['shown'], 'encoding': encoding})
        if isinstance(encoding, str) and encoding != encoding.lower():
            ctx.violate('the reported encoding is lower-case', w, {'impl': encoding})
        if mismatch != S.known3(http_enc, xml_enc, meta_enc):
            ctx.violate('mismatch is set exactly when two of the encodings determined from transport, XML sniffing and '
                        'HTML meta are both known and differ', w, {'impl': list(res)})
        if 'meta_charset' not in w:
            return
        # the documented table
        charset = pl['cs'] if has_resp else None

        def alias(canonical):
            return xml_enc if S.same_codec(xml_enc, canonical) else canonical
        exp = S.spec_info(has_resp, pl['mt'], charset, doc, w['meta_charset'], bom_alias=alias)
        if exp is None:
            ctx.count('info-unspecified')
            return
        # '' (e.g. charset="") is "not known", like None
        got = {'encoding': encoding or None, 'mismatch': mismatch, 'http': http_enc or None, 'xml': xml_enc or None,
               'meta': meta_enc or None}
        bad = [k for k in got if got[k] != exp[k]]
        if bad:
            k = None
            if exp['class'] in ('appxml', 'html') and set(bad) <= {'encoding', 'mismatch', 'xml'}:
                k = KF_SHORT if S.region_short(doc) else None
            ctx.violate('documented precedence: transport charset; XML encoding for application/xml types; meta then '
                        'media-type default for text/html; media-type default for other text types (utf-8 for text/css, '
                        'ascii for text/xml with the XML declaration ignored); fields: ' + ','.join(bad),
                        w, {'impl': got, 'spec': exp}, known=k)

    # ------------------------------------------------------------------------------------------------
    def replay(self, ctx, data):
        E = impl()
        ws = []
        if data.get('kind') == 'impl-violates':
            ws = [data['witness']] + [v['witness'] for v in data.get('more_violations', [])]
        for b in data.get('broken', []):
            if b.get('kind') == 'correspondence' and isinstance(b.get('input'), dict):
                ws.append(b['input'])
        ws = [w for w in ws if isinstance(w, dict) and 'call' in w]
        if ws:
            self.process(ctx, E, ws[:1], 'replay')
        else:
            self.run(ctx)

    def known(self, ctx, finding):
        E = impl()
        before = ctx.known_hits[finding['id']]
        self.process(ctx, E, [finding['witness']['data']], 'known')
        return ctx.known_hits[finding['id']] > before


CHECK = C20()
