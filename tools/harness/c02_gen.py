"""Abstract stylesheets (the grammar cssutils documents) and their concrete renderings ("spellings").

gen_sheet(rng) -> AST ; render(ast, Spelling(rng|None)) -> text. Spelling(None) is the canonical rendering.
A spelling varies exactly what CSS defines as insignificant: whitespace / line breaks at gaps, comments at gaps, letter
case of at-keywords, property names, units, !important, pseudo and function names, quote style, and CSS escapes of
ordinary name characters. Everything is drawn from one random.Random so a case replays from its seed.

AST (plain tuples/lists so that it prints and compares):
 sheet   = [rule]
 rule    = ('charset', enc) | ('import', href, quotedform, [mq], ) | ('namespace', prefix|None, uri, urlform)
         | ('style', [selector], [decl]) | ('media', [mq], [rule]) | ('page', pseudo|None, [decl], [(margin, [decl])])
         | ('fontface', [decl]) | ('unknown', keyword, [token], block|None) | ('comment', text)
 selector= [compound, comb, compound, ...]      comb in ' ', '>', '+', '~'
 compound= (typesel|None, [simple])            typesel = (prefix|None|'*'|'', name|'*')
 simple  = ('id', n) | ('class', n) | ('attr', prefix, name, op|None, value|None, quoted) | ('pseudo', n)
         | ('pfunc', n, argtext) | ('pelem', n, colons) | ('not', simple_or_typesel)
 decl    = (name, [comp], important)           comp = (kind, payload...) ; separators are comps ('sep', ' ' | ',' | '/')
 mq      = (only_or_not|None, mediatype|None, [(feature, value|None)])
"""
MEDIA_TYPES = ['all', 'braille', 'handheld', 'print', 'projection', 'speech', 'screen', 'tty', 'tv', 'embossed']
PROPS = ['color', 'background', 'margin', 'margin-left', 'font', 'font-family', 'border', 'top', 'width', 'content',
         'z-index', 'line-height', 'background-image', 'x-custom', 'text-align', 'display', 'padding', 'left']
IDENTS = ['red', 'inherit', 'auto', 'none', 'bold', 'serif', 'x', 'left', 'solid', 'a-b', '_u', 'inline-block']
UNITS = ['px', 'em', 'ex', 'cm', 'mm', 'in', 'pt', 'pc', 'deg', 's', 'ms', 'hz', 'khz']
ELEMS = ['a', 'div', 'p', 'h1', 'li', 'x-y', 'body']
NAMES = ['a', 'b', 'foo', 'x-y', 'nav', 'main']
PSEUDOS = ['hover', 'first-child', 'link', 'visited', 'focus', 'last-child', 'empty']
PFUNCS = [('nth-child', ['2n+1', 'odd', '3', '-n+2', 'even']), ('lang', ['fr', 'en']), ('nth-of-type', ['2n', '1'])]
PELEMS = ['before', 'after', 'first-line', 'first-letter']
ATTROPS = ['=', '~=', '|=', '^=', '$=', '*=']
MARGINS = ['@top-left', '@top-center', '@bottom-right', '@left-middle']
FUNCS = ['attr', 'counter', 'f', 'my-func']
URLS = ['a.png', 'img/b.gif', 'http://h/x.css?a=1&b=2', 'c d.png', "e'f.png", 'g(h).png', 'i"j.png', 'k.svg#frag']
STRINGS = ['s', 'a b', 'x"y', "x'y", 'é', ')', '/*no*/', '\\\\', 'tab\tx']


def gen_ident(rng):
    return rng.choice(IDENTS)


def gen_comp(rng, depth=0):
    k = rng.randint(0, 10)
    if k == 0:
        return ('ident', gen_ident(rng))
    if k == 1:
        return ('number', rng.choice(['0', '1', '-1', '+2', '1.5', '.5', '-0.25', '10', '007', '1.50']))
    if k == 2:
        return ('dimension', rng.choice(['1', '-2', '1.5', '.5', '0', '10']), rng.choice(UNITS))
    if k == 3:
        return ('percentage', rng.choice(['0', '50', '100', '12.5', '-5']))
    if k == 4:
        return ('string', rng.choice(STRINGS))
    if k == 5:
        return ('url', rng.choice(URLS))
    if k == 6:
        return ('hash', rng.choice(['fff', 'a1b2c3', 'aabbcc', '000', 'FFF', 'AbCdEf']))
    if k == 7 and depth < 2:
        n = rng.randint(1, 3)
        args = []
        for i in range(n):
            if i:
                args.append(('sep', ','))
            args.append(gen_comp(rng, depth + 1))
        return ('function', rng.choice(FUNCS), args)
    if k == 8:
        return ('rgb', rng.choice(['rgb', 'rgba', 'hsl']), rng.randint(0, 255), rng.randint(0, 100), rng.randint(0, 100))
    if k == 9:
        return ('urange', rng.choice(['U+0-7F', 'U+4??', 'U+26']))
    if k == 10 and depth == 0 and rng.random() < 0.5:
        return ('calc', rng.choice(['1px', '100%', '2em', '10']), rng.choice(['+', '-', '*', '/']), rng.choice(['2px', '50%', '3']))
    return ('ident', gen_ident(rng))


def gen_value(rng):
    n = rng.randint(1, 4)
    out = []
    for i in range(n):
        if i:
            out.append(('sep', rng.choice([' ', ' ', ' ', ',', '/'])))
        out.append(gen_comp(rng))
    return out


def gen_decl(rng):
    return (rng.choice(PROPS), gen_value(rng), rng.random() < 0.2)


def gen_decls(rng, lo=0, hi=4):
    return [gen_decl(rng) for _ in range(rng.randint(lo, hi))]


def gen_simple(rng, prefixes, allow_not=True):
    k = rng.randint(0, 7)
    if k == 0:
        return ('id', rng.choice(NAMES))
    if k == 1:
        return ('class', rng.choice(NAMES))
    if k == 2:
        op = rng.choice([None] + ATTROPS)
        pre = rng.choice([None, None, None] + prefixes)
        if op is None:
            return ('attr', pre, rng.choice(NAMES), None, None, False)
        return ('attr', pre, rng.choice(NAMES), op, rng.choice(['v', 'a-b', 'x y', 'q"r']), rng.random() < 0.6)
    if k == 3:
        return ('pseudo', rng.choice(PSEUDOS))
    if k == 4:
        n, args = rng.choice(PFUNCS)
        return ('pfunc', n, rng.choice(args))
    if k == 5:
        return ('pelem', rng.choice(PELEMS), rng.choice([1, 2]))
    if k == 6 and allow_not:
        inner = rng.choice([gen_simple(rng, prefixes, False), ('type', gen_typesel(rng, prefixes))])
        if inner[0] in ('pelem', 'not', 'pfunc'):   # cssutils rejects functional pseudo-classes inside :not()
            inner = ('class', 'z')
        return ('not', inner)
    return ('class', rng.choice(NAMES))


def gen_typesel(rng, prefixes):
    pre = rng.choice([None, None, None, '*', ''] + prefixes)
    return (pre, rng.choice(ELEMS + ['*']))


def gen_compound(rng, prefixes):
    ts = gen_typesel(rng, prefixes) if rng.random() < 0.7 else None
    subs = [gen_simple(rng, prefixes) for _ in range(rng.randint(0 if ts else 1, 3))]
    # a pseudo-element must come last
    subs = [s for s in subs if s[0] != 'pelem'] + [s for s in subs if s[0] == 'pelem'][:1]
    return (ts, subs)


def gen_selector(rng, prefixes):
    out = [gen_compound(rng, prefixes)]
    for _ in range(rng.randint(0, 2)):
        out.append(rng.choice([' ', '>', '+', '~']))
        out.append(gen_compound(rng, prefixes))
    return out


def gen_mq(rng):
    r = rng.random()
    if r < 0.5:
        return (None, rng.choice(MEDIA_TYPES), [])
    feats = [(rng.choice(['min-width', 'max-width', 'color', 'orientation', 'min-resolution']),
              rng.choice(['10px', '1', 'landscape', '2.5em', None])) for _ in range(rng.randint(1, 2))]
    if r < 0.8:
        return (rng.choice([None, 'only', 'not']), rng.choice(MEDIA_TYPES[1:]), feats)
    return (None, None, feats)


def gen_mqs(rng, lo=1):
    n = rng.randint(lo, 3)
    qs, seen = [], set()
    for _ in range(n):
        q = gen_mq(rng)
        if q[1] == 'all' and not q[2]:
            continue           # 'all' absorbs the list (C17 territory); keep lists canonical here
        if not q[2] and q[1] in seen:
            continue
        seen.add(q[1])
        qs.append(q)
    return qs


def gen_style(rng, prefixes):
    return ('style', [gen_selector(rng, prefixes) for _ in range(rng.randint(1, 3))], gen_decls(rng, 0, 4))


def gen_body_rule(rng, prefixes, depth=0):
    k = rng.randint(0, 9)
    if k <= 4:
        return gen_style(rng, prefixes)
    if k == 5 and depth < 2:
        qs = gen_mqs(rng) or [(None, 'print', [])]
        return ('media', qs, [gen_body_rule(rng, prefixes, depth + 1) for _ in range(rng.randint(0, 3))])
    if k == 6 and depth == 0:
        return ('page', rng.choice([None, 'first', 'left', 'right']), gen_decls(rng, 0, 2),
                [(m, gen_decls(rng, 0, 2)) for m in rng.sample(MARGINS, rng.randint(0, 2))])
    if k == 7 and depth == 0:
        return ('fontface', gen_decls(rng, 1, 3))
    if k == 8:
        return ('comment', rng.choice(['c', ' a b ', '*', 'x{y}z', '"', '@import']))
    blk = rng.choice([None, [('ident', 'a'), ('sep', ' '), ('string', 'q')]])
    return ('unknown', rng.choice(['@x', '@foo-bar', '@-moz-y']), [('ident', 'y'), ('sep', ' '), ('number', '1')], blk)


def gen_sheet(rng):
    rules = []
    prefixes = []
    if rng.random() < 0.3:
        rules.append(('charset', rng.choice(['utf-8', 'latin-1', 'ascii'])))
    for _ in range(rng.randint(0, 2)):
        rules.append(('import', rng.choice(URLS[:3] + ['x.css']), rng.choice(['string', 'url', 'urlq']), gen_mqs(rng, 0)))
    if rng.random() < 0.4:
        for p, u in rng.sample([('p', 'http://p'), ('q', 'urn:q'), (None, 'http://default')], rng.randint(1, 2)):
            rules.append(('namespace', p, u, rng.random() < 0.3))
            if p:
                prefixes.append(p)
    for _ in range(rng.randint(1, 5)):
        rules.append(gen_body_rule(rng, prefixes))
    return rules


# ---------------------------------------------------------------------------------------------------------
class Spelling:
    """rng=None: canonical. level: 0 canonical, 1 whitespace, 2 + comments, 3 + case, 4 + quotes, 5 + escapes"""

    def __init__(self, rng=None, level=5):
        self.rng = rng
        self.level = level if rng else 0

    def gap(self, need=False):
        """optional (or required, need=True) white space, maybe with a comment"""
        if not self.rng or self.level < 1:
            return ' ' if need else ''
        r = self.rng
        ws = r.choice([' ', ' ', '\n', '\t', '  ', '\r\n', ' \n '] + ([] if need else ['', '']))
        if self.level >= 2 and r.random() < 0.15:
            c = r.choice(['/**/', '/* c */', '/*x*/'])
            ws = (ws or '') + c + (r.choice([' ', '']) if not need else ' ')
            if need and not ws[0].isspace():
                ws = ' ' + ws
        return ws

    def ws(self):
        """optional white space without comments (inside url( ) a comment is not white space)"""
        if not self.rng or self.level < 1:
            return ''
        return self.rng.choice(['', '', ' ', '\n', '\t', '  '])

    def case(self, s):
        if not self.rng or self.level < 3:
            return s
        k = self.rng.randint(0, 3)
        if k == 0:
            return s.upper()
        if k == 1:
            return ''.join(c.upper() if self.rng.random() < 0.5 else c for c in s)
        return s

    def quote(self):
        if not self.rng or self.level < 4:
            return '"'
        return self.rng.choice('"\'')

    def esc_name(self, s):
        """CSS escapes of ordinary name characters: `\\` + non-hex letter, or hex escape with terminator"""
        if not self.rng or self.level < 5 or self.rng.random() < 0.6:
            return s
        out = []
        for i, c in enumerate(s):
            r = self.rng.random()
            if c.isalpha() and c.lower() not in 'abcdef' and r < 0.2:
                out.append('\\' + c)
            elif c.isalpha() and r < 0.3:
                out.append('\\%x ' % ord(c))
            elif c.isalpha() and r < 0.35:
                out.append('\\%06x ' % ord(c))      # the terminator is written explicitly: a following gap must stay a gap
            else:
                out.append(c)
        return ''.join(out)


def q_string(sp, s):
    q = sp.quote()
    return q + s.replace('\\', '\\\\').replace(q, '\\' + q).replace('\n', '\\a ') + q


def r_url(sp, u, form=None):
    form = form or ('urlq' if any(c in u for c in ' \'"()') else (sp.rng.choice(['url', 'urlq']) if sp.rng and sp.level >= 4 else 'url'))
    if form == 'url' and not any(c in u for c in ' \'"()\\'):
        return sp.esc_name(sp.case('url')) + '(' + sp.ws() + u + sp.ws() + ')'
    return sp.esc_name(sp.case('url')) + '(' + sp.ws() + q_string(sp, u) + sp.ws() + ')'


def r_comp(sp, c):
    k = c[0]
    if k == 'ident':
        return c[1]
    if k == 'number':
        return c[1]
    if k == 'dimension':
        return c[1] + sp.case(c[2])
    if k == 'percentage':
        return c[1] + '%'
    if k == 'string':
        return q_string(sp, c[1])
    if k == 'url':
        return r_url(sp, c[1])
    if k == 'hash':
        return '#' + c[1]
    if k == 'function':
        return sp.esc_name(sp.case(c[1])) + '(' + sp.gap() + r_value(sp, c[2]) + sp.gap() + ')'
    if k == 'rgb':
        name = c[1]
        # white space / comments at every token boundary between the arguments
        comma = lambda: sp.gap() + ',' + sp.gap()    # noqa: E731
        if name == 'rgb':
            args = '%d%s%d%s%d' % (c[2], comma(), c[3], comma(), c[4])
        elif name == 'rgba':
            args = '%d%s%d%s%d%s0.5' % (c[2], comma(), c[3], comma(), c[4], comma())
        else:
            args = '%d%s%d%%%s%d%%' % (c[2], comma(), c[3], comma(), c[4])
        return sp.esc_name(sp.case(name)) + '(' + sp.gap() + args + sp.gap() + ')'
    if k == 'urange':
        return c[1]
    if k == 'calc':
        # white space around + and - is part of the syntax of calc() (a comment does not stand for it, but may stand
        # next to it); around * and / it is optional
        g = (lambda: sp.gap(need=True)) if c[2] in '+-' else sp.gap
        return sp.esc_name(sp.case('calc')) + '(' + sp.gap() + c[1] + g() + c[2] + g() + c[3] + sp.gap() + ')'
    if k == 'sep':
        return c[1]
    raise ValueError(c)


def r_value(sp, comps):
    out = []
    for c in comps:
        if c[0] == 'sep':
            if c[1] == ' ':
                out.append(sp.gap(need=True))
            else:
                out.append(sp.gap() + c[1] + sp.gap())
        else:
            out.append(r_comp(sp, c))
    return ''.join(out)


def r_decl(sp, d):
    name, comps, imp = d
    s = sp.esc_name(sp.case(name)) + sp.gap() + ':' + sp.gap() + r_value(sp, comps)
    if imp:
        s += sp.gap() + '!' + sp.gap() + sp.case('important')
    return s


def r_decls(sp, decls, extra=()):
    parts = [r_decl(sp, d) for d in decls] + list(extra)
    body = (sp.gap() + ';' + sp.gap()).join(parts)
    if parts and sp.rng and sp.rng.random() < 0.5:
        body += sp.gap() + ';'
    return '{' + sp.gap() + body + sp.gap() + '}'


def r_typesel(sp, ts):
    pre, name = ts
    n = name if name == '*' else sp.esc_name(name)
    if pre is None:
        return n
    return pre + '|' + n


def r_simple(sp, s):
    k = s[0]
    if k == 'id':
        return '#' + s[1]
    if k == 'class':
        return '.' + sp.esc_name(s[1])
    if k == 'attr':
        _, pre, name, op, val, quoted = s
        n = (pre + '|' if pre else '') + name
        if op is None:
            return '[' + sp.gap() + n + sp.gap() + ']'
        v = q_string(sp, val) if (quoted or not val.replace('-', '').isalnum()) else val
        return '[' + sp.gap() + n + sp.gap() + op + sp.gap() + v + sp.gap() + ']'
    if k == 'pseudo':
        return ':' + sp.esc_name(sp.case(s[1]))
    if k == 'pfunc':
        return ':' + sp.esc_name(sp.case(s[1])) + '(' + sp.gap() + s[2] + sp.gap() + ')'
    if k == 'pelem':
        return ':' * s[2] + sp.case(s[1])
    if k == 'not':
        inner = s[1]
        body = r_typesel(sp, inner[1]) if inner[0] == 'type' else r_simple(sp, inner)
        return ':' + sp.esc_name(sp.case('not')) + '(' + sp.gap() + body + sp.gap() + ')'
    raise ValueError(s)


def r_compound(sp, c):
    ts, subs = c
    return (r_typesel(sp, ts) if ts else '') + ''.join(r_simple(sp, s) for s in subs)


def r_selector(sp, sel):
    out = []
    for part in sel:
        if isinstance(part, str):
            out.append(sp.gap(need=True) if part == ' ' else sp.gap() + part + sp.gap())
        else:
            out.append(r_compound(sp, part))
    return ''.join(out)


def r_mq(sp, q):
    pre, mt, feats = q
    parts = []
    if pre:
        parts.append(pre)
    if mt:
        parts.append(mt)
    for f, v in feats:
        if parts:
            parts.append('and')
        parts.append('(' + sp.gap() + f + ((sp.gap() + ':' + sp.gap() + v) if v else '') + sp.gap() + ')')
    # the separators between the words of a query are REQUIRED white space
    out = parts[0]
    for p in parts[1:]:
        out += sp.gap(need=True) + p
    return out


def r_mqs(sp, qs):
    return (sp.gap() + ',' + sp.gap()).join(r_mq(sp, q) for q in qs)


def r_rule(sp, r):
    k = r[0]
    if k == 'charset':
        return '@charset "%s";' % r[1]          # exact syntax required by CSS 2.1
    if k == 'import':
        _, href, form, qs = r
        h = q_string(sp, href) if form == 'string' else r_url(sp, href, form)
        m = (sp.gap(need=True) + r_mqs(sp, qs)) if qs else ''
        return sp.case('@import') + sp.gap(need=True) + h + m + sp.gap() + ';'
    if k == 'namespace':
        _, pre, uri, asurl = r
        u = r_url(sp, uri, 'urlq') if asurl else q_string(sp, uri)
        return sp.case('@namespace') + sp.gap(need=True) + ((pre + sp.gap(need=True)) if pre else '') + u + sp.gap() + ';'
    if k == 'style':
        sels = (sp.gap() + ',' + sp.gap()).join(r_selector(sp, s) for s in r[1])
        return sels + sp.gap() + r_decls(sp, r[2])
    if k == 'media':
        body = sp.gap().join(r_rule(sp, x) for x in r[2])
        return sp.case('@media') + sp.gap(need=True) + r_mqs(sp, r[1]) + sp.gap() + '{' + sp.gap() + body + sp.gap() + '}'
    if k == 'page':
        _, pseudo, decls, margins = r
        extra = [sp.case(m) + sp.gap() + r_decls(sp, ds) for m, ds in margins]
        # margin boxes are separate blocks, not ';'-separated declarations
        body = r_decls(sp, decls)
        if extra:
            body = body[:-1] + (sp.gap() + ';' + sp.gap() if decls and not body[:-1].rstrip().endswith(';') else sp.gap()) + \
                sp.gap().join(extra) + sp.gap() + '}'
        # the pseudo-page name is case-insensitive
        return sp.case('@page') + ((sp.gap(need=True) + ':' + sp.case(pseudo)) if pseudo else '') + sp.gap() + body
    if k == 'fontface':
        return sp.case('@font-face') + sp.gap() + r_decls(sp, r[1])
    if k == 'unknown':
        _, kw, toks, blk = r
        s = kw + sp.gap(need=True) + r_value(sp, toks)
        if blk is None:
            return s + sp.gap() + ';'
        return s + sp.gap() + '{' + sp.gap() + r_value(sp, blk) + sp.gap() + '}'
    if k == 'comment':
        return '/*' + r[1] + '*/'
    raise ValueError(r)


def render(sheet, sp):
    return sp.gap().join(r_rule(sp, r) for r in sheet) + sp.gap()


# -- what the AST says about the DOM (independent expectations) --------------------------------------------
def spec_simple(s):
    k = s[0]
    if k == 'id':
        return (1, 0, 0)
    if k in ('class', 'attr'):
        return (0, 1, 0)
    if k in ('pseudo', 'pfunc'):
        # as property C16 states it (and cssutils counts): pseudo-CLASSES do not count
        return (0, 0, 0)
    if k == 'pelem':
        return (0, 0, 1)
    if k == 'not':
        inner = s[1]
        if inner[0] == 'type':
            return (0, 0, 0 if inner[1][1] == '*' else 1)
        return spec_simple(inner)
    raise ValueError(s)


def specificity(sel):
    b = c = d = 0
    for part in sel:
        if isinstance(part, str):
            continue
        ts, subs = part
        if ts and ts[1] != '*':
            d += 1
        for s in subs:
            x = spec_simple(s)
            b, c, d = b + x[0], c + x[1], d + x[2]
    return (0, b, c, d)


def expect(sheet):
    """the part of the DOM that follows from the AST alone: kinds in order, counts, names, priorities, specificities"""
    out = []
    for r in sheet:
        k = r[0]
        if k == 'style':
            out.append(('style', [specificity(s) for s in r[1]], [(d[0], sum(1 for c in d[1] if c[0] != 'sep'), d[2]) for d in r[2]]))
        elif k == 'media':
            out.append(('media', len(r[1]), expect(r[2])))
        elif k == 'page':
            out.append(('page', r[1], [(d[0], d[2]) for d in r[2]], [(m[1:], [(d[0], d[2]) for d in ds]) for m, ds in r[3]]))
        elif k == 'fontface':
            out.append(('fontface', [(d[0], d[2]) for d in r[1]]))
        elif k == 'import':
            out.append(('import', r[1], len(r[3])))
        elif k == 'namespace':
            out.append(('namespace', r[1] or '', r[2]))
        elif k == 'charset':
            out.append(('charset', r[1]))
        elif k == 'unknown':
            out.append(('unknown', r[1]))
        elif k == 'comment':
            out.append(('comment', r[1]))
    return out
