"""C19 — generated virtual file systems of stylesheets that @import each other, and the independent
oracle for "flattening preserves meaning".

case = {'href': main URL, 'main': [rule], 'vfs': {full URL: [rule]}}   (abstract, not yet loaded sheets)

meaning(sheet at href) = the cascade-ordered list of what the sheet says once every @import is followed through the
virtual file system with urllib.parse.urljoin: ('S'|'P'|'F'|'U', media context, selector, declarations with every
URL made absolute), plus the multiset of unavailable imports (absolute URL, media context) and the set of namespace
declarations. Flattening must not change it.
"""
import collections
import urllib.parse as up

from harness import c19_sheets as S

RESERVED = set("!$&'()*+,;=:@")


def remove_dot_segments(path):
    """RFC 3986 section 5.2.4"""
    out = []
    segs = path.split('/')
    for i, seg in enumerate(segs):
        last = i == len(segs) - 1
        if seg == '..':
            if len(out) > 1 or (out and out[0] != ''):
                out.pop()
            if last:
                out.append('')
        elif seg == '.':
            if last:
                out.append('')
        else:
            out.append(seg)
    return '/'.join(out)


def norm_abs(u):
    """absolute URL up to what a user agent does before using it: the scheme is lower-cased, dot segments of a
    hierarchical path are removed (urljoin does that only when it merges paths), characters that cannot occur in a
    URI are percent-encoded (UTF-8); reserved and unreserved characters and existing escapes stay as they are"""
    i = u.find(':')
    if i > 0 and u[0].isascii() and u[0].isalpha() and all(c in up.scheme_chars for c in u[:i]):
        u = u[:i].lower() + u[i:]          # the scheme is case-insensitive
        if u[i:i + 3] == '://':
            try:
                sp = up.urlsplit(u)
                if sp.path.startswith('/'):
                    u = up.urlunsplit((sp.scheme, sp.netloc, remove_dot_segments(sp.path), sp.query, sp.fragment))
            except ValueError:
                pass
    return up.quote(u, safe="%/:@!$&'()*+,;=?#[]~")


def origin(url):
    sp = up.urlsplit(url)
    return (sp.scheme, sp.netloc)


# ------------------------------------------------------------------------------------------------
# generator
class Gen:
    def __init__(self, rng, exotic=0.05, fn_url_p=0.03, features=None):
        self.rng = rng
        self.exotic = exotic
        self.fn_url_p = fn_url_p
        self.n = 0
        self.vfs = {}
        self.features = features or {}

    def p(self, name, dflt):
        return self.features.get(name, dflt)

    def fresh(self):
        self.n += 1
        return 's%d.css' % self.n

    def gen_href(self, parent, chain):
        """(href as written, kind)"""
        rng = self.rng
        r = rng.random()
        name = self.fresh()
        if rng.random() < self.p('malformed', 0.0):
            # urljoin raises ValueError ("Invalid IPv6 URL"): the target counts as unavailable, nothing is fetched
            return '//[bad/' + name, 'malformed'
        if r < self.p('cycle', 0.04):
            tgt = rng.choice(chain)
            # write the ancestor's URL as an absolute or root-relative reference
            sp = up.urlsplit(tgt)
            return (tgt if rng.random() < 0.5 or not sp.path.startswith('/') else sp.path), 'cycle'
        if r < self.p('cycle', 0.04) + self.p('diamond', 0.05) and self.vfs:
            return rng.choice(sorted(self.vfs)), 'diamond'
        r = rng.random()
        if r < 0.70:
            pre = rng.choice(['', '', '', 'css/', 'css/sub/', '../', '../x/', '../../', './', './css/', 'a.b/',
                              'css/../', 'css/./sub/', '../../../../', 'x/../../'])
            suf = rng.choice(['', '', '', '', '?v=1', '#f'])
            return pre + name + suf, 'rel'
        if r < 0.78:
            return '/' + rng.choice(['', 'r/', 'r/s/', 'r/../']) + name, 'rootrel'
        if r < 0.86:
            sp = up.urlsplit(parent)
            return '%s://%s/%s%s' % (sp.scheme, sp.netloc, rng.choice(['', 'abs/', 'abs/d/']), name), 'abs-same'
        if r < 0.93 * self.p('otherhost', 1.0):
            return 'http://other.example/%s%s' % (rng.choice(['', 'o/', 'o/p/']), name), 'abs-other'
        if r < 1.0 * self.p('otherhost', 1.0):
            return '//%s/%s%s' % (rng.choice(['cdn.example', 'h']), rng.choice(['', 'c/']), name), 'schemerel'
        return 'css/' + name, 'rel'

    def gen_sheet(self, url, chain, depth, max_depth, unwrappable=False):
        """the rules of the sheet at `url`; fills self.vfs with the sheets it imports.
        `unwrappable`: the sheet gets an @page rule, so an @import of it with media has to be kept"""
        rng = self.rng
        rules = []
        if rng.random() < 0.12:
            rules.append(('C', rng.choice(['utf-8', 'ascii', 'iso-8859-1'])))
        n_imp = 0
        # a sheet with at least three @imports most of which have to be kept when it is flattened
        heavy = depth < max_depth and rng.random() < self.p('kept', 0.0)
        if heavy:
            n_imp = rng.choice([3, 3, 4, 5])
        elif depth < max_depth:
            n_imp = rng.choice([0, 1, 1, 2, 2, 3] if depth == 0 else [0, 0, 1, 1, 2])
        for _ in range(n_imp):
            if rng.random() < 0.15:
                rules.append(('K', '/*%s*/' % rng.choice(['i', ' before import ', 'x'])))
            href, kind = self.gen_href(url, chain)
            media = 'all' if rng.random() < self.p('all', 0.6) else rng.choice(S.MEDIA)
            missing = rng.random() < self.p('missing', 0.10)
            force = False
            if heavy:
                r = rng.random()
                if r < 0.4:
                    missing = True
                elif r < 0.85:
                    missing, force, media = False, True, rng.choice(S.MEDIA)
            rules.append(S.raw_import(href, media))
            if kind in ('cycle', 'diamond', 'malformed'):
                continue
            try:
                full = up.urljoin(url, href)
            except ValueError:
                continue
            if missing:
                continue
            if full in self.vfs or full in chain:
                continue
            self.vfs[full] = None       # reserve the key (insertion order = generation order)
            self.vfs[full] = self.gen_sheet(full, [full] + chain, depth + 1, max_depth, unwrappable=force)
        if rng.random() < self.p('ns', 0.06):
            k = rng.choice('123')
            rules.append(('N', 'p' + k, 'http://ns/' + k))
        simple = depth > 0 and rng.random() < self.p('simple', 0.6)
        kinds = 'SSSK' if simple else 'SSSSMPFKU'
        for _ in range(rng.choice([0, 1, 1, 2, 3])):
            rules.append(self.body_rule(kinds))
        if unwrappable:
            rules.append(('P', rng.choice(['', ':first']), [('margin', [('t', '1px')], '')], []))
        return rules

    def body_rule(self, kinds):
        old = S.gen_url
        rng = self.rng
        ex = self.exotic

        def gen_url(r, exotic=None):
            return old(r, ex if exotic is None else min(exotic, ex))
        S.gen_url = gen_url
        try:
            return S.gen_body_rule(rng, kinds=kinds, fn_url_p=self.fn_url_p, url_p=0.7)
        finally:
            S.gen_url = old

    def case(self):
        rng = self.rng
        href = rng.choice(S.MAIN_HREFS)
        max_depth = rng.choice([1, 2, 2, 3, 3, 4])
        main = self.gen_sheet(href, [href], 0, max_depth)
        return {'href': href, 'main': main, 'vfs': {k: v for k, v in self.vfs.items() if v is not None}}


def uniquify(case):
    """give every rule an identity that survives flattening: a unique class in the selector of a style rule, a
    unique `x-id` declaration in @page / @font-face, a unique word in an unknown at-rule"""
    n = [0]

    def rules(rs):
        out = []
        for r in rs:
            n[0] += 1
            k = r[0]
            if k == 'S':
                sel = r[1]
                if ', ' in sel:
                    sel = sel.split(', ')[0] + '.r%d, ' % n[0] + sel.split(', ')[1]
                elif ':' in sel:
                    sel = sel.split(':')[0] + '.r%d:' % n[0] + sel.split(':')[1]
                else:
                    sel = sel + '.r%d' % n[0]
                out.append(('S', sel, r[2]))
            elif k == 'F':
                out.append(('F', [('x-id', [('t', str(n[0]))], '')] + r[1]))
            elif k == 'P':
                out.append(('P', r[1], [('x-id', [('t', str(n[0]))], '')] + r[2], r[3]))
            elif k == 'U':
                out.append(('U', '@x-unknown r%d;' % n[0]))
            elif k == 'M':
                out.append(('M', r[1], rules(r[2])))
            else:
                out.append(r)
        return out
    return {'href': case['href'], 'main': rules(case['main']),
            'vfs': {u: rules(rs) for u, rs in case['vfs'].items()}}


def gen_case(rng, **kw):
    return uniquify(Gen(rng, **kw).case())


def render_case(case, rng=None):
    """CSS texts: (main text, {url: text})"""
    return S.r_rules(case['main'], rng), {u: S.r_rules(r, rng) for u, r in case['vfs'].items()}


def has_cycle(case):
    """an @import whose target is the importing sheet or one it is (transitively) imported from"""
    found = []

    def walk(rules, href, chain):
        for r in rules:
            if r[0] == 'I':
                try:
                    full = up.urljoin(href, r[1])
                except ValueError:
                    continue
                if full in chain:
                    found.append(full)
                elif full in case['vfs']:
                    walk(case['vfs'][full], full, chain + [full])
    walk(case['main'], case['href'], [case['href']])
    return bool(found)


# ------------------------------------------------------------------------------------------------
# the oracle: meaning of a sheet
def url_regions(u, nested, ctx):
    """known-finding regions that apply to this url() occurrence (used only to explain a mismatch).
    The re-basing findings (same-document references, other origin, trailing slash, reserved characters, url() in
    function arguments) are fixed: no region is left, every URL that resolves differently is a violation."""
    return frozenset()


class Meaning:
    def __init__(self, vfs, drop_empty=False, minified=False, embedded=False):
        self.vfs = vfs
        self.vfs_n = {}                          # normalised URL -> sheet (first key wins; the keys are distinct URLs)
        for _k, _v in vfs.items():
            self.vfs_n.setdefault(norm_abs(_k), _v)
        self.embedded = embedded                 # follow an @import into the sheet the rule holds (loaded DOM state,
                                                 # after edits) instead of looking its URL up in the file system
        self.item_depth = []                     # import depth of each item
        self.import_seq = []                     # (absolute URL, media) of every @import met, depth first
        self.top_seq = []                        # … of the sheet's own @import rules
        self.drop_empty = drop_empty             # serialisation leaves out rules without declarations
        self.minified = minified                 # useMinified also drops unknown at-rules and unused @namespace
        self.items = []          # ordered
        self.unavail = collections.Counter()
        self.ns = set()
        self.fetches = collections.Counter()     # what a loader has to fetch: one per followed import edge
        self.misresolving = set()                # hrefs of @imports in imported sheets that would resolve to
                                                 # something else if they stood in the main sheet
        self.top_imports = []                    # (href, available) of the sheet's own @import rules
        self.top_media = []                      # their media

    def comps(self, cs, href, ctx, nested=False):
        out = []
        for c in cs:
            if c[0] == 'u':
                try:
                    # RFC 3986 5.2.2: an empty reference is the base without its fragment (urljoin hands the base
                    # back unchanged, fragment included)
                    a = norm_abs(up.urljoin(href, c[1]) if c[1] else up.urldefrag(href)[0])
                except ValueError:
                    a = 'unjoinable:' + c[1]
                out.append(('u', a, url_regions(c[1], nested, ctx)))
            elif c[0] == 'f':
                out.append(('f', c[1], tuple(self.comps(c[2], href, ctx, True))))
            else:
                out.append(c)
        return tuple(out)

    def style(self, st, href, ctx):
        return tuple((n, self.comps(v, href, ctx), p) for n, v, p in st)

    def walk(self, rules, href, chain, media, ctx):
        for r in rules:
            k = r[0]
            if k == 'I':
                try:
                    full = up.urljoin(href, r[1])
                except ValueError:
                    full = 'unjoinable:' + r[1]
                m = media + ((r[2],) if r[2] != 'all' else ())
                # the URL it means, up to what a user agent does before using it (`norm_abs`): an @import kept from an
                # imported sheet is re-based (e8a4f78), and `Replacer` + `urljoin` leave the dot segments of an absolute
                # reference in place (`http://o/r/../s.css` for what was fetched as `http://o/s.css`)
                if not full.startswith('unjoinable:'):
                    full = norm_abs(full)
                nchain = [norm_abs(c) for c in chain]
                self.import_seq.append((full, r[2]))
                if self.embedded:
                    if ctx['depth'] > 0 and not full.startswith('unjoinable:'):
                        try:
                            if norm_abs(up.urljoin(chain[0], r[1])) != full:
                                self.misresolving.add(r[1])
                        except ValueError:
                            self.misresolving.add(r[1])
                    if r[3]:
                        c2 = {'depth': ctx['depth'] + 1,
                              'origin_change': ctx['origin_change'] or origin(r[4]) != origin(href)}
                        self.walk(r[5], r[4], chain + [r[4]], m, c2)
                    else:
                        self.unavail[(full, m)] += 1
                    continue
                if ctx['depth'] == 0:
                    self.top_seq.append(self.import_seq[-1])
                    self.top_imports.append((r[1], full in self.vfs_n and full not in nchain))
                    self.top_media.append(r[2])
                else:
                    try:
                        if norm_abs(up.urljoin(chain[0], r[1])) != full:
                            self.misresolving.add(r[1])
                    except ValueError:
                        self.misresolving.add(r[1])
                if full in nchain or full.startswith('unjoinable:'):
                    # recursive, or a malformed URL: counts as unavailable without any fetch
                    self.unavail[(full, m)] += 1
                    continue
                self.fetches[full] += 1
                if full not in self.vfs_n:
                    self.unavail[(full, m)] += 1
                    continue
                c2 = {'depth': ctx['depth'] + 1,
                      'origin_change': ctx['origin_change'] or origin(full) != origin(href)}
                self.walk(self.vfs_n[full], full, chain + [full], m, c2)
            elif k == 'S':
                if r[2] or not self.drop_empty:
                    self.items.append(('S', media, r[1], self.style(r[2], href, ctx)))
                    self.item_depth.append(ctx['depth'])
            elif k == 'F':
                self.items.append(('F', media, '', self.style(r[1], href, ctx)))
                self.item_depth.append(ctx['depth'])
            elif k == 'P':
                self.items.append(('P', media, r[1], self.style(r[2], href, ctx),
                                   tuple((n, self.style(st, href, ctx)) for n, st in r[3]
                                         if st or not self.drop_empty)))
                self.item_depth.append(ctx['depth'])
            elif k == 'M':
                self.walk(r[2], href, chain, media + (r[1],), ctx)
            elif k == 'U':
                if not self.minified:
                    self.items.append(('U', media, r[1]))
                    self.item_depth.append(ctx['depth'])
            elif k == 'N':
                if not self.minified:
                    self.ns.add((r[1], r[2]))


def meaning(rules, href, vfs, drop_empty=False, minified=False, embedded=False):
    m = Meaning(vfs, drop_empty, minified, embedded)
    m.walk(rules, href, [href], (), {'depth': 0, 'origin_change': False})
    return m


def item_id(x):
    if x[0] == 'S':
        return ('S', x[2])
    if x[0] in 'FP':
        return (x[0], x[3][0] if x[3] else None)
    return ('U', x[2])


def url_diffs(a, b, out):
    """walk two equally shaped meaning items; collect (original url entry, other abs) where the URL differs;
    returns False when the shapes differ"""
    if isinstance(a, tuple) and isinstance(b, tuple):
        if len(a) == 3 and a[0] == 'u' and isinstance(a[2], frozenset):
            if not (len(b) == 3 and b[0] == 'u'):
                return False
            if a[1] != b[1]:
                out.append((a, b[1]))
            return True
        if len(a) != len(b):
            return False
        return all(url_diffs(x, y, out) for x, y in zip(a, b))
    return a == b


def is_subsequence(xs, ys):
    it = iter(ys)
    return all(any(x == y for y in it) for x in xs)


def unmerged_imports(orig, flat):
    """@imports left in a flattened sheet that had to be merged: no media and the target is available.
    (An @import is kept only when its target is unavailable or cannot be wrapped in its media.)"""
    return [h for (h, avail), m in zip(flat.top_imports, flat.top_media) if avail and m == 'all'
            and h not in orig.misresolving]


def compare_meaning(orig, flat):
    out = compare_meaning0(orig, flat)
    stray = [h for h, _ in flat.top_imports if h in orig.misresolving]
    if out and stray:
        # an @import of an imported sheet was moved into the flattened sheet with its href unchanged, and from there
        # it resolves to a different URL; whatever it pulls in or fails to pull in is a consequence of that
        # what is left of C19-kept-import-not-rebased after e8a4f78: `Replacer` keeps every href that has a scheme, but
        # urljoin lets `file:///x` inherit the host of a `file://host/...` base, so such an href still means another URL
        def scheme_without_host(h):
            try:
                sp = up.urlsplit(h)
            except ValueError:
                return False
            return bool(sp.scheme) and not sp.netloc
        kf = 'C19-kept-import-not-rebased' if all(scheme_without_host(h) for h in stray) else None
        return [('kept-import', {'kept_import_href_unchanged': stray[:3], 'first_difference': out[0][:2]}, kf)]
    return out


def compare_meaning0(orig, flat):
    """[] when the meanings are equal; else a list of (kind, detail, known-finding id that explains it or None).
    Rules carry unique identities (see uniquify), so the two lists are aligned by identity."""
    out = []
    a, b = orig.items, flat.items
    ids_a, ids_b = [item_id(x) for x in a], [item_id(x) for x in b]
    if collections.Counter(ids_a) != collections.Counter(ids_b):
        ca, cb = collections.Counter(ids_a), collections.Counter(ids_b)
        return [('rules', {'lost': [repr(k) for k in (ca - cb)][:5], 'gained': [repr(k) for k in (cb - ca)][:5]}, None)]
    if flat.top_seq and not is_subsequence(flat.top_seq, orig.import_seq):
        # an @import that is kept is kept as it is, and kept @imports keep their relative order
        out.append(('kept-import-order', {'kept_in_flattened_sheet': flat.top_seq[:8],
                                          'imports_of_the_original_in_order': orig.import_seq[:12]}, None))
    if ids_a != ids_b:
        first = next(i for i, (x, y) in enumerate(zip(ids_a, ids_b)) if x != y)
        # the known finding moves a kept @import (with everything it stands for) in front of rules merged before it;
        # it changes neither the order among the merged rules nor the order among the kept @imports
        kept = [i for i, d in zip(ids_b, flat.item_depth) if d > 0]
        merged = [i for i, d in zip(ids_b, flat.item_depth) if d == 0]
        hoist = bool(kept) and is_subsequence(kept, ids_a) and is_subsequence(merged, ids_a)
        out.append(('order', {'position': first, 'original_has': repr(ids_a[first]), 'flattened_has': repr(ids_b[first])},
                    'C19-kept-import-hoisted' if hoist else None))
    by_a, by_b = collections.defaultdict(list), collections.defaultdict(list)
    for x in a:
        by_a[item_id(x)].append(x)
    for x in b:
        by_b[item_id(x)].append(x)
    for k in by_a:
        rest = list(by_b[k])
        for x in by_a[k]:
            # the same sheet may be imported more than once: pair occurrences that stand under the same media
            y = next((c for c in rest if c[1] == x[1]), None)
            if y is None:
                out.append(('media', {'rule': repr(k), 'original': x[1], 'flattened': [c[1] for c in rest]}, None))
                continue
            rest.remove(y)
            diffs = []
            if not url_diffs(x, y, diffs):
                out.append(('rule-content', {'rule': repr(k), 'original': repr(x)[:400], 'flattened': repr(y)[:400]},
                            None))
                continue
            for d in diffs:
                regs = sorted(d[0][2])
                out.append(('url', {'rule': repr(k), 'original_resolves_to': d[0][1], 'flattened_resolves_to': d[1]},
                            regs[0] if regs else None))
    if orig.unavail != flat.unavail:
        out.append(('unavailable-imports', {'original': sorted(map(repr, orig.unavail.items())),
                                            'flattened': sorted(map(repr, flat.unavail.items()))}, None))
    if orig.ns != flat.ns:
        out.append(('namespaces', {'original': sorted(orig.ns), 'flattened': sorted(flat.ns)}, None))
    return out
