"""C17: the `MediaQuery.mediaType` setter (mediaquery.py `_setMediaType`) — generator, correspondence with the model
(`MQ.setMediaType`, driver request `mqset`) and an oracle on the implementation that does not use the model:
the significant tokens of the query text after the call are those before it with the media type replaced, or —
for a query that starts with an expression — with `<type> and` put in front of the first parenthesis."""
from lib.framework import enc, time_limit

from harness import c17_gen as G

BAD_TYPES = ['foo', '', 'tv x', '(', 'not', 'and', 'al', 'screen,tv', '1', 't v']
BOUNDARY = ['(color)', '( color )', '/*c*/(color)', '/*c*/ (min-width: 1px) and (color)', '(color) /*c*/',
            'tv', 'TV', 'not tv', 'only /*c*/ tv', '/*c*/ not /*d*/ tv /*e*/ and (color)', 'tv and (color)',
            't\\v and (not: 1)', 'not tv and (only)', 'all', '(not)', '(only: not)', '(a) and (not)',
            '/*not*/ (x)', 'only all and (and)', 'not', '(', 'tv and', '', 'tv,tv']


def gen_cases(rng, n):
    out = []
    for t in BOUNDARY:
        for mt in ('print', 'PRINT', 'al\\l', 'foo'):
            for r in (False, True):
                out.append((t, mt, r, 'boundary'))
    for _ in range(n):
        q = G.gen_q(rng, simple_bias=0.2)
        text = G.render_q(rng, q, fancy=True)
        kind = 'typed' if q.mtype else 'expr-first'
        if rng.random() < 0.1:
            text = G.mutate(rng, text)
            kind = 'malformed'
        if rng.random() < 0.15:
            mt = rng.choice(BAD_TYPES)
        else:
            mt = G.spell(rng, rng.choice(G.MEDIA_TYPES))
        out.append((text, mt, rng.random() < 0.3, kind))
    return out


def show_items(impl, mq):
    out = []
    for item in mq.seq:
        v = item.value
        if isinstance(v, str):
            out.append('%s/%s' % (item.type, enc(v)))
        elif item.type == 'COMMENT' or v.__class__.__name__ == 'CSSComment':
            out.append('C/%s' % enc(v.cssText))
        else:
            out.append('V/%s' % enc(v.cssText))
    return ','.join(out) or '_'


def run_impl(impl, text, mt, raising):
    """returns (model request line, expected reply, facts for the oracle)"""
    log = impl.cssutils.log
    old = log.raiseExceptions
    log.raiseExceptions = False
    try:
        mq = impl.MediaQuery(text)
    finally:
        log.raiseExceptions = old
    line = 'mqset %d %s %s' % (int(raising), impl.enc_toks(impl.tokenize(text)), enc(mt))
    if not mq.wellformed:
        return line, 'bad', None
    before = {'text': mq.mediaText, 'type': mq.mediaType}

    def f():
        mq.mediaType = mt
    out = impl.call(raising, f)
    reply = '%s # %s %s %s' % (out, enc(mq.mediaType), enc(mq.mediaText), show_items(impl, mq))
    return line, reply, {'before': before, 'out': out, 'after': {'text': mq.mediaText, 'type': mq.mediaType}}


def oracle(impl, text, mt, raising, facts):
    """independent specification on token level; returns None or (clause detail)"""
    from harness.c17_oracle import norm
    sig = lambda s: [t for t in impl.tokenize(s) if t[0] not in ('S',)]
    b, a = sig(facts['before']['text']), sig(facts['after']['text'])
    known_type = norm(mt) in [norm(x) for x in G.MEDIA_TYPES]
    if not known_type:
        want_out = 'raised:SyntaxErr' if raising else 'ret:None'
        if facts['out'] != want_out:
            return 'unknown type: outcome %s, expected %s' % (facts['out'], want_out)
        if facts['after'] != facts['before']:
            return 'unknown type changed the query'
        return None
    if facts['out'] != 'ret:None':
        return 'known type: outcome %s' % facts['out']
    if facts['after']['type'] != mt:
        return 'mediaType is %r after the assignment' % (facts['after']['type'],)
    # the slot of the media type: the first IDENT that is not only / not and stands before any parenthesis
    want = None
    for i, t in enumerate(b):
        if t[0] == 'COMMENT':
            continue
        if t[0] == 'IDENT' and norm(t[1]) in ('only', 'not'):
            continue
        if t[0] == 'IDENT':
            want = b[:i] + [('IDENT', mt)] + b[i + 1:]
        else:
            want = b[:i] + [('IDENT', mt), ('IDENT', 'and')] + b[i:]
        break
    if want is None:
        want = [('IDENT', mt)] + b
    if [impl.tok_key(t) for t in a] != [impl.tok_key(t) for t in want]:
        return 'tokens after the assignment: %r, expected %r' % (a, want)
    # the result is a well-formed query again and reads back the same text
    log = impl.cssutils.log
    old = log.raiseExceptions
    log.raiseExceptions = False
    try:
        again = impl.MediaQuery(facts['after']['text'])
        if not again.wellformed or again.mediaText != facts['after']['text']:
            return 'the text after the assignment does not reparse to itself'
    finally:
        log.raiseExceptions = old
    return None


def run(ctx, impl, cases, correspond=True):
    lines, expect, keep = [], [], []
    for (text, mt, raising, kind) in cases:
        w = {'text': text, 'type': mt, 'raising': raising}
        with time_limit(20):
            line, reply, facts = run_impl(impl, text, mt, raising)
        ctx.case(key=('setter', text, mt, raising), nontrivial=facts is not None, sample=w, kind='setter:' + kind)
        if facts is not None:
            ctx.count('oracle:setter')
            bad = oracle(impl, text, mt, raising, facts)
            if bad:
                ctx.violate('setter', w, bad)
        lines.append(line)
        expect.append(reply)
        keep.append(w)
    if not correspond or not ctx.model_ok:
        return
    out = ctx.driver(lines)
    for line, want, got, w in zip(lines, expect, out, keep):
        if got.startswith('unsupported'):
            ctx.count('setter:unsupported')
            continue
        if want != got:
            ctx.disagree('mediaType setter', dict(w, line=line), want, got)
