"""C07 — tie of the inner-codec model (lean/CssVerif/Model/CodecInner.lean) to CPython's codecs.

For every generated text / byte string (well-formed in each encoding, then damaged: flipped, dropped,
inserted, truncated bytes, lone surrogates, over-long forms, values above 10FFFF, with and without BOM)
and for EVERY chunking of the short ones (all 2^(n-1) compositions) resp. all single / double cuts plus
random partitions of the long ones, compared with errors="strict" (the handler codec.py passes on):
  pdec  one `_buffer_decode(data, "strict", final)` of a fresh decoder: text, consumed, decoder chosen
  idec  per-call outputs of `codecs.getincrementaldecoder(name)()` (or which call raises), and the stateless
        `codecs.getdecoder(name)(data)`
  ienc  the same for `codecs.getincrementalencoder(name)()` / `codecs.getencoder(name)`
"""
import codecs
import itertools

from lib.framework import enc, encb

CODECS = {  # model token -> python name
    'u8': 'utf-8', 'u8sig': 'utf-8-sig', 'u16': 'utf-16', 'u16le': 'utf-16-le', 'u16be': 'utf-16-be',
    'u32': 'utf-32', 'u32le': 'utf-32-le', 'u32be': 'utf-32-be', 'l1': 'latin-1', 'ascii': 'ascii',
}
TOKEN = {v: k for k, v in CODECS.items()}
BUFFERED = ('u8', 'u8sig', 'u16', 'u16le', 'u16be', 'u32', 'u32le', 'u32be')
CPS = [0, 0x22, 0x40, 0x41, 0x61, 0x7F, 0x80, 0xE9, 0xFF, 0x100, 0x7FF, 0x800, 0x20AC, 0xD7FF, 0xE000, 0xFEFF,
       0xFFFE, 0xFFFF, 0x10000, 0x1F600, 0x10FFFF]
SURR = [0xD800, 0xDBFF, 0xDC00, 0xDFFF]
BYTES = [0x00, 0x10, 0x11, 0x41, 0x7F, 0x80, 0x8F, 0x90, 0x9F, 0xA0, 0xBB, 0xBF, 0xC0, 0xC1, 0xC2, 0xD7, 0xD8, 0xDB,
         0xDC, 0xDF, 0xE0, 0xE1, 0xEC, 0xED, 0xEE, 0xEF, 0xF0, 0xF1, 0xF3, 0xF4, 0xF5, 0xFE, 0xFF]


def compositions(n):
    """all ways of cutting a sequence of length n into non-empty consecutive parts (as cut tuples)"""
    for k in range(0, n):
        for cuts in itertools.combinations(range(1, n), k):
            yield cuts


def chunkings(rng, n, ctx, exhaustive_upto):
    if n <= exhaustive_upto:
        out = list(compositions(n)) if n > 0 else [()]
    else:
        out = [()] + [(i,) for i in range(1, n)]
        if n <= 24:
            out += [(i, j) for i in range(1, n) for j in range(i + 1, n)]
        for _ in range(4):
            k = rng.randint(2, min(8, n - 1))
            out.append(tuple(sorted(set(rng.randint(1, n - 1) for _ in range(k)))))
    res = []
    for cuts in out:
        res.append(cuts)
    # a few chunkings with empty chunks
    if n:
        res.append((0,))
        res.append((n,))
        c = rng.randint(0, n)
        res.append((c, c))
    return res


def cut(seq, cuts):
    cuts = list(cuts)
    return [seq[a:b] for a, b in zip([0] + cuts, cuts + [len(seq)])]


def gen_text(rng, surrogates=False, maxlen=5):
    pool = CPS + (SURR * 2 if surrogates else [])
    return ''.join(chr(rng.choice(pool)) for _ in range(rng.randint(0, maxlen)))


def damage(rng, b):
    b = bytearray(b)
    r = rng.random()
    if not b or r < 0.15:
        b.insert(rng.randint(0, len(b)), rng.choice(BYTES))
    elif r < 0.45:
        b[rng.randrange(len(b))] = rng.choice(BYTES)
    elif r < 0.65:
        del b[rng.randrange(len(b))]
    elif r < 0.85:
        del b[rng.randint(0, len(b)):]
    else:
        i = rng.randrange(len(b))
        b[i] ^= 1 << rng.randrange(8)
    return bytes(b)


def gen_bytes(rng, tok):
    """mostly well-formed data of the codec, often damaged; sometimes raw interesting bytes"""
    r = rng.random()
    if r < 0.2:
        return bytes(rng.choice(BYTES) for _ in range(rng.randint(0, 6)))
    t = gen_text(rng)
    pyname = CODECS[tok]
    if tok in ('u16', 'u32', 'u8sig') and rng.random() < 0.35:
        pyname = rng.choice({'u16': ['utf-16-le', 'utf-16-be'], 'u32': ['utf-32-le', 'utf-32-be'],
                             'u8sig': ['utf-8']}[tok])          # no BOM, or the other byte order with BOM
        try:
            b = t.encode(pyname)
        except UnicodeEncodeError:
            b = b''
        if rng.random() < 0.5 and tok != 'u8sig':
            b = {'utf-16-be': codecs.BOM_UTF16_BE, 'utf-32-be': codecs.BOM_UTF32_BE,
                 'utf-16-le': codecs.BOM_UTF16_LE, 'utf-32-le': codecs.BOM_UTF32_LE}[pyname] + b
    else:
        try:
            b = t.encode(pyname, 'ignore' if tok in ('l1', 'ascii') else 'strict')
        except UnicodeEncodeError:
            b = b''
    k = rng.choice([0, 0, 1, 1, 2])
    for _ in range(k):
        b = damage(rng, b)
    return b


def py_pdec(tok, data, final):
    name = CODECS[tok]
    try:
        if tok == 'l1':
            t, c = codecs.latin_1_decode(data, 'strict')
            mode = 'l1'
        elif tok == 'ascii':
            t, c = codecs.ascii_decode(data, 'strict')
            mode = 'ascii'
        else:
            d = codecs.getincrementaldecoder(name)('strict')
            t, c = d._buffer_decode(data, 'strict', final)
            if tok == 'u8sig':
                mode = 'none' if d.first else 'u8'
            elif tok in ('u16', 'u32'):
                mode = 'none' if d.decoder is None else TOKEN[d.decoder.__name__.replace('_decode', '').replace('_', '-')]
            else:
                mode = tok
    except UnicodeError:
        return 'RAISE'
    return '%s %d %s' % (enc(t), c, mode)


def py_idec(tok, parts):
    name = CODECS[tok]
    d = codecs.getincrementaldecoder(name)('strict')
    outs, total, raised = [], [], False
    for p in list(parts) + [None]:
        try:
            o = d.decode(b'' if p is None else p, p is None)
        except UnicodeError:
            outs.append('RAISE')
            raised = True
            break
        outs.append(enc(o))
        total.append(o)
    try:
        one = enc(codecs.getdecoder(name)(b''.join(parts), 'strict')[0])
    except UnicodeError:
        one = 'RAISE'
    return '%s | %s | %s' % (' '.join(outs), 'RAISE' if raised else enc(''.join(total)), one)


def py_ienc(tok, parts):
    name = CODECS[tok]
    e = codecs.getincrementalencoder(name)('strict')
    outs, total, raised = [], [], False
    for p in list(parts) + [None]:
        try:
            o = e.encode('' if p is None else p, p is None)
        except UnicodeError:
            outs.append('RAISE')
            raised = True
            break
        outs.append(encb(o))
        total.append(o)
    try:
        one = encb(codecs.getencoder(name)(''.join(parts), 'strict')[0])
    except UnicodeError:
        one = 'RAISE'
    return '%s | %s | %s' % (' '.join(outs), 'RAISE' if raised else encb(b''.join(total)), one)


def norm(s):
    return ' '.join(s.split())


def corr_inner(check, ctx, c, rng):
    """model of CPython's codecs vs CPython, every chunking"""
    lines, cases = [], []
    seen = set()
    # exhaustive small space: every byte string of length <= 3 over the interesting bytes, for UTF-8 and the sniffers
    small = []
    for n in range(0, 3):
        for t in itertools.product(BYTES, repeat=n):
            small.append(bytes(t))
    for tok in ('u8', 'u8sig', 'u16', 'u16le', 'u16be'):
        for b in small:
            for final in (0, 1):
                lines.append('pdec %s %d %s' % (tok, final, encb(b)))
                cases.append(('pdec', tok, b, final))
    n_data = ctx.n(260, 6000)
    for tok in CODECS:
        for _ in range(n_data):
            b = gen_bytes(rng, tok)
            if (tok, b) in seen:
                continue
            seen.add((tok, b))
            for final in (0, 1):
                lines.append('pdec %s %d %s' % (tok, final, encb(b)))
                cases.append(('pdec', tok, b, final))
            for cuts in chunkings(rng, len(b), ctx, ctx.n(6, 9)):
                parts = cut(b, cuts)
                lines.append('idec %s %s' % (tok, ' '.join(encb(p) for p in parts)))
                cases.append(('idec', tok, parts, cuts))
    n_text = ctx.n(120, 3000)
    for tok in CODECS:
        for _ in range(n_text):
            t = gen_text(rng, surrogates=rng.random() < 0.3, maxlen=6)
            if (tok, t) in seen:
                continue
            seen.add((tok, t))
            for cuts in chunkings(rng, len(t), ctx, ctx.n(5, 7)):
                parts = cut(t, cuts)
                lines.append('ienc %s %s' % (tok, ' '.join(enc(p) for p in parts)))
                cases.append(('ienc', tok, parts, cuts))
    out = ctx.driver(lines) if ctx.model_ok else [None] * len(lines)
    for case, m in zip(cases, out):
        kind, tok = case[0], case[1]
        if kind == 'pdec':
            _, _, b, final = case
            got = py_pdec(tok, b, bool(final))
            ctx.case(key=('pdec', tok, b, final), nontrivial=(got == 'RAISE' or not got.endswith(' %d %s' % (len(b), tok))),
                     kind='inner-pdec', sample={'codec': CODECS[tok], 'bytes': b.hex(), 'final': final, 'cpython': got})
            where = {'codec': CODECS[tok], 'bytes': b.hex(), 'final': bool(final)}
        elif kind == 'idec':
            _, _, parts, cuts = case
            got = py_idec(tok, parts)
            ctx.case(key=('idec', tok, tuple(parts)), nontrivial=len(parts) > 1, kind='inner-idec:' + tok)
            where = {'codec': CODECS[tok], 'chunks': [p.hex() for p in parts]}
        else:
            _, _, parts, cuts = case
            got = py_ienc(tok, parts)
            ctx.case(key=('ienc', tok, tuple(parts)), nontrivial=len(parts) > 1, kind='inner-ienc')
            where = {'codec': CODECS[tok], 'chunks': [[ord(ch) for ch in p] for p in parts]}
        if m is not None and norm(m) != norm(got):
            ctx.disagree('CPython inner codec (%s)' % kind, where, got, m)


# ---------------------------------------------------------------------------------------------------
# the CSS codec (codec.py) over the concrete inner codecs: model `step cpyInner` / `estep cpyInnerEnc`
MODEL_NAMES = ['utf-8', 'utf-8-sig', 'utf-16', 'utf-16-le', 'utf-16-be', 'utf-32', 'utf-32-le', 'utf-32-be',
               'latin-1', 'ascii', 'UTF_8', 'Latin1', 'iso-8859-1', 'utf8', 'UTF-16LE']
PREFIX = '@charset "'
FINDING = 'C07-inner-stateless-vs-incremental'


def norm_name(n):
    return n.replace('_', '-').lower()


def outside_agree(name, data):
    """region of the known finding: data on which CPython's stateless and incremental decoder of `name` differ
    (mirror of `Agree` in Lemmas/CodecAgree.lean)"""
    n = norm_name(name)
    if n == 'utf-8-sig':
        return data in (b'\xef', b'\xef\xbb')
    if n in ('utf-16', 'utf-32'):
        w = 2 if n == 'utf-16' else 4
        boms = (codecs.BOM_UTF16_LE, codecs.BOM_UTF16_BE) if w == 2 else (codecs.BOM_UTF32_LE, codecs.BOM_UTF32_BE)
        if not data or data[:w] in boms:
            return False
        try:
            data.decode(n + '-le')
        except UnicodeError:
            return False
        return True
    return False


def used_encoding(c, data, given, force):
    """the encoding one-shot decode ends up with (codec.py decode)"""
    if given is None or not force:
        e, explicit = c.detectencoding_str(data, True)
        if (explicit and not force) or given is None:
            return e
    return given


def css_text(rng):
    body = ''.join(rng.choice(['a', '{', '}', ' ', 'é', '€', '"', '@', 'x:y', '\n', '\U0001F600', 'ü', ';', '\x00',
                               '﻿', '￿']) for _ in range(rng.randint(0, 7)))
    if rng.random() < 0.1:
        body = body * rng.randint(2, 12)        # some long texts: first chunks beyond any small look-ahead
    r = rng.random()
    if r < 0.55:
        name = rng.choice(MODEL_NAMES + ['x', ''])
        return PREFIX + name + rng.choice(['";', '"', '"; ']) + body
    if r < 0.7:
        return PREFIX[:rng.randint(0, 10)] + body
    return body


def corr_css_concrete(check, ctx, c, rng):
    lines, cases = [], []
    for _ in range(ctx.n(700, 16000)):
        text = css_text(rng)
        e = rng.choice(MODEL_NAMES[:10])
        try:
            data = text.encode(e) if rng.random() < 0.8 else codecs.getencoder('css')(text, encoding=e)[0]
        except (UnicodeEncodeError, LookupError, ValueError):
            continue
        if rng.random() < 0.12:
            data = damage(rng, data)
        given = rng.choice([None, None, e, e, rng.choice(MODEL_NAMES)])
        force = rng.random() < 0.6
        n = len(data)
        cutsets = [(), tuple(sorted(set(rng.randint(0, n) for _ in range(rng.randint(1, 5)))))]
        if n:
            cutsets.append((rng.randint(1, min(n, 14)),))
            cutsets.append(tuple(range(1, n)))          # one byte at a time
        for cuts in cutsets:
            parts = cut(data, cuts)
            lines.append('cdec %s %d %s' % ('none' if given is None else enc(given), force,
                                            ' '.join(encb(p) for p in parts)))
            cases.append(('cdec', parts, given, force, text))
    for _ in range(ctx.n(500, 12000)):
        text = css_text(rng)
        if rng.random() < 0.1:
            text += chr(rng.choice(SURR))
        given = rng.choice([None, None] + MODEL_NAMES)
        n = len(text)
        cutsets = [(), tuple(sorted(set(rng.randint(0, n) for _ in range(rng.randint(1, 5)))))]
        if n:
            cutsets.append(tuple(range(1, n)))
        for cuts in cutsets:
            parts = cut(text, cuts)
            lines.append('cenc %s %s' % ('none' if given is None else enc(given), ' '.join(enc(p) for p in parts)))
            cases.append(('cenc', parts, given, None, text))
    out = ctx.driver(lines) if ctx.model_ok else [None] * len(lines)
    for (kind, parts, given, force, text), m in zip(cases, out):
        if kind == 'cdec':
            data = b''.join(parts)
            w = {'call': 'IncrementalDecoder', 'chunks': [p.hex() for p in parts], 'encoding': given, 'force': force}
            try:
                name = used_encoding(c, data, given, force)
                codecs.lookup(name)
                if norm_name(name) not in [norm_name(x) for x in MODEL_NAMES]:
                    raise LookupError(name)
            except (LookupError, ValueError, TypeError):
                ctx.count('cdec:encoding name outside the model (skipped)')
                continue
            try:
                one = codecs.getdecoder('css')(data, encoding=given, force=force)[0]
            except UnicodeError:
                one = None
            d = c.IncrementalDecoder(encoding=given, force=force)
            outs, raised = [], False
            try:
                for p in parts:
                    outs.append(d.decode(p, False))
                outs.append(d.decode(b'', True))
            except UnicodeError:
                raised = True
            region = outside_agree(name, data)
            ctx.case(key=('cdec', tuple(parts), given, force), nontrivial=len(parts) > 1,
                     kind='css-cdec:' + norm_name(name) + (':raises' if one is None else ''),
                     sample={'chunks': [p.hex() for p in parts], 'encoding': given, 'force': force, 'one_shot': one})
            got_total = None if raised else ''.join(outs)
            if got_total != one:
                ctx.violate('incremental decoder = one-shot for every chunking (errors included)', w,
                            {'incremental': 'raises' if raised else got_total,
                             'one_shot': 'raises' if one is None else one, 'encoding_used': name},
                            known=FINDING if region else None)
                continue
            if region:
                continue            # the model's one-shot is the incremental decoder at end of data (see Agree)
            got = '%s | %s | %s' % (' '.join([enc(o) for o in outs] + (['RAISE'] if raised else [])),
                                    'RAISE' if raised else enc(got_total), 'RAISE' if one is None else enc(one))
            if m is not None and norm(m) != norm(got):
                ctx.disagree('IncrementalDecoder over CPython inner codecs', w, got, m)
        else:
            w = {'call': 'IncrementalEncoder', 'chunks': parts, 'encoding': given}
            try:
                one = codecs.getencoder('css')(text, encoding=given)[0]
            except UnicodeError:
                one = None
            except (LookupError, ValueError):
                ctx.count('cenc:encoding name outside the model (skipped)')
                continue
            e = c.IncrementalEncoder(encoding=given)
            outs, raised = [], False
            try:
                for p in parts:
                    outs.append(e.encode(p, False))
                outs.append(e.encode('', True))
            except UnicodeError:
                raised = True
            except (LookupError, ValueError):
                ctx.count('cenc:encoding name outside the model (skipped)')
                continue
            used = e.encoding
            if used is None or norm_name(used) not in [norm_name(x) for x in MODEL_NAMES]:
                ctx.count('cenc:encoding name outside the model (skipped)')
                continue
            ctx.case(key=('cenc', tuple(parts), given), nontrivial=len(parts) > 1,
                     kind='css-cenc' + (':raises' if one is None else ''))
            got_total = None if raised else b''.join(x for x in outs if x)
            if got_total != one:
                ctx.violate('incremental encoder = one-shot for every chunking (errors included)', w,
                            {'incremental': 'raises' if raised else got_total.hex(),
                             'one_shot': 'raises' if one is None else one.hex()})
                continue
            got = '%s | %s | %s' % (' '.join([encb(o) if o else '-' for o in outs] + (['RAISE'] if raised else [])),
                                    'RAISE' if raised else encb(got_total), 'RAISE' if one is None else encb(one))
            if m is not None and norm(m) != norm(got):
                ctx.disagree('IncrementalEncoder over CPython inner codecs', w, got, m)

# ---------------------------------------------------------------------------------------------------
# the stream classes: model `rstep cpyInner` / `wstep cpyInnerEnc` (Model/CodecStream.lean)
class RecStream:
    """a byte stream that hands out the given (non-empty) parts one per read() and records how many characters
    the reader had decoded before each read (= the per-turn `newchars` of codecs.StreamReader.read)"""
    def __init__(self, parts):
        self.parts = [p for p in parts if p]
        self.reader = None
        self.marks = []

    def read(self, size=-1):
        self.marks.append(len(self.reader.charbuffer))
        return self.parts.pop(0) if self.parts else b''

    def close(self):
        pass


def corr_css_stream(check, ctx, c, rng):
    import io
    lines, cases = [], []
    for _ in range(ctx.n(600, 14000)):
        text = css_text(rng)
        e = rng.choice(MODEL_NAMES[:10])
        try:
            data = text.encode(e) if rng.random() < 0.7 else codecs.getencoder('css')(text, encoding=e)[0]
        except (UnicodeEncodeError, LookupError, ValueError):
            continue
        if rng.random() < 0.1:
            data = damage(rng, data)
        given = rng.choice([None, None, e, e, rng.choice(MODEL_NAMES)])
        force = rng.random() < 0.6
        n = len(data)
        cutsets = [(), tuple(sorted(set(rng.randint(1, max(1, n - 1)) for _ in range(rng.randint(1, 5)))))]
        if n > 1:
            cutsets.append((rng.randint(1, min(n - 1, 14)),))
            cutsets.append(tuple(range(1, n)))
        for cuts in cutsets:
            parts = [p for p in cut(data, cuts) if p]
            lines.append('sread %s %d %s' % ('none' if given is None else enc(given), force,
                                             ' '.join(encb(p) for p in parts)))
            cases.append(('sread', parts, given, force, text))
    for _ in range(ctx.n(400, 10000)):
        text = css_text(rng)
        given = rng.choice([None, None] + MODEL_NAMES)
        n = len(text)
        cutsets = [(), tuple(sorted(set(rng.randint(0, n) for _ in range(rng.randint(1, 5)))))]
        if n:
            cutsets.append(tuple(range(1, n)))
        for cuts in cutsets:
            parts = cut(text, cuts)
            lines.append('swrite %s %s' % ('none' if given is None else enc(given), ' '.join(enc(p) for p in parts)))
            cases.append(('swrite', parts, given, None, text))
    out = ctx.driver(lines) if ctx.model_ok else [None] * len(lines)
    known_names = [norm_name(x) for x in MODEL_NAMES]
    for (kind, parts, given, force, text), m in zip(cases, out):
        if kind == 'sread':
            data = b''.join(parts)
            w = {'call': 'StreamReader', 'chunks': [p.hex() for p in parts], 'encoding': given, 'force': force}
            try:
                name = used_encoding(c, data, given, force)
                codecs.lookup(name)
                if norm_name(name) not in known_names:
                    raise LookupError(name)
            except (LookupError, ValueError, TypeError):
                ctx.count('sread:encoding name outside the model (skipped)')
                continue
            try:
                one = codecs.getdecoder('css')(data, encoding=given, force=force)[0]
            except UnicodeError:
                one = None
            st = RecStream(parts)
            rd = codecs.getreader('css')(st, encoding=given, force=force)
            st.reader = rd
            try:
                got = rd.read()
            except UnicodeError:
                got = None
            waiting = rd.streamreader is None
            ctx.case(key=('sread', tuple(parts), given, force), nontrivial=len(parts) > 1,
                     kind='css-sread:' + ('W' if waiting else 'R') + (':raises' if got is None else ''))
            if got is None:
                # strict inner decoder met ill-formed data: one-shot must raise too (unless the finding's region)
                if one is not None and not outside_agree(name, data):
                    ctx.violate('stream reader = one-shot for every chunking', w,
                                {'stream': 'raises', 'one_shot': one, 'encoding_used': name})
                    continue
                # which turn of the read() loop raised, and what had been decoded before (model: rstepE)
                k = len(st.marks)                      # stream.read() calls made = turns started
                done = rd.charbuffer
                marks = st.marks + [len(done)]
                outs = [done[a:b] for a, b in zip(marks, marks[1:])][:k - 1]
                line = ' '.join([enc(o) for o in outs] + ['RAISE']) + ' | X'
                if m is not None:
                    mm = m.rsplit('|', 1)[0]
                    if norm(mm) != norm(line):
                        ctx.disagree('StreamReader over CPython inner codecs (raising turn)', w, line, mm)
                continue
            # oracle (T7.7): always a prefix of one-shot; all of it when the reader started and nothing is pending
            if one is not None and not one.startswith(got):
                ctx.violate('stream reader hands out a prefix of the one-shot result for every chunking', w,
                            {'stream': got, 'one_shot': one, 'encoding_used': name})
                continue
            if one is not None and not waiting and not rd.bytebuffer and got != one:
                ctx.violate('stream reader = one-shot once it has started and nothing is pending', w,
                            {'stream': got, 'one_shot': one, 'encoding_used': name})
                continue
            if outside_agree(name, data):
                continue
            marks = st.marks + [len(got)]
            outs = [got[a:b] for a, b in zip(marks, marks[1:])]
            k = len(parts)
            per, tail = outs[:k], ''.join(outs[k:])
            line = '%s | %s' % (' '.join(enc(o) for o in per) if per else '', 'W' if waiting else 'R')
            if tail:
                ctx.violate('stream reader: nothing new is decoded at end of stream', w, {'tail': tail})
                continue
            if m is not None:
                mm = m.rsplit('|', 1)[0]
                if norm(mm) != norm(line):
                    ctx.disagree('StreamReader over CPython inner codecs', w, line, mm)
        else:
            w = {'call': 'StreamWriter', 'chunks': parts, 'encoding': given}
            try:
                one = codecs.getencoder('css')(text, encoding=given)[0]
            except UnicodeError:
                one = None
            except (LookupError, ValueError):
                ctx.count('swrite:encoding name outside the model (skipped)')
                continue
            bio = io.BytesIO()
            outs, raised = [], False
            try:
                wr = codecs.getwriter('css')(bio, encoding=given)
                for p in parts:
                    before = len(bio.getvalue())
                    wr.write(p)
                    outs.append(bio.getvalue()[before:])
            except UnicodeError:
                raised = True
            except (LookupError, ValueError):
                ctx.count('swrite:encoding name outside the model (skipped)')
                continue
            used = wr.encoding
            if used is not None and norm_name(used) not in known_names:
                ctx.count('swrite:encoding name outside the model (skipped)')
                continue
            waiting = wr.streamwriter is None
            ctx.case(key=('swrite', tuple(parts), given), nontrivial=len(parts) > 1,
                     kind='css-swrite:' + ('W' if waiting else 'E') + (':raises' if raised else ''))
            if raised:
                if one is not None:
                    ctx.violate('stream writer = one-shot for every chunking', w,
                                {'stream': 'raises', 'one_shot': one.hex()})
                    continue
                line = ' '.join([encb(o) if o else '-' for o in outs] + ['RAISE']) + ' | X'
                if m is not None:
                    mm = m.rsplit('|', 1)[0]
                    if norm(mm) != norm(line):
                        ctx.disagree('StreamWriter over CPython inner codecs (raising write)', w, line, mm)
                continue
            total = b''.join(outs)
            if one is not None and not one.startswith(total):
                ctx.violate('stream writer writes a prefix of the one-shot result for every chunking', w,
                            {'stream': total.hex(), 'one_shot': one.hex()})
                continue
            if one is not None and not waiting and text and total != one:
                ctx.violate('stream writer = one-shot once it has started', w,
                            {'stream': total.hex(), 'one_shot': one.hex()})
                continue
            if one is None:
                continue
            line = '%s | %s' % (' '.join(encb(o) if o else '-' for o in outs), 'W' if waiting else 'E')
            if m is not None:
                mm = m.rsplit('|', 1)[0]
                if norm(mm) != norm(line):
                    ctx.disagree('StreamWriter over CPython inner codecs', w, line, mm)


# ---------------------------------------------------------------------------------------------------
# reset(): two documents through one decoder / encoder object (model: DSt.reset / ESt.reset)
# the former finding C07-reset-keeps-encoding is fixed (69a1bbe): no region left, every difference is a violation
RESET_FINDING = 'C07-reset-keeps-encoding'      # id of the (fixed) entry; used by c07.known for a replay of its witness


def corr_css_reset(check, ctx, c, rng):
    lines, cases = [], []
    for _ in range(ctx.n(500, 10000)):
        docs = []
        for _k in range(2):
            text = css_text(rng)
            e = rng.choice(MODEL_NAMES[:10])
            try:
                data = codecs.getencoder('css')(text, encoding=e)[0] if rng.random() < 0.6 else text.encode(e)
            except (UnicodeEncodeError, LookupError, ValueError):
                data = b''
            n = len(data)
            cuts = tuple(sorted(set(rng.randint(0, n) for _ in range(rng.randint(0, 3)))))
            docs.append(cut(data, cuts))
        given = rng.choice([None, None, None] + MODEL_NAMES[:10])
        force = rng.random() < 0.6
        lines.append('rdec %s %d %d %s' % ('none' if given is None else enc(given), force, len(docs[0]),
                                           ' '.join(encb(p) for p in docs[0] + docs[1])))
        cases.append(('rdec', docs, given, force))
    for _ in range(ctx.n(300, 6000)):
        docs = []
        for _k in range(2):
            text = css_text(rng)
            n = len(text)
            cuts = tuple(sorted(set(rng.randint(0, n) for _ in range(rng.randint(0, 3)))))
            docs.append(cut(text, cuts))
        given = rng.choice([None, None, None] + MODEL_NAMES[:10])
        lines.append('renc %s %d %s' % ('none' if given is None else enc(given), len(docs[0]),
                                        ' '.join(enc(p) for p in docs[0] + docs[1])))
        cases.append(('renc', docs, given, None))
    out = ctx.driver(lines) if ctx.model_ok else [None] * len(lines)
    known_names = [norm_name(x) for x in MODEL_NAMES]
    for (kind, docs, given, force), m in zip(cases, out):
        if kind == 'rdec':
            d = c.IncrementalDecoder(encoding=given, force=force)
            w = {'call': 'IncrementalDecoder+reset', 'docs': [[p.hex() for p in doc] for doc in docs],
                 'encoding': given, 'force': force}
            totals, skip, region = [], False, False
            for i, doc in enumerate(docs):
                try:
                    totals.append(''.join(d.decode(p, False) for p in doc) + d.decode(b'', True))
                except UnicodeError:
                    totals.append(None)
                except (LookupError, ValueError, TypeError):
                    skip = True
                    break
                if d.encoding is not None and norm_name(d.encoding) not in known_names:
                    skip = True
                    break
                if i == 0:
                    if totals[0] is None:
                        break
                    region = d.encoding != given      # `self.encoding` was overwritten by the detector
                    d.reset()
            if skip:
                ctx.count('rdec:encoding name outside the model (skipped)')
                continue
            ctx.case(key=('rdec', tuple(map(tuple, docs)), given, force), nontrivial=region, kind='css-reset-dec')
            if len(totals) == 2:
                try:
                    fresh = codecs.getdecoder('css')(b''.join(docs[1]), encoding=given, force=force)[0]
                except UnicodeError:
                    fresh = None
                except (LookupError, ValueError, TypeError):
                    fresh = totals[1]
                try:
                    name2 = used_encoding(c, b''.join(docs[1]), given, force)
                    agree2 = not outside_agree(name2, b''.join(docs[1])) and \
                        not (d.encoding and outside_agree(d.encoding, b''.join(docs[1])))
                except Exception:
                    agree2 = False
                if agree2 and totals[1] != fresh:
                    ctx.violate('a reset incremental decoder behaves like a fresh one', w,
                                {'after_reset': 'raises' if totals[1] is None else totals[1],
                                 'fresh': 'raises' if fresh is None else fresh, 'self.encoding': d.encoding},
                                known=None)
            got = ' | '.join(('RAISE' if t is None else enc(t)) for t in totals) + (' | -' if len(totals) == 1 else '')
            if m is not None and norm(m) != norm(got):
                ctx.disagree('IncrementalDecoder with reset()', w, got, m)
        else:
            e = c.IncrementalEncoder(encoding=given)
            w = {'call': 'IncrementalEncoder+reset', 'docs': docs, 'encoding': given}
            totals, skip, region = [], False, False
            for i, doc in enumerate(docs):
                try:
                    totals.append(b''.join(x for x in [e.encode(p, False) for p in doc] + [e.encode('', True)] if x))
                except UnicodeError:
                    totals.append(None)
                except (LookupError, ValueError, TypeError):
                    skip = True
                    break
                if e.encoding is not None and norm_name(e.encoding) not in known_names:
                    skip = True
                    break
                if i == 0:
                    if totals[0] is None:
                        break
                    region = e.encoding != given
                    e.reset()
            if skip:
                ctx.count('renc:encoding name outside the model (skipped)')
                continue
            ctx.case(key=('renc', tuple(map(tuple, docs)), given), nontrivial=region, kind='css-reset-enc')
            if len(totals) == 2:
                try:
                    fresh = codecs.getencoder('css')(''.join(docs[1]), encoding=given)[0]
                except UnicodeError:
                    fresh = None
                except (LookupError, ValueError, TypeError):
                    fresh = totals[1]
                if totals[1] != fresh:
                    ctx.violate('a reset incremental encoder behaves like a fresh one', w,
                                {'after_reset': 'raises' if totals[1] is None else totals[1].hex(),
                                 'fresh': 'raises' if fresh is None else fresh.hex(), 'self.encoding': e.encoding},
                                known=None)
            got = ' | '.join(('RAISE' if t is None else encb(t)) for t in totals) + (' | -' if len(totals) == 1 else '')
            if m is not None and norm(m) != norm(got):
                ctx.disagree('IncrementalEncoder with reset()', w, got, m)
