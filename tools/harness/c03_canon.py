"""C03, sheet level: the tie of `Model/SheetCanon.lean` (`canon`, `serialise`) to the serializer.

Cases: abstract sheets of c02_gen x structure-level spellings of c02_struct (the spelled sheets of C02's `parse_render`).
The opaque parts (values, selector groups, media queries, unknown at-rules) are first brought into the form the
serializer gives them ON THEIR OWN (PropertyValue / selectorText / MediaList / CSSUnknownRule of the implementation), because
`canon` writes them as they stand; everything around them is spelled at random.  For every case

  tokens of the real tokenizer on the real `parseString(text).cssText`   ==   driver `canon <spelled sheet>`

token by token (type and value), and the two theorems are replayed by evaluation (`reparse`, `fix` must answer `eq`).
"""
import random

from lib.framework import enc
from harness import c02_gen as G
from harness import c02_struct as S


class Skip(Exception):
    pass


def _norm_value(cssutils, text):
    pv = cssutils.css.PropertyValue(cssText=text)
    out = pv.cssText
    if not out:
        raise Skip('value')
    return out


def _norm_mq(cssutils, text):
    ml = cssutils.stylesheets.MediaList(mediaText=text)
    out = ml.mediaText
    if not out:
        raise Skip('mq')
    return out


def _norm_unknown(cssutils, text, depth):
    sheet = cssutils.parseString(text)
    if sheet.cssRules.length != 1:
        raise Skip('unknown')
    out = sheet.cssText.decode('utf-8')
    if depth > 0 and '\n' in out:
        # a block inside an unknown rule is indented relative to the level it stands on
        raise Skip('unknown-block-nested')
    return out


def _norm_sel(cssutils, nsdecl, text):
    sheet = cssutils.parseString(nsdecl + text + '{a:b}')
    rules = [r for r in sheet.cssRules if r.type == r.STYLE_RULE]
    if len(rules) != 1 or rules[0].selectorList.length != 1:
        raise Skip('selector')
    return rules[0].selectorList[0].selectorText


def _op(f, o):
    t = f(o['text'])
    return o if t == o['text'] else S.opaque(t)


def normalise(cssutils, ss):
    """the spelled sheet with every opaque part in the serializer's own form (raises Skip)"""
    nsdecl = ''
    for r in ss['namespaces']:
        if r[0] == 'namespace':
            pfx, href = r[3], r[4]
            nsdecl += '@namespace %s"%s";' % ((pfx[0] + ' ') if pfx else '', href[-1])
    val = lambda o: _op(lambda t: _norm_value(cssutils, t), o)
    mq = lambda o: _op(lambda t: _norm_mq(cssutils, t), o)
    sel = lambda o: _op(lambda t: _norm_sel(cssutils, nsdecl, t), o)

    def decl(d, margin=False):
        d = dict(d)
        d['value'] = val(d['value'])
        if margin:
            # MarginRule re-reads its declarations without white space (C02-margin-box-space-dropped): a value that
            # does not survive that (calc() with + / -) is not a well-formed case of the theorem
            sh = cssutils.parseString('@page{@top-left{%s:%s}}' % (d['name'], d['value']['text']))
            try:
                got = sh.cssRules[0].cssRules[0].style.getProperty(d['name']).propertyValue.cssText
            except Exception:
                got = None
            if got != ''.join(t[1] for t in S.strip(d['value']['toks'])):
                raise Skip('margin-value')
        return d

    def item(i, depth, margin=False):
        if i[0] == 'decl':
            return ('decl', decl(i[1], margin)) + tuple(i[2:])
        if i[0] == 'unknown':
            return ('unknown', _op(lambda t: _norm_unknown(cssutils, t, depth), i[1])) + tuple(i[2:])
        return i

    def block(b, depth, margin=False):
        return {'lead': b['lead'], 'items': [item(i, depth, margin) for i in b['items']],
                'last': decl(b['last'], margin) if b['last'] else None}

    def rule(r, depth):
        k = r[0]
        if k == 'style':
            s = r[1]
            # comments between a selector and `,` / `{` are items of the Selector object: their spacing is decided by the
            # selector serializer from the source white space (C16), not by the layout modelled here
            nc = lambda g: [x for x in g if x[0] != 'cm']
            s2 = {'first': sel(s['first']), 'post': nc(s['post']), 'more': [(nc(a), sel(c), nc(b)) for a, c, b in s['more']]}
            return ('style', s2, block(r[2], depth + 1)) + tuple(r[3:])
        if k == 'unknown':
            return ('unknown', _op(lambda t: _norm_unknown(cssutils, t, depth), r[1])) + tuple(r[2:])
        if k == 'media':
            return r[:3] + (mq(r[3]),) + r[4:7] + ([rule(x, depth + 1) for x in r[7]],) + tuple(r[8:])
        if k == 'fontface':
            return r[:3] + (block(r[3], depth + 1),) + tuple(r[4:])
        if k == 'page':
            b = r[5]
            items = []
            for it in b['items']:
                if it[0] == 'margin':
                    items.append(it[:4] + (block(it[4], depth + 2, True),) + tuple(it[5:]))
                else:
                    items.append(('item', item(it[1], depth + 1)))
            b2 = {'lead': b['lead'], 'items': items, 'last': decl(b['last']) if b['last'] else None}
            # comments behind the page selector are items of its sequence (spacing from the source, as for selectors)
            return r[:4] + ([x for x in r[4] if x[0] != 'cm'], b2) + tuple(r[6:])
        return r

    def pre(r):
        if r[0] == 'import' and r[5]:
            return r[:5] + ((mq(r[5][0]), r[5][1]),) + tuple(r[6:])
        if r[0] == 'unknown':
            return ('unknown', _op(lambda t: _norm_unknown(cssutils, t, 0), r[1])) + tuple(r[2:])
        return r

    def var(r):
        if r[0] == 'unknown':
            return ('unknown', _op(lambda t: _norm_unknown(cssutils, t, 0), r[1])) + tuple(r[2:])
        if r[0] != 'variables':
            return r
        blk = r[3]
        ds = [d for d, _ in blk['items']] + ([blk['last']] if blk['last'] else [])
        if len({d['name'] for d in ds}) != len(ds):
            # the DOM is a mapping: a name declared twice is written once (not modelled by canonVarBlock)
            raise Skip('variable-declared-twice')
        nc = lambda g: [x for x in g if x[0] != 'cm']

        def vd(d):
            # comments before the value / between the declarations are moved into the item sequence by the parser and
            # written on lines of their own: not modelled
            d = dict(d)
            d['value'] = val(d['value'])
            d['g1'], d['g2'] = nc(d['g1']), nc(d['g2'])
            return d
        blk2 = {'lead': nc(blk['lead']), 'items': [(vd(d), nc(g)) for d, g in blk['items']],
                'last': vd(blk['last']) if blk['last'] else None}
        return r[:3] + (blk2,) + tuple(r[4:])

    return {'charset': ss['charset'], 'lead': ss['lead'], 'imports': [pre(r) for r in ss['imports']],
            'namespaces': [pre(r) for r in ss['namespaces']], 'variables': [var(r) for r in ss.get('variables', ())],
            'rules': [rule(r, 0) for r in ss['rules']]}


def visible(ss):
    """no rule that serialises to nothing (keepEmptyRules=False): such rules are outside the compared DOM"""
    def block_items(b):
        return [i for i in b['items'] if i[0] != 'semi'] + ([b['last']] if b['last'] else [])

    def ok(r):
        k = r[0]
        if k == 'style' or k == 'fontface':
            return bool(block_items(r[2] if k == 'style' else r[3]))
        if k == 'media':
            return bool(r[7]) and all(ok(x) for x in r[7])
        if k == 'page':
            b = r[5]
            plain = [it for it in b['items'] if it[0] == 'item' and it[1][0] != 'semi'] + ([b['last']] if b['last'] else [])
            margins = [it for it in b['items'] if it[0] == 'margin']
            decls = lambda b: [i for i in b['items'] if i[0] == 'decl'] + ([b['last']] if b['last'] else [])
            return all(decls(m[4]) for m in margins) and bool(plain or margins)
        return True
    return all(ok(r) for r in ss['rules'])


def gen_cases(cssutils, rng, n, counts):
    cases = []
    for _ in range(n):
        ast = G.gen_sheet(rng)
        for level in (0, 1, 2, 3):
            seed = rng.getrandbits(32)
            ss = S.spell_sheet(ast, random.Random(seed), level, 0)
            try:
                ss = normalise(cssutils, ss)
            except Skip as e:
                counts['skip-' + str(e)] = counts.get('skip-' + str(e), 0) + 1
                continue
            except Exception as e:      # a part the sub-parser rejects: not a well-formed case
                counts['skip-rejected'] = counts.get('skip-rejected', 0) + 1
                continue
            if ss['charset'] and ss['charset'][1] != 'utf-8' and not S.text(ss).isascii():
                # a character the sheet encoding cannot encode is written as an escape (C08; C03-comment-unencodable)
                counts['skip-unencodable'] = counts.get('skip-unencodable', 0) + 1
                continue
            if not S.wellformed(ss):
                counts['skip-not-core'] = counts.get('skip-not-core', 0) + 1
                continue
            cases.append((level, seed, ss))
    return cases


def real_tokens(cssutils, text):
    sheet = cssutils.parseString(text)
    # as in the oracle of this check: with the default the serializer drops @variables and replaces var() (lossy by design)
    cssutils.ser.prefs.resolveVariables = False
    try:
        out = sheet.cssText.decode(sheet.encoding)
    finally:
        cssutils.ser.prefs.useDefaults()
    toks = S.tokenize(out)
    return out, ','.join('%s:%s' % (S.mtype(t[0]), enc(t[1])) for t in toks) or '-'


def run(ctx, cssutils, quick_n=120, thorough_n=2500):
    rng = ctx.sub_rng('c03-canon')
    counts = {}
    cases = gen_cases(cssutils, rng, ctx.n(quick_n, thorough_n), counts)
    lines = []
    for _, _, ss in cases:
        x = S.sx(ss)
        lines += ['canon ' + x, 'reparse ' + x, 'fix ' + x]
    out = ctx.driver(lines) if ctx.model_ok else None
    for idx, (level, seed, ss) in enumerate(cases):
        text = S.text(ss)
        ctx.case(key=('canon', text), nontrivial=True, kind='canon-l%d' % level,
                 sample={'text': text[:300]} if idx < 2 else None)
        written, real = real_tokens(cssutils, text)
        if out is None:
            continue
        model, rep, fix = out[3 * idx: 3 * idx + 3]
        inp = {'text': text, 'level': level, 'written': written}
        if model != real:
            ctx.disagree('serialise(spelled sheet) vs tokenizer(cssText)', inp, real[:600], model[:600])
        elif rep != 'eq':
            ctx.disagree('parse_serialise evaluated', inp, 'eq', rep[:400])
        elif fix != 'eq':
            ctx.disagree('serialise_fixpoint evaluated', inp, 'eq', fix[:400])
    for k, v in sorted(counts.items()):
        ctx.notes['canon-' + k] = v
    ctx.notes['canon-cases'] = len(cases)
