"""C02 — the parsed DOM is exactly what a well-formed source denotes, for every spelling of that source.

model:    lean/CssVerif/Model/Struct.lean (K2, by C04), Model/AtRules.lean (setters of the at-rules that are opaque in K2),
          Model/SheetSpec.lean (abstract sheet, spelled sheet, erase, render, DOM projection), Model/Normalize.lean
theorems: lean/CssVerif/Props/C02.lean (T2.2 parse_render, spelling_invariance, T2.1 locality, T2.3 comments_off, …)
tie:      (a) translator: MarginRule.margins -> Gen/C02Margins.lean
          (b) `corr_struct`: abstract sheets (c02_gen) x structure-level spellings (c02_struct): render(spelled sheet) in Lean
              = tokens of the real tokenizer on the text; projSheet(parseSheet(tokens)) = the abstract sheet; = the
              projection of the real DOM (opaque token lists are given to the real sub-parsers)
          (c) `corr_normalize`: helper.normalize on generated strings
oracle:   independent of the model (`oracle`): abstract sheets rendered canonically and in several random text spellings;
          (1) every spelling gives the DOM projection of the canonical rendering (metamorphic), (2) the projection agrees
          with what the AST says on its own (rule kinds in order, specificities, declaration names / component counts /
          priorities, import targets, namespace bindings, page selector and margin boxes, comments),
          (3) parseComments=False removes exactly the comments, validate=False changes nothing.
"""
import logging

from lib.framework import Check
from lib.pool import run_cases
from harness import c02_gen as G
from harness import c02_struct as S


import re as _re
_COMMENT = _re.compile(r'/\*.*?\*/', _re.S)


def norm_text(s):
    """text without comments, white space normalised (also around the punctuation where it is insignificant)"""
    s = ' '.join(_COMMENT.sub(' ', s).split())
    return _re.sub(r'\s*([(),:/])\s*', r'\1', s)


def proj_value(pv):
    out = []
    for item in pv:
        t = item.type
        try:
            v = norm_text(item.cssText)
        except Exception as e:          # noqa
            v = 'ERR %r' % (e,)
        out.append((t, v))
    return out


FUNCTION_LIKE = ('FUNCTION', 'COLOR_VALUE', 'CALC', 'VARIABLE')


def inner_comment(pv):
    """does a function of the value hold a comment (region of known finding C02-comment-in-function-validity)"""
    from cssutils.tokenize2 import Tokenizer
    for item in pv:
        if item.type in FUNCTION_LIKE:
            try:
                if any(t[0] == 'COMMENT' for t in Tokenizer().tokenize(item.cssText)):
                    return True
            except Exception:       # noqa
                return True
    return False


def mask_valid(p, everywhere=True):
    """projection without the `valid` flags"""
    if isinstance(p, list):
        return [mask_valid(x) for x in p]
    if isinstance(p, tuple):
        if len(p) == 3 and p[0] == 'valid':
            return ('valid', None, None)
        return tuple(mask_valid(x) for x in p)
    return p


def same(a, b, region=False):
    """equality of projections; the marker of a comment inside a function is not part of the DOM.
    region=True: `valid` may differ where one side has a comment inside a function (C02-comment-in-function-validity)"""
    if isinstance(a, tuple) and isinstance(b, tuple) and len(a) == 3 == len(b) and a[0] == 'valid' == b[0]:
        return a[1] == b[1] or (region and bool(a[2] or b[2]))
    if isinstance(a, (list, tuple)) and isinstance(b, (list, tuple)):
        return type(a) is type(b) and len(a) == len(b) and all(same(x, y, region) for x, y in zip(a, b))
    return a == b


def proj_decls(style, with_comments=True):
    import cssutils
    out = []
    for item in style.children():
        if isinstance(item, cssutils.css.Property):
            out.append(('decl', item.name, proj_value(item.propertyValue), item.priority,
                        ('valid', bool(item.valid), inner_comment(item.propertyValue))))
        elif isinstance(item, cssutils.css.CSSComment):
            if with_comments:
                out.append(('comment', item.cssText))
        else:
            out.append(('other', getattr(item, 'cssText', repr(item))))
    return out


COMBINATORS = ('descendant', 'child', 'adjacent-sibling', 'following-sibling')


def proj_selector(sel):
    """denotation of a selector: its simple selectors and combinators in order. White space and comments are not
    part of it: S / COMMENT items are dropped and a 'descendant' item next to another combinator (white space around
    a combinator) or at either end is dropped."""
    import cssutils
    items = []
    for it in sel.seq:
        if isinstance(it.value, cssutils.css.CSSComment) or it.type in ('COMMENT', 'S'):
            continue
        v = it.value
        if isinstance(v, tuple):
            v = tuple(v)
        items.append((it.type, v))
    out = []
    for k, (t, v) in enumerate(items):
        if t == 'descendant':
            prev_c = (not out) or out[-1][0] in COMBINATORS
            next_c = k + 1 >= len(items) or items[k + 1][0] in COMBINATORS
            if prev_c or next_c:
                continue
        out.append((t, v))
    return (tuple(out), tuple(sel.specificity))


def proj_rule(r, with_comments=True):
    import cssutils
    t = r.type
    if t == r.STYLE_RULE:
        return ('style', [proj_selector(s) for s in r.selectorList], proj_decls(r.style, with_comments))
    if t == r.MEDIA_RULE:
        return ('media', [norm_text(x) for x in r.media.mediaText.split(',')], r.name,
                [x for x in (proj_rule(c, with_comments) for c in r.cssRules) if x is not None])
    if t == r.IMPORT_RULE:
        return ('import', r.href, [norm_text(x) for x in r.media.mediaText.split(',')] if r.media.mediaText != 'all' else [], r.name)
    if t == r.NAMESPACE_RULE:
        return ('namespace', r.prefix, r.namespaceURI)
    if t == r.PAGE_RULE:
        return ('page', norm_text(r.selectorText), proj_decls(r.style, with_comments),
                [(m.margin, proj_decls(m.style, with_comments)) for m in r.cssRules])
    if t == r.FONT_FACE_RULE:
        return ('fontface', proj_decls(r.style, with_comments))
    if t == r.CHARSET_RULE:
        return ('charset', r.encoding)
    if t == r.COMMENT:
        return ('comment', r.cssText) if with_comments else None
    if t == r.UNKNOWN_RULE:
        return ('unknown', r.atkeyword, [(i.type, i.value if isinstance(i.value, str) else getattr(i.value, 'cssText', '?'))
                                         for i in r.seq if i.type not in ('S', 'COMMENT')])
    if t == r.VARIABLES_RULE:
        return ('variables', r.cssText)
    return ('other', t)


def project(sheet, with_comments=True):
    return [x for x in (proj_rule(r, with_comments) for r in sheet.cssRules) if x is not None]


_SIMPLE_ESC = _re.compile(r'\\([^0-9a-fA-F\n\r\f])')


def unescape_names(p):
    """projection with simple escapes (backslash + non-hex character) resolved — only used to recognise the region of
    known finding C02-simple-escapes-kept"""
    if isinstance(p, list):
        return [unescape_names(x) for x in p]
    if isinstance(p, tuple):
        return tuple(unescape_names(x) for x in p)
    if isinstance(p, str):
        return _SIMPLE_ESC.sub(r'\1', p)
    return p


def has_calc(decl):
    """a value with a calc() whose operator needs the white space around it (+ and -)"""
    return any(c[0] == 'calc' and c[2] in '+-' for c in decl[1])


def without_margin_calc(ast):
    """the abstract sheet without the margin-box declarations whose value contains calc() — only used to recognise
    the region of known finding C02-margin-box-space-dropped"""
    out = []
    for r in ast:
        if r[0] == 'page':
            out.append(r[:3] + ([(m, [d for d in ds if not has_calc(d)]) for m, ds in r[3]],))
        else:
            out.append(r)
    return out


def strip_comments(p):
    """remove comment entries from a projection (for comparing spellings that differ in comments)"""
    if isinstance(p, list):
        return [strip_comments(x) for x in p if not (isinstance(x, tuple) and x and x[0] == 'comment')]
    if isinstance(p, tuple):
        return tuple(strip_comments(x) for x in p)
    return p


def summary(p):
    """the part of a projection the AST predicts (see c02_gen.expect)"""
    out = []
    for r in p:
        k = r[0]
        if k == 'style':
            out.append(('style', len(r[1]),
                        [(d[1], len([c for c in d[2] if c[0] not in ('operator', 'S', 'CHAR', 'COMMENT') or False]), bool(d[3]))
                         for d in r[2] if d[0] == 'decl']))
        elif k == 'media':
            out.append(('media', len(r[1]), summary(r[3])))
        elif k == 'page':
            out.append(('page', r[1], [(d[1], bool(d[3])) for d in r[2] if d[0] == 'decl'],
                        [(m[0].lstrip('@'), [(d[1], bool(d[3])) for d in m[1] if d[0] == 'decl']) for m in r[3]]))
        elif k == 'fontface':
            out.append(('fontface', [(d[1], bool(d[3])) for d in r[1] if d[0] == 'decl']))
        elif k == 'import':
            out.append(('import', r[1], len(r[2])))
        elif k == 'namespace':
            out.append(('namespace', r[1], r[2]))
        elif k == 'charset':
            out.append(('charset', r[1]))
        elif k == 'unknown':
            out.append(('unknown', r[1]))
        elif k == 'comment':
            out.append(('comment', r[1][2:-2]))
    return out


def expected_summary(ast):
    out = []
    for e in G.expect(ast):
        if e[0] == 'style':
            out.append(('style', len(e[1]), [(n, k, imp) for n, k, imp in e[2]]))
        elif e[0] == 'media':
            out.append(('media', e[1], expected_summary_from(e[2])))
        elif e[0] == 'page':
            out.append(('page', ':' + e[1] if e[1] else '', e[2], [(m, ds) for m, ds in e[3]]))
        else:
            out.append(e)
    return out


def expected_summary_from(exp):
    out = []
    for e in exp:
        if e[0] == 'style':
            out.append(('style', len(e[1]), [(n, k, imp) for n, k, imp in e[2]]))
        elif e[0] == 'media':
            out.append(('media', e[1], expected_summary_from(e[2])))
        elif e[0] == 'page':
            out.append(('page', ':' + e[1] if e[1] else '', e[2], [(m, ds) for m, ds in e[3]]))
        else:
            out.append(e)
    return out


LEVELS = [5, 5, 3, 2, 4, 1]     # the first ones are used by the quick tier


def work(case):
    """worker: parse all renderings of one abstract sheet, return projections (or the exception)"""
    import cssutils
    cssutils.log.setLevel(logging.FATAL)
    res = []
    for text, comments, validate in case['texts']:
        try:
            p = cssutils.CSSParser(parseComments=comments, validate=validate, fetcher=lambda url: None)
            sh = p.parseString(text, href='http://h/base/main.css')
            res.append(('ok', project(sh)))
        except Exception as e:
            res.append(('exc', '%s: %s' % (type(e).__name__, e)))
    return res


def struct_work(case):
    """worker of the structure correspondence: the implementation side of one case (the real parse, the same with
    validation off for the level-3 spellings, and the model's DOM with its opaque parts given to the real
    sub-parsers)"""
    import json
    text, toks, struct, level = case
    real = real_struct(text)
    real_off = None
    if level == 3 and not isinstance(real, tuple):
        real_off = real_struct(text, validate=False)
    mp = None
    if struct is not None and struct.startswith('['):
        mp = model_dom(json.loads(struct), toks)
    return real, real_off, mp


class C02(Check):
    id = 'C02'
    props_module = 'CssVerif.Props.C02'
    driver_exe = 'drv_c02'
    sources = ('cssutils/css/cssstylesheet.py', 'cssutils/css/cssstylerule.py', 'cssutils/css/selector.py',
               'cssutils/css/cssstyledeclaration.py', 'cssutils/css/property.py', 'cssutils/css/value.py',
               'cssutils/css/cssmediarule.py', 'cssutils/css/cssimportrule.py', 'cssutils/css/cssnamespacerule.py',
               'cssutils/css/csspagerule.py', 'cssutils/css/marginrule.py', 'cssutils/css/cssfontfacerule.py',
               'cssutils/css/csscharsetrule.py', 'cssutils/css/cssunknownrule.py', 'cssutils/css/cssvariablesrule.py',
               'cssutils/css/cssvariablesdeclaration.py', 'cssutils/css/selectorlist.py',
               'cssutils/util.py', 'cssutils/helper.py', 'cssutils/tokenize2.py')
    rule = ('(1) abstract sheets of the documented grammar (c02_gen: style, @media nested and named, @import plain and named, '
            '@namespace, @variables (0-3 variables, c02_struct), @page with margin boxes, @font-face, @charset, unknown '
            'at-rules, comments; CSS3 selectors; values of every component kind incl. calc()) x structure-level spellings of '
            'Model/SheetSpec.lean (c02_struct: S/COMMENT gaps at every gap of every statement, case + simple escapes of '
            'at-keywords / property names / variable names / priority, quote style and url() form of strings, stand-alone '
            'and optional semicolons) at 5 levels x inner spellings of c02_gen, the level-3 ones parsed with validation off '
            'as well; (1b) declaration blocks alone x 2 spellings x comment parsing on / off (tokens given to '
            'CSSStyleDeclaration; CSSParser.parseStyle as oracle); (2) the same abstract '
            'sheets x canonical rendering + N random text spellings x parser options (metamorphic oracle); (3) generated '
            'strings for helper.normalize; (4) a corpus of past harness failures. non-trivial = distinct (abstract sheet, '
            'spelling) whose text differs from the canonical one')

    trusted_base = (
        'Model/Struct.lean (K2, by C04) + Model/AtRules.lean (setters of @import / @namespace / @font-face / @page / margin '
        'box / @variables on its fragment, @charset encoding, the name setters) + Model/ParseCfg.lean (the two parser '
        'options) + Model/SheetSpec.lean (`projSheet`, `render`, `erase`): hand-written, tied to the code by '
        'the correspondence of this run on well-formed sheets: render(spelled sheet) = tokens of the real tokenizer on the '
        'text; projSheet(parseSheet(tokens)) = the abstract sheet = the projection of the real DOM',
        'selectors, values and media query lists are opaque: every theorem holds for every oracle that accepts them as '
        'written; in the correspondence the opaque token lists the model shows are given to the REAL Selector / '
        'PropertyValue / MediaList, so a difference can only come from the structure level',
        'CSSVariablesDeclaration._setCssText is a ProdParser run that hands the token iterator to PropertyValue; it is '
        'modelled on the fragment {S|COMMENT}* [IDENT gap ":" gap value (";"|end) gap]* (Model/AtRules.lean varsLoop), '
        '`unmodelled` outside of it (stand-alone ";", missing ":", rejected value)',
        'MarginRule._setCssText is a ProdParser run; it is modelled on the fragment "@margin {S|COMMENT}* { tokens other '
        'than at-keywords / INVALID / EOF } }" (Model/AtRules.lean marginBody), `unmodelled` outside of it',
        'Model/Normalize.lean: hand model of cssutils.helper.normalize, differential testing over generated strings',
        'the text level (T2.5: tokenize(text of a spelling) = render) is not proved; it is checked on every generated case',
    )
    assumptions = ('str.lower() = ASCII lower-casing on the generated alphabets (non-ASCII characters used are caseless)',
                   'token lists have EOF only as last token and single-character CHAR tokens (tokenizer invariant, checked '
                   'by the driver on every request)',
                   '`@charset`: whether the encoding names a codec stays with the oracle (O.atOk charsetSym)',
                   'validate flag: Model/ParseCfg.lean lets it decide about the validation records only; premise checked on '
                   'the table Gen/C02Validate.lean regenerated from the AST of the package (theorems flag_reads_harmless, '
                   'flag_guards, validate_body_pure); cssutils.profile.validateWithProfile, called by Property.validate, is '
                   'not scanned (C13)')

    def translate(self, ctx):
        """`MarginRule.margins` (the at-keywords that open a margin box) -> Gen/C02Margins.lean"""
        import ast
        import hashlib
        import os
        src = open(os.path.join(ctx.repo, 'cssutils/css/marginrule.py'), encoding='utf-8').read()
        margins = None
        for node in ast.walk(ast.parse(src)):
            if isinstance(node, ast.ClassDef) and node.name == 'MarginRule':
                for st in node.body:
                    if isinstance(st, ast.Assign) and any(isinstance(t, ast.Name) and t.id == 'margins' for t in st.targets):
                        margins = ast.literal_eval(st.value)
        if not isinstance(margins, list) or not all(isinstance(m, str) for m in margins):
            raise ValueError('MarginRule.margins: not a list of string literals')
        h = hashlib.sha256(src.encode()).hexdigest()
        rows = ['  [%s]%s  -- %s' % (', '.join('0x%X' % ord(c) for c in m), ',' if i < len(margins) - 1 else '', m)
                for i, m in enumerate(margins)]
        lines = ['-- GENERATED by tools/harness/c02.py from cssutils/css/marginrule.py (sha256 %s)' % h,
                 '-- `MarginRule.margins`: the at-keywords that open a margin box inside @page',
                 'namespace CssVerif.Gen.C02',
                 'def margins : List (List Nat) := ['] + rows + [']', 'end CssVerif.Gen.C02', '']
        from harness import c02_validate
        return {'CssVerif/Gen/C02Margins.lean': '\n'.join(lines),
                # every read of the `validating` flag in the package, with what it guards (Props: flag_reads_harmless)
                'CssVerif/Gen/C02Validate.lean': c02_validate.gen_lean(ctx.repo)}

    def run(self, ctx):
        ctx.phase(self.run_corpus, ctx)
        ctx.phase(self.corr_normalize, ctx)
        ctx.phase(self.corr_struct, ctx)
        ctx.phase(self.corr_block, ctx)
        ctx.phase(self.oracle, ctx)

    def search(self, ctx):
        """an obligation or the correspondence broke and the quick run found no failing input: the two phases that can
        show a violation of the implementation, at thorough size"""
        ctx.tier_counts = 'thorough'
        ctx.search_mode = True
        ctx.phase(self.corr_struct, ctx)
        if not ctx.violations:
            ctx.phase(self.oracle, ctx)

    # -- corpus: texts kept from past failures of the harness / model --------------------------------------
    def run_corpus(self, ctx):
        import json
        import os
        from lib.framework import enc
        path = os.path.join(ctx.verif, 'tools', 'corpus', 'C02', 'sheets.json')
        if not os.path.exists(path):
            return
        texts = [e['text'] for e in json.load(open(path))]
        toklists = [S.tokenize(t) for t in texts]
        lines = ['struct ' + (','.join('%s:%s' % (t[0], enc(t[1])) for t in toks) or '-') for toks in toklists]
        out = ctx.driver(lines) if ctx.model_ok else [None] * len(lines)
        for text, toks, o in zip(texts, toklists, out):
            ctx.case(key=('corpus', text), nontrivial=True, kind='corpus', sample={'text': text})
            if o is None:
                continue
            real = real_struct(text)
            if not o.startswith('['):
                ctx.disagree('projSheet(parseSheet tokens)/corpus', {'text': text}, real, o[:300])
                continue
            mp = model_dom(json.loads(o), toks)
            if mp != real and drop_rejected_margin_decls(mp) != real:
                ctx.disagree('projSheet(parseSheet tokens)/corpus', {'text': text}, first_diff(real, mp), None)

    # -- structure level: spelled sheets --------------------------------------------------------------
    def corr_struct(self, ctx):
        """abstract sheet x structure-level spelling: (1) the tokens Lean's `render` gives = the tokens of the real
        tokenizer on the text, (2) model projection of the parse of those tokens = the abstract sheet (the theorem,
        replayed on real tokens), (3) = the projection of the real DOM (tie of the kernel and of `projSheet`)"""
        import random
        rng = ctx.sub_rng('c02-struct')
        cases = []
        for i in range(ctx.n(400, 8000)):
            ast = G.gen_sheet(rng)
            for level, inner in ((0, 0), (1, 1), (2, 2), (3, 3), (3, 4))[:ctx.n(5, 5)]:
                seed = rng.getrandbits(32)
                ss = S.spell_sheet(ast, random.Random(seed), level, inner)
                if not S.wellformed(ss):
                    ctx.count('struct-not-core')
                    continue
                cases.append((ast, level, seed, ss))
        self.struct_cases(ctx, cases)

    def struct_cases(self, ctx, cases):
        from lib.framework import enc
        import json
        texts = [S.text(ss) for _, _, _, ss in cases]
        toklists = [S.tokenize(t) for t in texts]
        lines = []
        for (_, _, _, ss), toks in zip(cases, toklists):
            x = S.sx(ss)
            lines.append('spelled ' + x)
            lines.append('erase ' + x)
            lines.append('struct ' + (','.join('%s:%s' % (t[0], enc(t[1])) for t in toks) or '-'))
        out = ctx.driver(lines) if ctx.model_ok else [None] * len(lines)
        # the implementation side runs in the process pool
        impl = run_cases(struct_work, [(text, toks, out[3 * idx + 2], level)
                                       for idx, ((_, level, _, _), text, toks) in enumerate(zip(cases, texts, toklists))],
                         timeout=90.0)
        for idx, ((ast, level, seed, ss), text, toks) in enumerate(zip(cases, texts, toklists)):
            rendered, erased, struct = out[3 * idx: 3 * idx + 3]
            ctx.case(key=('struct', text), nontrivial=level > 0, kind='struct-l%d' % level,
                     sample={'text': text[:300]} if idx < 3 else None)
            if any(v[0] == 'variables' for v in ss.get('variables', ())):
                ctx.count('struct-with-@variables')
            if any(i[0] == 'import' and i[6] for i in ss['imports']):
                ctx.count('struct-with-named-@import')
            if any(r[0] == 'media' and r[5] for r in ss['rules']):
                ctx.count('struct-with-named-@media')
            want = S.erase(ss)
            r = impl[idx][1]
            if r[0] == 'hang':
                ctx.violate('parsing a well-formed sheet returns a DOM', {'text': text}, {'hang_seconds': r[1]})
                continue
            if r[0] != 'ok':
                raise RuntimeError('struct worker: %r on %r' % (r, text[:200]))
            real, real_off, mp = r[1]
            if isinstance(real, tuple):
                ctx.violate('parsing a well-formed sheet returns a DOM', {'text': text}, {'exception': real[1]})
                continue
            if rendered is None:
                continue
            inp = {'text': text, 'level': level}
            real_toks = ','.join('%s:%s' % (S.mtype(t[0]), enc(t[1])) for t in toks) or '-'
            if rendered != real_toks:
                ctx.disagree('render(spelled sheet) vs tokenizer(text)', inp, real_toks[:400], rendered[:400])
                continue
            if not erased.startswith('[') or json.loads(erased) != want:
                ctx.disagree('erase(spelled sheet)', inp, want, erased[:400])
                continue
            if not struct.startswith('['):
                ctx.disagree('projSheet(parseSheet tokens)', inp, want, struct[:400])
                continue
            model = json.loads(struct)
            got = model_abstract(model, toks)
            if got != want:
                # the theorem says these are equal; on real tokens they are not: the text is not what the
                # abstract sheet says, or the model/driver is wrong
                ctx.disagree('projSheet(parseSheet(tokenize text)) vs abstract sheet', inp, first_diff(got, want), None)
                continue
            if level == 3:
                # the tie of `validate_irrelevant`: the same text parsed with validation off gives the same DOM
                ctx.count('struct-validate-off')
                if real_off != real:
                    ctx.violate('disabling validation changes nothing in the DOM', {'text': text},
                                {'first_difference': first_diff(real_off, real)})
                    continue
            if mp != real and drop_rejected_margin_decls(mp) == real:
                ctx.violate('the DOM has the declarations of every margin box', {'text': text},
                            {'first_difference': first_diff(real, mp)}, known='C02-margin-box-space-dropped')
            elif mp != real:
                # model and implementation differ on a well-formed sheet whose model parse IS the abstract sheet:
                # the implementation does not build what the source denotes
                ctx.violate('the DOM lists, in source order, exactly the rules that were written, each with the '
                            'selectors and declarations (name, value, priority) of the source',
                            {'text': text, 'canonical': S.text(S.spell_sheet(ast, __import__('random').Random(0), 0, 0))},
                            {'first_difference': first_diff(real, mp)})

    # -- declaration level: a block alone, comment parsing on and off ---------------------------------------
    def corr_block(self, ctx):
        """the tie of comments_off_block / comments_off_decl: a spelled declaration block (c02_struct.spell_block) is
        tokenized with doComments on and off; the model's `projItems (parseDecls tokens)` must be the block's abstract
        items (without the comment items when off) and must equal what the real CSSStyleDeclaration builds from the
        same tokens.  Oracle: the public entry point CSSParser(parseComments=False).parseStyle must give the same."""
        import json
        import random
        from lib.framework import enc
        from cssutils.tokenize2 import Tokenizer
        rng = ctx.sub_rng('c02-block')
        cases = []
        for i in range(ctx.n(150, 4000)):
            decls = G.gen_decls(rng, 0, 4)
            for level, inner in ((2, 2), (3, 4)):
                sp = S.Sp(random.Random(rng.getrandbits(32)), level)
                isp = G.Spelling(random.Random(rng.getrandbits(32)), inner)
                b = S.spell_block(sp, isp, decls)
                ds = [x[1] for x in b['items'] if x[0] == 'decl'] + ([b['last']] if b['last'] else [])
                if not all(S.is_core(d['value']) for d in ds):
                    ctx.count('block-not-core')
                    continue
                cases.append((level, b))
        lines, toks_all = [], []
        for level, b in cases:
            text = S.t_block(b)
            for comments in (True, False):
                toks = list(Tokenizer(doComments=comments).tokenize(text))
                toks_all.append((text, comments, toks))
                lines.append('block ' + (','.join('%s:%s' % (S.mtype(t[0]), enc(t[1])) for t in toks) or '-'))
        out = ctx.driver(lines) if ctx.model_ok else [None] * len(lines)
        c = _cu()
        for idx, ((level, b), ) in enumerate(zip(cases)):
            want_on = S.e_block(b)
            want_off = [dict(i, toks=[t for t in i['toks'] if t[0] != 'COMMENT']) if i['k'] == 'unknown' else i
                        for i in want_on if i['k'] != 'comment']
            for j, want in ((0, want_on), (1, want_off)):
                text, comments, toks = toks_all[2 * idx + j]
                o = out[2 * idx + j]
                ctx.case(key=('block', text, comments), nontrivial=True, kind='block-comments-%s' % ('on' if comments else 'off'),
                         sample={'text': text[:200]} if idx < 2 else None)
                if o is None:
                    continue
                inp = {'block': text, 'parseComments': comments}
                if not o.startswith('['):
                    ctx.disagree('projItems(parseDecls tokens)', inp, want, o[:300])
                    continue
                model = json.loads(o)
                got = model_abstract([{'k': 'fontface', 'items': model}], toks)[0]['items']
                if got != want:
                    ctx.disagree('projItems(parseDecls(tokenize block)) vs abstract items', inp, first_diff(got, want), None)
                    continue
                mp = model_dom([{'k': 'fontface', 'items': model}], toks)[0][1]
                st = c.css.CSSStyleDeclaration()
                st.cssText = iter(toks)
                real = _real_items(st)
                if mp != real:
                    ctx.violate('a declaration block lists exactly the declarations that were written (name, value, '
                                'priority)%s' % ('' if comments else ', without the comments when comment parsing is off'),
                                inp, {'first_difference': first_diff(real, mp)})
                    continue
                if not comments:
                    # the public entry point with the option
                    pst = c.CSSParser(parseComments=False).parseStyle(text)
                    if _real_items(pst) != real:
                        ctx.violate('disabling comment parsing removes exactly the comments (CSSParser.parseStyle)', inp,
                                    {'first_difference': first_diff(_real_items(pst), real)},
                                    known=None)      # (C02-parsestyle-keeps-comments: fixed by 7eb2d36)

    def corr_normalize(self, ctx):
        from cssutils import helper
        from lib.framework import enc
        rng = ctx.sub_rng('normalize')
        alpha = ['\\', '\\', 'a', 'f', 'g', 'Z', 'A', 'F', 'G', '0', '9', '-', '_', ' ', '\n', '(', 'x', 'Q', '€', '中', '"', ':']
        texts = ['', '\\', 'c\\olor', '\\color', 'C\\4f lor', 'a\\', '\\\\', '\\\\a', '\\\\\\g']
        for _ in range(ctx.n(4000, 100000)):
            texts.append(''.join(rng.choice(alpha) for _ in range(rng.randint(0, 9))))
        out = ctx.driver(['normalize %s' % enc(t) for t in texts]) if ctx.model_ok else [None] * len(texts)
        for t, m in zip(texts, out):
            got = enc(helper.normalize(t))
            ctx.case(key=('normalize', t), nontrivial=('\\' in t or t.lower() != t), kind='normalize',
                     sample={'normalize': t, 'impl': helper.normalize(t)})
            if m is not None and m != got:
                ctx.disagree('helper.normalize', {'text': t}, got, m)

    def oracle(self, ctx):
        rng = ctx.sub_rng('c02')
        n = ctx.n(700, 20000)
        nsp = ctx.n(4, 6)
        cases = []
        import random
        for i in range(n):
            ast = G.gen_sheet(rng)
            canon = G.render(ast, G.Spelling(None))
            texts = [(canon, True, True)]
            seeds = []
            for j in range(nsp):
                s = rng.getrandbits(32)
                seeds.append(s)
                lvl = LEVELS[j % 6]
                texts.append((G.render(ast, G.Spelling(random.Random(s), lvl)), True, True))
            kinds = ['spelling-l%d' % LEVELS[j % 6] for j in range(nsp)]
            twins = [None] * len(texts)
            texts.append((canon, False, True))      # comments off
            kinds.append('comments-off'); twins.append(0)
            texts.append((canon, True, False))      # validation off
            kinds.append('validate-off'); twins.append(0)
            for j in (1, 2):                        # spellings (comments at every gap, also inside values) without comments
                texts.append((texts[j][0], False, True))
                kinds.append('comments-off-l%d' % LEVELS[(j - 1) % 6]); twins.append(j)
            cases.append({'ast': ast, 'texts': texts, 'seeds': seeds, 'kinds': kinds, 'twins': twins})
        res = run_cases(work, cases, timeout=60.0)
        for case, r in res:
            ast = case['ast']
            canon_text = case['texts'][0][0]
            if r[0] != 'ok':
                ctx.violate('parsing a well-formed sheet returns a DOM', {'ast': ast, 'text': canon_text}, {'worker': r})
                continue
            outs = r[1]
            base = outs[0]
            if base[0] != 'ok':
                ctx.violate('parsing a well-formed sheet returns a DOM', {'text': canon_text}, {'exception': base[1]})
                continue
            # (2) what the AST says
            got, want = summary(base[1]), expected_summary(ast)
            ctx.case(key=('canon', canon_text), nontrivial=True, kind='canonical',
                     sample={'canonical': canon_text[:300]})
            if got != want and got == expected_summary(without_margin_calc(ast)):
                ctx.violate('the DOM has the declarations of every margin box', {'text': canon_text},
                            {'dom_summary': first_diff(got, want)}, known='C02-margin-box-space-dropped')
            elif got != want:
                ctx.violate('the DOM lists, in source order, exactly the rules that were written (kinds, specificities, '
                            'declaration names / component counts / priorities, import targets, namespace bindings, page '
                            'selectors and margin boxes, comments)', {'text': canon_text, 'ast': ast},
                            {'dom_summary': first_diff(got, want)})
            # (1) every spelling gives the same DOM
            for (text, comments, validate), o, j in zip(case['texts'][1:], outs[1:], range(len(outs) - 1)):
                kind = case['kinds'][j]
                ctx.case(key=(kind, text, comments, validate), nontrivial=(text != canon_text or not comments or not validate), kind=kind,
                         sample={'spelling': text[:300]} if j < 2 else None)
                if o[0] != 'ok':
                    ctx.violate('parsing a well-formed sheet returns a DOM', {'text': text, 'comments': comments, 'validate': validate},
                                {'exception': o[1]})
                    continue
                a, b = strip_comments(base[1]), strip_comments(o[1])
                if not validate:
                    # `valid` is the annotation validation makes: not part of what "disabling validation" may not change
                    a, b = mask_valid(a), mask_valid(b)
                if same(a, b):
                    pass
                elif same(unescape_names(a), unescape_names(b)):
                    ctx.violate('same DOM under CSS escapes of ordinary name characters', {'text': text, 'canonical': canon_text},
                                {'first_difference': first_diff(b, a)}, known='C02-simple-escapes-kept')
                elif same(unescape_names(a), unescape_names(b), region=True):
                    ctx.violate('same validity for every way of writing a value', {'text': text, 'canonical': canon_text},
                                {'first_difference': first_diff(b, a)}, known='C02-comment-in-function-validity')
                else:
                    clause = ('the result is the same for every way of writing the sheet (white space, comments, case of '
                              'case-insensitive parts, quote style, escapes of name characters)')
                    if not validate:
                        clause = 'disabling validation changes nothing in the DOM'
                    if not comments:
                        clause = 'disabling comment parsing removes exactly the comments'
                    ctx.violate(clause, {'text': text, 'canonical': canon_text, 'comments': comments, 'validate': validate},
                                {'first_difference': first_diff(b, a)})
                twin = case['twins'][j + 1]
                if not comments and twin is not None and outs[twin][0] == 'ok':
                    # the same text with comment parsing on: exactly its comments must be gone
                    want_off = strip_comments(outs[twin][1])
                    if same(o[1], want_off):
                        pass
                    elif not same(o[1], want_off, region=True):
                        ctx.violate('disabling comment parsing removes exactly the comments', {'text': text},
                                    {'first_difference': first_diff(o[1], want_off)})
                    else:
                        ctx.violate('same validity with and without comment parsing', {'text': text},
                                    {'first_difference': first_diff(o[1], want_off)}, known='C02-comment-in-function-validity')

    def known(self, ctx, finding):
        w = finding['witness']['data']
        if finding['id'] == 'C02-parsestyle-keeps-comments':
            c = _cu()
            kept = c.CSSParser(parseComments=False).parseStyle(w['style'])
            sheet = c.CSSParser(parseComments=False).parseString('a{%s}' % w['style'])
            return any(i[0] == 'comment' for i in _real_items(kept)) and \
                not any(i[0] == 'comment' for i in _real_items(sheet.cssRules[0].style))
        if finding['id'] == 'C02-margin-box-space-dropped':
            a = work({'texts': [(w['text'], True, True), (w['same_declaration_in_page_block'], True, True)]})
            if a[0][0] != 'ok' or a[1][0] != 'ok':
                return True
            margin, plain = a[0][1][0], a[1][1][0]
            # the declaration survives in the page block itself but not in the margin box
            return len(plain[2]) == 1 and margin[3] and len(margin[3][0][1]) == 0
        a = work({'texts': [(w['canonical'], True, True), (w['text'], w.get('comments', True), True)]})
        return a[0][0] == 'ok' and a[1][0] == 'ok' and not same(strip_comments(a[0][1]), strip_comments(a[1][1]))

    def replay(self, ctx, data):
        import cssutils
        cssutils.log.setLevel(logging.FATAL)
        w = data.get('witness') or {}
        if 'canonical' in w:
            a = work({'texts': [(w['canonical'], True, True), (w['text'], w.get('comments', True), w.get('validate', True))]})
            if a[0][0] != 'ok' or a[1][0] != 'ok' or not same(strip_comments(a[0][1]), strip_comments(a[1][1])):
                ctx.violate(data.get('clause'), w, {'projections': a})
        else:
            self.run(ctx)


def _cu():
    import cssutils
    cssutils.log.setLevel(logging.FATAL)
    cssutils.log.raiseExceptions = False
    return cssutils


def _sel_items(sel):
    def val(v):
        if isinstance(v, str):
            return v
        if isinstance(v, tuple):
            return '|'.join(map(str, v))
        return getattr(v, 'cssText', repr(type(v)))
    return [[i.type, val(i.value)] for i in sel.seq]


def _sel_proj(sel):
    """comment- and white-space-insensitive view of a Selector (items + specificity)"""
    items, spec = proj_selector(sel)
    return [[list(x) if isinstance(x, tuple) else x for x in it] for it in items] + [list(spec)]


def _real_items(style):
    css = _cu().css
    out = []
    for item in style.seq:
        v = item.value
        if isinstance(v, css.Property):
            out.append(['decl', v.name, norm_text(v.propertyValue.cssText), v.priority])
        elif isinstance(v, css.CSSComment):
            out.append(['comment', v.cssText[2:-2]])
        elif isinstance(v, css.CSSUnknownRule):
            out.append(['unknown', v.cssText])
        else:
            out.append(['other', repr(type(v))])
    return out


def _page_sel(r):
    return norm_text(r.selectorText)


def _real_rules(rules):
    out = []
    for r in rules:
        t = r.type
        if t == r.STYLE_RULE:
            out.append(['style', [_sel_proj(s) for s in r.selectorList], _real_items(r.style)])
        elif t == r.COMMENT:
            out.append(['comment', r.cssText[2:-2]])
        elif t == r.UNKNOWN_RULE:
            out.append(['unknown', r.cssText])
        elif t == r.MEDIA_RULE:
            out.append(['media', norm_text(r.media.mediaText), r.name, _real_rules(r.cssRules)])
        elif t == r.FONT_FACE_RULE:
            out.append(['fontface', _real_items(r.style)])
        elif t == r.PAGE_RULE:
            out.append(['page', _page_sel(r), _real_items(r.style),
                        [[m.margin, _real_items(m.style)] for m in r.cssRules]])
        elif t == r.IMPORT_RULE:
            out.append(['import', r.href, norm_text(r.media.mediaText), r.name])
        elif t == r.NAMESPACE_RULE:
            out.append(['namespace', r.prefix, r.namespaceURI])
        elif t == r.CHARSET_RULE:
            out.append(['charset', r.encoding])
        elif t == r.VARIABLES_RULE:
            # the mapping the DOM shows (public accessors), in declaration order: key -> value
            vs = r.variables
            out.append(['variables', [[k, norm_text(vs.getVariableValue(k))] for k in vs.keys()]])
        else:
            out.append(['other', t])
    return out


def real_struct(text, validate=True):
    """structure-level projection of parseString(text), or ('RAISE', message)"""
    from lib.framework import time_limit, TimeLimit
    c = _cu()
    try:
        with time_limit(30):
            sheet = c.CSSParser(fetcher=lambda url: None, validate=validate).parseString(text)
    except TimeLimit:
        raise
    except Exception as e:
        return ('RAISE', '%s: %s' % (type(e).__name__, e))
    return _real_rules(sheet.cssRules)


def drop_rejected_margin_decls(mp):
    """the model's DOM without the margin-box declarations whose white-space-free value the real PropertyValue
    rejects (value None) — the region of known finding C02-margin-box-space-dropped"""
    out = []
    for r in mp:
        if r[0] == 'page':
            out.append(r[:3] + [[[m, [d for d in ds if not (d[0] == 'decl' and d[2] is None)]] for m, ds in r[3]]])
        elif r[0] == 'media':
            out.append(r[:3] + [drop_rejected_margin_decls(r[3])])
        else:
            out.append(r)
    return out


def model_abstract(model, toks):
    """driver reply of `struct` with token positions replaced by [TYPE, hex value]"""
    from lib.framework import enc

    def tl(ps):
        return [[S.mtype(toks[p][0]), enc(toks[p][1])] for p in ps]

    def item(i):
        if i['k'] == 'decl':
            return {'k': 'decl', 'name': i['name'], 'value': tl(i['value']), 'prio': i['prio']}
        if i['k'] == 'unknown':
            return {'k': 'unknown', 'toks': tl(i['toks'])}
        return i

    def rule(r):
        k = r['k']
        if k == 'style':
            return {'k': 'style', 'sels': [tl(g) for g in r['sels']], 'items': [item(i) for i in r['items']]}
        if k == 'unknown':
            return {'k': 'unknown', 'toks': tl(r['toks'])}
        if k == 'media':
            return {'k': 'media', 'mq': tl(r['mq']), 'name': r['name'], 'rules': [rule(x) for x in r['rules']]}
        if k == 'fontface':
            return {'k': 'fontface', 'items': [item(i) for i in r['items']]}
        if k == 'page':
            return {'k': 'page', 'name': r['name'], 'pseudo': r['pseudo'], 'items': [item(i) for i in r['items']],
                    'margins': [{'name': m['name'], 'items': [item(i) for i in m['items']]} for m in r['margins']]}
        if k == 'import':
            return {'k': 'import', 'href': r['href'], 'mq': tl(r['mq']) if r['mq'] is not None else None, 'name': r['name']}
        if k == 'variables':
            return {'k': 'variables', 'vars': [{'name': v['name'], 'value': tl(v['value'])} for v in r['vars']]}
        return r

    return [rule(r) for r in model]


def model_dom(model, toks, ns=None):
    """the model's projection in the shape of `real_struct`: the opaque token lists the model shows are given to
    the REAL sub-parsers (Selector, PropertyValue, MediaList, CSSUnknownRule), so a difference can only come from
    the structure level"""
    from lib.framework import dec
    c = _cu()
    css = c.css

    def tl(ps):
        # the comment-free lists of the projection can have two S tokens in a row, which the tokenizer never
        # produces and the sub-parsers are not written for: merged here
        out = []
        for p in ps:
            if toks[p][0] == 'S' and out and out[-1][0] == 'S':
                continue
            out.append(toks[p])
        return out

    def optd(v):
        return dec(v) if v is not None else None

    def items(its):
        out = []
        for i in its:
            if i['k'] == 'decl':
                pv = css.PropertyValue()
                pv.cssText = tl(i['value'])
                out.append(['decl', dec(i['name']), norm_text(pv.cssText) if pv.wellformed else None,
                            dec(i['prio']) if i['prio'] is not None else ''])
            elif i['k'] == 'comment':
                out.append(['comment', dec(i['body'])])
            elif i['k'] == 'unknown':
                out.append(['unknown', css.CSSUnknownRule(cssText=tl(i['toks'])).cssText])
        return out

    def media(ps):
        ml = c.stylesheets.MediaList()
        ml.mediaText = tl(ps)
        return norm_text(ml.mediaText) if ml.wellformed else None

    if ns is None:
        ns = {}
        for r in model:
            if r['k'] == 'namespace':
                ns[dec(r['pfx'])] = dec(r['uri'])

    def rules(rs):
        out = []
        for r in rs:
            k = r['k']
            if k == 'style':
                sels = []
                for g in r['sels']:
                    sel = css.Selector(selectorText=(tl(g), ns))
                    sels.append(_sel_proj(sel) if sel.wellformed else None)
                out.append(['style', sels, items(r['items'])])
            elif k == 'comment':
                out.append(['comment', dec(r['body'])])
            elif k == 'unknown':
                out.append(['unknown', css.CSSUnknownRule(cssText=tl(r['toks'])).cssText])
            elif k == 'media':
                out.append(['media', media(r['mq']) if r['mq'] else 'all', optd(r['name']), rules(r['rules'])])
            elif k == 'fontface':
                out.append(['fontface', items(r['items'])])
            elif k == 'page':
                sel = (optd(r['name']) or '') + ((':' + dec(r['pseudo'])) if r['pseudo'] is not None else '')
                out.append(['page', sel, items(r['items']), [[dec(m['name']), items(m['items'])] for m in r['margins']]])
            elif k == 'import':
                out.append(['import', dec(r['href']), media(r['mq']) if r['mq'] is not None else 'all', optd(r['name'])])
            elif k == 'namespace':
                out.append(['namespace', dec(r['pfx']), dec(r['uri'])])
            elif k == 'charset':
                out.append(['charset', dec(r['enc'])])
            elif k == 'variables':
                vs = []
                for v in r['vars']:
                    pv = css.PropertyValue()
                    pv.cssText = tl(v['value'])
                    vs.append([dec(v['name']), norm_text(pv.cssText) if pv.wellformed else None])
                out.append(['variables', vs])
            else:
                out.append(['other', r.get('kind')])
        return out

    return rules(model)


def first_diff(a, b, path=''):
    """human-sized description of the first difference between two nested structures"""
    if type(a) != type(b):
        return {'at': path, 'got': repr(a)[:300], 'want': repr(b)[:300]}
    if isinstance(a, (list, tuple)):
        for i, (x, y) in enumerate(zip(a, b)):
            if x != y:
                return first_diff(x, y, '%s[%d]' % (path, i))
        if len(a) != len(b):
            return {'at': path, 'got_len': len(a), 'want_len': len(b), 'got': repr(a)[:300], 'want': repr(b)[:300]}
        return None
    if a != b:
        return {'at': path, 'got': repr(a)[:300], 'want': repr(b)[:300]}
    return None


CHECK = C02()
