"""C17: generators — query ASTs over the repo's own vocabulary, rendered with independent spelling choices;
a malformed stream; boundary texts; edit histories."""
import ast
import json
import os

from lib import framework as fw


def _media_types():
    src = open(os.path.join(fw.REPO, 'cssutils/stylesheets/mediaquery.py'), encoding='utf-8').read()
    for n in ast.walk(ast.parse(src)):
        if isinstance(n, ast.Assign) and getattr(n.targets[0], 'id', None) == 'MEDIA_TYPES':
            return [e.value for e in n.value.elts]
    raise RuntimeError('MEDIA_TYPES not found')


MEDIA_TYPES = _media_types()
FEATURES = ['min-width', 'max-width', 'width', 'min-height', 'max-device-width', 'color', 'min-color', 'max-color',
            'orientation', 'monochrome', 'min-resolution', 'grid', 'scan', 'aspect-ratio', 'x', 'and', 'not', 'tv']
# values of the documented set: lengths, numbers, idents, colours (and strings / percentages the grammar also takes)
VALUES_PLAIN = ['100px', '25cm', '2', '1', '300dpi', '50%', 'landscape', 'portrait', 'red', 'progressive', '#fff',
                '#abc', '#a1b2c3', '1.5em', '40em', '"a"']
VALUES_ODD = ['-0.50PX', '+2cm', '.5', '0', '0px', '00.0em', '10E3px', '1e3', 'RED', '#AABBCC', '#FFF', "'b c'",
              'U+1-2', '0.0', '+0', '-0', '1.0', '100.50%', 'Landscape', '1PX']
VALUES_FUNC = ['rgb(1,2,3)', 'rgba(1, 2, 3, 0.5)', 'hsl(1,2%,3%)', 'RGB(10%,20%,30%)']
VALUES_BAD = ['16/9', 'url(x)', '#ffff', 'f(1)', 'calc(1+2)', '-', '1 2', 'rgb(1,2)', 'rgb(', '#ggg', '!', '(', '']
COMMENTS = ['/*c*/', '/**/', '/* x, y */', '/*(*/', '/*and*/']


class History:
    """start text (the media list of a new object or of a rule) + edit operations"""

    def __init__(self, context, start, ops, raising=False, kind='gen', asts=None):
        self.context = context          # 'alone' | 'media' | 'import'
        self.start = start
        self.ops = list(ops)
        self.raising = raising
        self.kind = kind
        self.asts = asts                # the query ASTs the start text was rendered from (None: not from ASTs)

    def nontrivial(self):
        return len(self.start.split()) >= 1 and (len(self.start) > 3 or bool(self.ops))


# -- ASTs -------------------------------------------------------------------------------------------
class Q:
    """[prefix] type (and expr)*  |  expr (and expr)*"""

    def __init__(self, prefix, mtype, exprs):
        self.prefix, self.mtype, self.exprs = prefix, mtype, exprs

    def simple(self):
        return self.prefix is None and self.mtype is not None and not self.exprs


def spell(rng, word, escapes=True):
    """case and simple-escape variation of a keyword / media type"""
    r = rng.random()
    if r < 0.6:
        return word
    if r < 0.75:
        return word.upper()
    if r < 0.88:
        return ''.join(c.upper() if rng.random() < 0.5 else c for c in word)
    if escapes:
        # a backslash before a letter that is not a hex digit (and not a line break) is a simple escape
        idx = [i for i, c in enumerate(word) if c in 'ghijklmnopqrstuvwxyz']
        if idx:
            i = rng.choice(idx)
            return word[:i] + '\\' + word[i:]
    return word


def gen_q(rng, simple_bias=0.55, values=None):
    r = rng.random()
    if r < simple_bias:
        return Q(None, rng.choice(MEDIA_TYPES if rng.random() < 0.8 else ['all', 'tv', 'print']), [])
    nex = rng.choice([0, 1, 1, 1, 2, 2, 3])
    exprs = []
    for _ in range(nex):
        f = rng.choice(FEATURES)
        v = None
        if rng.random() < 0.7:
            pool = values or (VALUES_PLAIN if rng.random() < 0.7 else VALUES_ODD)
            v = rng.choice(pool)
        exprs.append((f, v))
    if rng.random() < 0.25 and exprs:
        return Q(None, None, exprs)
    prefix = rng.choice([None, None, 'only', 'not'])
    q = Q(prefix, rng.choice(MEDIA_TYPES), exprs)
    return q


def gap(rng, need, p_comment=0.12):
    """separator between two tokens: white space and comments; `need`: something must separate them"""
    out = ''
    r = rng.random()
    if r < p_comment:
        out = rng.choice(['', ' ']) + rng.choice(COMMENTS) + rng.choice(['', ' '])
    elif r < 0.75 or need:
        out = rng.choice([' ', ' ', ' ', '  ', '\t', '\n', ' \n '])
    if need and not out:
        out = ' '
    return out


def render_q(rng, q, fancy=True):
    """one query with independent spelling; returns text"""
    sp = (lambda w: spell(rng, w)) if fancy else (lambda w: w)
    g = (lambda need: gap(rng, need)) if fancy else (lambda need: ' ' if need else '')
    parts = []
    if q.prefix:
        parts.append(sp(q.prefix))
        parts.append(g(True))
    first = True
    if q.mtype:
        parts.append(sp(q.mtype))
        first = False
    for f, v in q.exprs:
        if not first:
            parts.append(g(True))
            a = sp('and')
            parts.append(a)
            # `and(` is an IDENT followed by `(` only for the literal spelling (tokenize2.py:196-203)
            parts.append(g(False) if fancy and '\\' not in a and rng.random() < 0.3 else (g(True) or ' '))
        first = False
        parts.append('(')
        parts.append(g(False))
        parts.append(f)
        parts.append(g(False))
        if v is not None:
            parts.append(':')
            parts.append(g(False))
            parts.append(v)
            parts.append(g(False))
        parts.append(')')
    return ''.join(parts)


def render_list(rng, qs, fancy=True):
    out = []
    if fancy and rng.random() < 0.15:
        out.append(rng.choice(COMMENTS) + ' ')
    for i, q in enumerate(qs):
        if i:
            out.append(gap(rng, False, 0.05) if fancy else '')
            out.append(',')
            out.append(gap(rng, False, 0.15) if fancy else ' ')
        out.append(render_q(rng, q, fancy))
    if fancy and rng.random() < 0.1:
        out.append(' ' + rng.choice(COMMENTS))
    return ''.join(out)


def gen_list(rng, values=None):
    n = rng.choice([1, 1, 2, 2, 2, 3, 3, 4, 5])
    qs = [gen_q(rng, values=values) for _ in range(n)]
    r = rng.random()
    if r < 0.3 and n >= 2:
        # duplicates of a simple type on purpose
        s = [q for q in qs if q.simple()]
        if s:
            qs.insert(rng.randrange(len(qs) + 1), Q(None, rng.choice(s).mtype, []))
    if rng.random() < 0.15:
        qs.insert(rng.randrange(len(qs) + 1), Q(None, 'all', []))
    return qs


# -- malformed stream --------------------------------------------------------------------------------
JUNK = [';', '{', '}', ')', '(', ',', ':', 'and', 'not', 'only', 'foo', '@x', '!', '1', '"', "'x", '[', ']', '/', '16/9',
        'url(x)', '#ffff', 'tv', 'all', '/*', '*/', 'f(', '<!--', '~=', 'U+1', '%']


def mutate(rng, text):
    """token-level mutation of a text (works on a coarse split, independent of the real tokenizer)"""
    import re
    toks = re.findall(r'/\*.*?\*/|[A-Za-z_\\-][\w\\-]*|\s+|"[^"]*"|.', text, re.S)
    if not toks:
        return rng.choice(JUNK)
    k = rng.random()
    i = rng.randrange(len(toks))
    if k < 0.25:
        del toks[i]
    elif k < 0.4:
        toks.insert(i, toks[i])
    elif k < 0.55 and len(toks) > 1:
        j = rng.randrange(len(toks))
        toks[i], toks[j] = toks[j], toks[i]
    elif k < 0.85:
        toks.insert(i, rng.choice(['', ' ']) + rng.choice(JUNK) + rng.choice(['', ' ']))
    else:
        toks = toks[:i]
    return ''.join(toks)


# -- operations --------------------------------------------------------------------------------------
def gen_medium(rng, present):
    r = rng.random()
    if r < 0.35 and present:
        return spell(rng, rng.choice(present))
    if r < 0.6:
        return spell(rng, rng.choice(MEDIA_TYPES))
    if r < 0.68:
        return spell(rng, 'all')
    if r < 0.85:
        return render_q(rng, gen_q(rng, simple_bias=0.2), fancy=rng.random() < 0.5)
    if r < 0.9:
        return rng.choice(['', ' ', 'foo', 'tv print', 'tv,print', 'not', '(', 'tv and', 'screen and (color', '/*c*/',
                           '/*c*/ tv', 'tv /*c*/'])
    return mutate(rng, render_q(rng, gen_q(rng, simple_bias=0.3)))


def gen_ops(rng, qs_hint):
    present = [q.mtype for q in qs_hint if q.mtype]
    ops = []
    for _ in range(rng.choice([0, 1, 2, 3, 3, 4, 5, 6, 8])):
        r = rng.random()
        if r < 0.3:
            m = gen_medium(rng, present)
            ops.append(('append', m))
        elif r < 0.52:
            r2 = rng.random()
            if r2 < 0.6 and present:
                t = spell(rng, rng.choice(present))
            elif r2 < 0.85:
                t = spell(rng, rng.choice(MEDIA_TYPES))
            else:
                t = rng.choice(['', 'foo', 'all', 'not tv', ' tv', 'tv '])
            ops.append(('delete', t))
        elif r < 0.72:
            ops.append(('setitem', rng.choice([0, 0, 1, 1, 2, 3, -1, -2, 5, -7]), gen_medium(rng, present)))
        elif r < 0.85:
            ops.append(('item', rng.choice([0, 0, 1, 2, 3, -1, 9])))
        else:
            if rng.random() < 0.75:
                ops.append(('set', render_list(rng, gen_list(rng), fancy=rng.random() < 0.6)))
            else:
                ops.append(('set', mutate(rng, render_list(rng, gen_list(rng)))))
        if ops[-1][0] in ('append', 'setitem'):
            w = ops[-1][-1].strip().lower()
            if w in MEDIA_TYPES:
                present.append(w)
    return ops


def random_history(rng):
    r = rng.random()
    context = 'alone' if r < 0.55 else ('media' if r < 0.72 else ('import' if r < 0.84 else
                                                                   ('media-nc' if r < 0.93 else 'import-nc')))
    raising = rng.random() < 0.4
    k = rng.random()
    asts = None
    if k < 0.62:
        qs = gen_list(rng)
        start = render_list(rng, qs, fancy=rng.random() < 0.7)
        asts = qs
        kind = 'grammar'
    elif k < 0.70:
        qs = gen_list(rng, values=VALUES_FUNC + VALUES_PLAIN)
        start = render_list(rng, qs, fancy=False)
        asts = qs
        kind = 'grammar-func'
    elif k < 0.93:
        qs = gen_list(rng, values=VALUES_PLAIN + VALUES_BAD if rng.random() < 0.3 else None)
        start = render_list(rng, qs)
        for _ in range(rng.choice([1, 1, 2])):
            start = mutate(rng, start)
        kind = 'malformed'
    else:
        qs = []
        start = rng.choice(BOUNDARY)
        kind = 'boundary'
    if context != 'alone':
        # keep the rule syntax intact: no block / statement delimiters in the list text
        for ch in '{};':
            start = start.replace(ch, '')
    return History(context, start, gen_ops(rng, qs), raising=raising, kind=kind, asts=asts)


BOUNDARY = ['screen /*c*/ and (color)', 'tv /*c*/ , /*d*/ print', 'tv and ( /*c*/ color /*d*/ : /*e*/ 1px /*f*/ )',
            'tv /*a*/ /*b*/ /*c*/ , print /*d*/', ' /*c*/ tv', 'not /*c*/ tv /*d*/ and /*e*/ (x)', 'tv /*c*/ print',
            'tv /*c*/ and /*d*/ , print', '', ' ', 'all', 'ALL', 'tv', 'tv,', ',tv', 'tv,,print', 'tv, print', 'print, PRINT', 'tv, ALL', 'all, tv',
            'tv, all, print', '/*c*/', '/*c*/ tv', 'tv /*c*/', '/*a*/ tv /*b*/, /*c*/ print /*d*/', 'tv, /*c*/ print',
            '/*c*/ tv, print', 'not tv', 'only tv', 'not', 'only', 'and', 'tv and', 'tv and, print',
            '(color) and tv', 'tv and (color, print', 'tv and (color:, print', 'tv and (color:1, print',
            'tv and (color) and, print', '(color', '(color), tv', '(color)', '()', '(:)', '(x:)', '(x:1', '(x:1)',
            '(x:1 2)', 'tv and (x: rgb(1,2))', 'tv and (x: rgb(1,2,3))', 'tv and (x:16/9)', 'tv (x)', 'tv print',
            'tv "x', "tv 'x", 'tv ;', 't\\v', 'T\\V, tv', 'scr\\65 en', 'a\\ll, tv', 'tv, a\\ll',
            'handheld, tv, handheld', 'not tv, not tv', 'tv and (color), tv and (color)', 'tv, tv and (color)',
            'all and (color), tv', 'tv, all and (color)', 'not all, tv', 'tv and(color)', 'tv AND (COLOR)',
            'tv and (min-width:100px) and (max-width:200px)', 'tv and (color:#fff)', 'tv and (color:#AABBCC)']


def boundary_histories():
    out = []
    ops_sets = [
        [],
        [('append', 'tv'), ('append', 'TV'), ('delete', 'tv'), ('delete', 'tv')],
        [('append', 'all'), ('append', 'print'), ('delete', 'all'), ('append', 'print')],
        [('setitem', 0, 'print'), ('setitem', 1, 'all'), ('setitem', 0, 'not tv'), ('setitem', 9, 'tv')],
        [('item', 0), ('item', 1), ('item', 2), ('item', -1), ('delete', 'print'), ('item', 0)],
        [('delete', ''), ('append', ''), ('append', 'not tv'), ('append', 'not tv'), ('delete', '')],
    ]
    for s in BOUNDARY:
        for i, ops in enumerate(ops_sets):
            for context in (('alone', 'media', 'import', 'media-nc', 'import-nc') if i == 0 else ('alone',)):
                for raising in (False, True):
                    if context != 'alone' and any(ch in s for ch in '{};'):
                        continue
                    out.append(History(context, s, ops, raising=raising, kind='boundary'))
    return out


def corpus(ctx):
    d = os.path.join(ctx.verif, 'tools', 'corpus', 'C17')
    out = []
    if os.path.isdir(d):
        for fn in sorted(os.listdir(d)):
            if fn.endswith('.json'):
                for e in json.load(open(os.path.join(d, fn))):
                    out.append(History(e.get('context', 'alone'), e['start'], [tuple(o) for o in e.get('ops', [])],
                                       raising=e.get('raising', False), kind='corpus'))
    return out
