"""C06: cssutils DOM -> the prefix-coded model DOM of lean/Drv/C06.lean.

The extraction reads exactly the attributes the serializer reads (`seq` items with type and value, `wellformed`,
`atkeyword`/`_keyword`, `literalname`, ... ) and nothing that depends on the preferences. Preference-independent
DOM queries are resolved here and are NOT part of the model: namespace prefix lookup for selector items
(`serialize.py:847-868`), `sheet._getUsedURIs()`, `property.valid`, variable lookup in `sheet.variables`,
`normalize(name)` of variable names, and the float facts `== 0`, `== int()`, `-1 < v < 1`, `'%f' % v`.
Anything the model has no constructor for raises Unmodelled (the case is then checked by the oracle only).
"""
import cssutils
from cssutils import css, stylesheets
from cssutils.helper import normalize

from lib.framework import enc

PREF_ORDER = ['defaultAtKeyword', 'defaultPropertyName', 'defaultPropertyPriority', 'importHrefFormat', 'indent',
              'indentClosingBrace', 'indentSpecificities', 'keepAllProperties', 'keepComments', 'keepEmptyRules',
              'keepUnknownAtRules', 'keepUsedNamespaceRulesOnly', 'lineNumbers', 'lineSeparator', 'listItemSpacer',
              'minimizeColorHash', 'normalizedVarNames', 'omitLastSemicolon', 'omitLeadingZero', 'paranthesisSpacer',
              'propertyNameSpacer', 'resolveVariables', 'selectorCombinatorSpacer', 'spacer', 'validOnly']
STRING_PREFS = {'indent', 'lineSeparator', 'listItemSpacer', 'paranthesisSpacer', 'propertyNameSpacer',
                'selectorCombinatorSpacer', 'spacer'}
MISSING = object()


class Unmodelled(Exception):
    pass


class ValidBit:
    """placeholder for `property.valid`: validation works on `property.value`, i.e. on the value text as the
    serializer writes it under the CURRENT preferences (`property.py:494`), so the bit is read per preference record
    (only when `validOnly` is set; otherwise the serializer never looks at it)"""
    __slots__ = ('prop',)

    def __init__(self, prop):
        self.prop = prop


def finalize(tokens, read_valid):
    """token list -> protocol text; `read_valid`: evaluate `property.valid` now (the caller has set the preferences)"""
    out = []
    for t in tokens:
        if isinstance(t, ValidBit):
            out.append(b(t.prop.valid) if read_valid else '1')
        else:
            out.append(t)
    return ' '.join(out)


def b(x):
    return '1' if x else '0'


def opt(s):
    if s is None:
        return '~'
    if not isinstance(s, str):
        raise Unmodelled('not a string: %r' % (s,))
    return enc(s)


def st(s):
    if not isinstance(s, str):
        raise Unmodelled('not a string: %r' % (s,))
    return enc(s)


def prefs_tokens(d):
    """d: dict name -> value (all 25)"""
    out = []
    for k in PREF_ORDER:
        v = d[k]
        if k == 'importHrefFormat':
            out.append(opt(v))
        elif k in STRING_PREFS:
            out.append(st(v))
        else:
            if v is not True and v is not False:
                raise Unmodelled('non-bool preference %s' % k)
            out.append(b(v))
    return out


def ty(t):
    if isinstance(t, str):
        if t.startswith('<'):
            raise Unmodelled('type %r' % t)
        return enc(t)
    if t is None:
        return enc('<None>')
    if t is css.CSSComment:
        return enc('<CSSComment>')
    if t == 0 and isinstance(t, int) and not isinstance(t, bool):
        return enc('<0>')
    raise Unmodelled('item type %r' % (t,))


def comment_text(c):
    return st(c._cssText or '')


def items(seq, sel=None):
    out = []
    n = 0
    for item in seq:
        n += 1
        out.append(ty(item.type))
        out.extend(val(item.value, sel))
    return [str(n)] + out


def val(v, sel=None):
    if isinstance(v, str):
        return ['s', enc(v)]
    if v is None:
        return ['n']
    if isinstance(v, tuple):
        if sel is None or len(v) != 2:
            raise Unmodelled('tuple value outside a selector')
        return ['t', enc(sel_name(sel, v))]
    return ['o'] + obj(v)


def sel_name(selector, v):
    """serialize.py:847-868 (independent of the preferences)"""
    DEFAULTURI = selector._namespaces.get('', None)
    namespaceURI, name = v
    if DEFAULTURI == namespaceURI or (not DEFAULTURI and namespaceURI is None):
        return name
    if namespaceURI == cssutils._ANYNS:
        prefix = '*'
    else:
        try:
            prefix = selector._namespaces.prefixForNamespaceURI(namespaceURI)
        except IndexError:
            prefix = ''
    return f'{prefix}|{name}'


def num(o):
    v = o.value
    if not isinstance(v, (int, float)) or isinstance(v, bool) or v != v or v in (float('inf'), float('-inf')):
        raise Unmodelled('numeric value %r' % (v,))
    isint = (v == int(v))
    sign = o._sign
    return [ty(o.type), st(sign or ''), b(v == 0), enc(str(int(v))) if isint else '~', b(-1 < v < 1),
            enc('%f' % v), opt(o.dimension)]


def variable_value_obj(o):
    """CSSVariable._getValue (value.py:939-958) up to the PropertyValue object whose cssText it returns"""
    rel = o
    while True:
        if hasattr(rel, 'parent'):
            rel = rel.parent
        else:
            break
    try:
        variables = rel.parentRule.parentStyleSheet.variables
    except AttributeError:
        return None
    return variables._vars.get(normalize(o.name))


def obj(o):
    if isinstance(o, css.CSSComment):
        return ['C', comment_text(o)]
    if isinstance(o, css.PropertyValue):
        return ['PV', b(len(o) > 0)] + items(o.seq)
    if isinstance(o, css.ColorValue):
        return ['K', ty(o.colorType)] + items(o.seq)
    if isinstance(o, css.DimensionValue):
        if o.type in ('DIMENSION', 'NUMBER', 'PERCENTAGE'):
            return ['N'] + num(o)
        return ['V', ty(o.type), st(o.value)]
    if isinstance(o, css.CSSVariable):
        if not o.name:
            return ['VR', '-', 'n', 'n']
        pv = variable_value_obj(o)
        fb = o.fallback
        return ['VR', st(o.name)] + (['n'] if pv is None else ['o'] + obj(pv)) + (['n'] if not fb else ['o'] + obj(fb))
    if isinstance(o, css.CSSCalc):
        return ['CA'] + items(o.seq)
    if isinstance(o, css.MSValue):
        return ['MS'] + items(o.seq)
    if isinstance(o, css.CSSFunction):
        return ['F'] + items(o.seq)
    if isinstance(o, css.Value):     # Value, URIValue
        if o.type in ('DIMENSION', 'NUMBER', 'PERCENTAGE'):
            raise Unmodelled('numeric plain Value')
        return ['V', ty(o.type), st(o.value)]
    if isinstance(o, css.Selector):
        return ['SE', b(o.wellformed)] + items(o.seq, sel=o)
    if isinstance(o, stylesheets.MediaQuery):
        return ['MQ', b(o.wellformed)] + items(o.seq)
    if isinstance(o, stylesheets.MediaList):
        return ['ML'] + items(o.seq)
    raise Unmodelled('object %s' % type(o).__name__)


def nparts(seq):
    out = [str(len(seq))]
    for part in seq:
        if isinstance(part, str):
            out += ['s', enc(part)]
        elif isinstance(part, css.CSSComment):
            out += ['c', comment_text(part)]
        else:
            raise Unmodelled('name/priority part %r' % (part,))
    return out


def prop(p):
    nameseq, value, prioseq = p.seqs
    if not isinstance(value, css.PropertyValue):
        raise Unmodelled('property value %r' % (value,))
    return ([b(p.wellformed), ValidBit(p), b(p._mediaQuery)] + nparts(nameseq) + [st(p.literalname), st(p.name)]
            + obj(value) + nparts(prioseq) + [st(p.literalpriority), st(p.priority)])


def urule(r):
    out = [b(r.wellformed), st(r.atkeyword or '')]
    its = []
    n = 0
    for item in r.seq:
        n += 1
        v = item.value
        if isinstance(v, str):
            its += ['s', ty(item.type), enc(v)]
        elif isinstance(v, css.CSSComment) and item.type == 'COMMENT':
            its += ['c', comment_text(v)]
        elif isinstance(v, css.CSSUnknownRule) and ty(item.type) == enc('<0>'):
            its += ['r'] + urule(v)
        else:
            raise Unmodelled('unknown rule item %r %r' % (item.type, v))
    return out + [str(n)] + its


def ditems(style):
    out = []
    n = 0
    for item in style.seq:
        n += 1
        v = item.value
        if isinstance(v, css.CSSComment):
            out += ['c', comment_text(v)]
        elif isinstance(v, css.Property):
            out += ['p'] + prop(v)
        elif isinstance(v, css.CSSUnknownRule):
            out += ['u'] + urule(v)
        elif isinstance(v, str):
            out += ['o', enc(v)]
        else:
            raise Unmodelled('declaration item %r' % (v,))
    return [str(n)] + out


def vitems(variables):
    out = []
    n = 0
    for item in variables.seq:
        n += 1
        v = item.value
        if item.type == 'var':
            name, value = v
            out += ['v', st(name), st(normalize(name))] + obj(value)
        elif isinstance(v, css.CSSComment):
            out += ['c', comment_text(v)]
        else:
            out += ['o', ty(item.type)] + obj(v)
    return [str(n)] + out


def kw(r):
    k = getattr(r, '_keyword', MISSING)
    if k is MISSING:
        return '~'
    return st(k)


def rules(rs):
    out = []
    n = 0
    for r in rs:
        n += 1
        out += rule(r)
    return [str(n)] + out


def rule(r):
    if isinstance(r, css.CSSComment):
        return ['rc', comment_text(r)]
    if isinstance(r, css.CSSCharsetRule):
        return ['rch', b(r.wellformed), st(r.encoding or '')]
    if isinstance(r, css.CSSImportRule):
        return ['rim', b(r.wellformed), st(r.atkeyword), kw(r), b(r.hreftype == 'string')] + items(r.seq)
    if isinstance(r, css.CSSNamespaceRule):
        return ['rns', b(r.wellformed), st(r.atkeyword), kw(r), st(r.prefix or ''), opt(r.namespaceURI)] + items(r.seq)
    if isinstance(r, css.CSSMediaRule):
        return (['rme', b(r.media.wellformed), st(r.atkeyword), kw(r)] + obj(r.media) + [opt(r.name)]
                + items(r.seq) + rules(r.cssRules))
    if isinstance(r, css.CSSPageRule):
        return (['rpg', b(r.wellformed), st(r.atkeyword), kw(r)] + items(r._selectorText) + ditems(r.style)
                + rules(r.cssRules))
    if isinstance(r, css.MarginRule):
        return ['rmg', opt(r.atkeyword), opt(r._keyword if r._keyword is not None else ''), b(r.wellformed)] + ditems(r.style)
    if isinstance(r, css.CSSFontFaceRule):
        return ['rff', b(r.wellformed), st(r.atkeyword), kw(r)] + items(r.seq) + ditems(r.style)
    if isinstance(r, css.CSSStyleRule):
        sl = r.selectorList
        sels = []
        for part in sl.seq:
            if not isinstance(part, css.Selector):
                raise Unmodelled('selector list part %r' % (part,))
            sels += obj(part)
        return ['rst', b(r.wellformed), b(sl.wellformed), str(len(sl.seq))] + sels + ditems(r.style)
    if isinstance(r, css.CSSUnknownRule):
        return ['run'] + urule(r)
    if isinstance(r, css.CSSVariablesRule):
        return ['rva', b(r.wellformed), st(r.atkeyword), kw(r)] + items(r.seq) + vitems(r.variables)
    raise Unmodelled('rule %s' % type(r).__name__)


def sheet(sh):
    used = sorted(sh._getUsedURIs(), key=repr)
    # cssutils._ANYNS (-1, from `*|a`) is never the namespaceURI of a rule: any token distinct from real URIs will do
    out = [str(len(used))] + [enc('<ANYNS>') if u == cssutils._ANYNS and not isinstance(u, str) else opt(u) for u in used]
    return out + rules(sh.cssRules)
