"""C19 — abstract sheets shared by the correspondence and the oracle: wire format for the model driver,
rendering to CSS text, projection of cssutils objects back to the abstract form, generators.

abstract forms (plain tuples / lists, JSON-able):
  comp  : ('u', url) | ('t', text) | ('f', name, [comp])
  decl  : (name, [comp], prio)
  rule  : ('C', enc) | ('K', text) | ('I', href, media, found, thref, [rule]) | ('N', prefix, uri)
        | ('S', selector, [decl]) | ('M', media, [rule]) | ('P', selector, [decl], [(margin, [decl])])
        | ('F', [decl]) | ('U', text)
"""
from lib.framework import enc, dec

MAIN_HREFS = ['http://h/base/main.css', 'http://h/main.css', 'http://h/a/b/c/main.css', 'https://h:8080/x/main.css',
              'file:///d/e/main.css']


# ------------------------------------------------------------------------------------------------
# wire format (see lean/Drv/C19.lean)
def w_comps(cs, out):
    out.append('(')
    for c in cs:
        if c[0] == 'f':
            out += ['f', enc(c[1])]
            w_comps(c[2], out)
        else:
            out += [c[0], enc(c[1])]
    out.append(')')


def w_style(st, out):
    out.append('{')
    for name, val, prio in st:
        out += ['D', enc(name)]
        w_comps(val, out)
        out.append(enc(prio))
    out.append('}')


def w_rules(rules, out):
    out.append('[')
    for r in rules:
        k = r[0]
        if k in 'CKU':
            out += [k, enc(r[1])]
        elif k == 'N':
            out += ['N', enc(r[1]), enc(r[2])]
        elif k == 'I':
            out += ['I', enc(r[1]), enc(r[2]), '1' if r[3] else '0', enc(r[4])]
            w_rules(r[5], out)
        elif k == 'S':
            out += ['S', enc(r[1])]
            w_style(r[2], out)
        elif k == 'F':
            out.append('F')
            w_style(r[1], out)
        elif k == 'M':
            out += ['M', enc(r[1])]
            w_rules(r[2], out)
        elif k == 'P':
            out += ['P', enc(r[1])]
            w_style(r[2], out)
            out.append('[')
            for name, st in r[3]:
                out.append(enc(name))
                w_style(st, out)
            out.append(']')
        else:
            raise ValueError(k)
    out.append(']')


def wire_sheet(rules):
    out = []
    w_rules(rules, out)
    return ' '.join(out)


def wire_style(st):
    out = []
    w_style(st, out)
    return ' '.join(out)


def wire_vfs(vfs):
    out = ['<']
    for url, rules in vfs.items():
        out.append(enc(url))
        w_rules(rules, out)
    out.append('>')
    return ' '.join(out)


def j_comps(x):
    return [('f', c[1], j_comps(c[2])) if c[0] == 'f' else (c[0], c[1]) for c in x]


def j_style(x):
    return [(d[0], j_comps(d[1]), d[2]) for d in x]


def j_rules(x):
    """JSON arrays back to the tuple form"""
    out = []
    for r in x:
        k = r[0]
        if k == 'I':
            out.append(('I', r[1], r[2], bool(r[3]), r[4], j_rules(r[5])))
        elif k == 'S':
            out.append(('S', r[1], j_style(r[2])))
        elif k == 'F':
            out.append(('F', j_style(r[1])))
        elif k == 'M':
            out.append(('M', r[1], j_rules(r[2])))
        elif k == 'P':
            out.append(('P', r[1], j_style(r[2]), [(m[0], j_style(m[1])) for m in r[3]]))
        else:
            out.append(tuple(r))
    return out


def raw_import(href, media='all'):
    return ('I', href, media, False, '', [])


# ------------------------------------------------------------------------------------------------
# rendering
def css_string(s, q='"'):
    out = []
    for ch in s:
        if ch == q or ch == '\\':
            out.append('\\' + ch)
        elif ch in '\n\r\f':
            out.append('\\%x ' % ord(ch))
        else:
            out.append(ch)
    return q + ''.join(out) + q


URL_PLAIN = set('abcdefghijklmnopqrstuvwxyzABCDEFGHIJKLMNOPQRSTUVWXYZ0123456789!#$%&*-./:;=?@[]^_`{|}~+<>')


def r_url(u, rng=None):
    plain_ok = all(c in URL_PLAIN or ord(c) > 0x7f for c in u)
    style = rng.choice('pqs') if rng else 'p'
    if style == 'p' and plain_ok:
        pad = rng.choice(['', '', ' ']) if rng else ''
        return 'url(%s%s%s)' % (pad, u, pad)
    return 'url(%s)' % css_string(u, "'" if style == 's' else '"')


def r_comps(cs, rng=None):
    parts = []
    for c in cs:
        if c[0] == 'u':
            parts.append(r_url(c[1], rng))
        elif c[0] == 't':
            parts.append(c[1])
        else:
            parts.append('%s(%s)' % (c[1], r_comps(c[2], rng)))
    return ' '.join(parts)


def r_style(st, rng=None):
    sep = rng.choice([';', '; ', ' ;\n ']) if rng else ';'
    out = []
    for name, val, prio in st:
        out.append('%s:%s%s' % (name, r_comps(val, rng), ' !' + prio if prio else ''))
    return sep.join(out)


def r_rules(rules, rng=None, indent=''):
    out = []
    for r in rules:
        k = r[0]
        if k == 'C':
            out.append('@charset "%s";' % r[1])
        elif k in 'KU':
            out.append(r[1])
        elif k == 'N':
            out.append('@namespace %s %s;' % (r[1], css_string(r[2])))
        elif k == 'I':
            form = rng.choice('su') if rng else 's'
            target = css_string(r[1]) if form == 's' else r_url(r[1], rng)
            media = '' if r[2] == 'all' and (not rng or rng.random() < 0.8) else ' ' + r[2]
            out.append('@import %s%s;' % (target, media))
        elif k == 'S':
            out.append('%s{%s}' % (r[1], r_style(r[2], rng)))
        elif k == 'F':
            out.append('@font-face{%s}' % r_style(r[1], rng))
        elif k == 'M':
            out.append('@media %s{%s}' % (r[1], r_rules(r[2], rng)))
        elif k == 'P':
            body = r_style(r[2], rng)
            for name, st in r[3]:
                body += (';' if body and not body.rstrip().endswith(';') else '') + '%s{%s}' % (name, r_style(st, rng))
            out.append('@page%s{%s}' % (' ' + r[1] if r[1] else '', body))
    sep = rng.choice(['', '\n', ' ']) if rng else '\n'
    return sep.join(out)


# ------------------------------------------------------------------------------------------------
# projection of cssutils objects
def p_comps(seq):
    from cssutils.css import value as V
    out = []
    for it in seq:
        v = it.value
        if isinstance(v, V.URIValue):
            out.append(('u', v.uri))
        elif type(v) is V.CSSFunction:
            items = list(v.seq)
            name = items[0].value
            assert isinstance(name, str) and name.endswith('('), name
            out.append(('f', name[:-1], p_comps(items[1:-1])))
        elif isinstance(v, str):
            if v.strip():
                out.append(('t', v))
        else:
            out.append(('t', v.cssText))
    return out


def p_style(style):
    return [(p.name, p_comps(p.propertyValue.seq), p.priority) for p in style.getProperties(all=True)]


def p_rules(rules, deep=True):
    out = []
    for r in rules:
        t = r.type
        if t == r.CHARSET_RULE:
            out.append(('C', r.encoding))
        elif t == r.COMMENT:
            out.append(('K', r.cssText))
        elif t == r.UNKNOWN_RULE:
            out.append(('U', r.cssText))
        elif t == r.NAMESPACE_RULE:
            out.append(('N', r.prefix, r.namespaceURI))
        elif t == r.IMPORT_RULE:
            if deep:
                sh = r.styleSheet
                # @charset rules of imported sheets (incl. the one inherited from the parent, C08) are not compared
                # for a rule whose sheet was not found the fourth field is the URL that was tried (`_hrefTried`, '' = none)
                found = bool(r.hrefFound)
                out.append(('I', r.href, r.media.mediaText, found,
                            ((sh.href or '') if sh else '') if found else (getattr(r, '_hrefTried', None) or ''),
                            [x for x in p_rules(sh.cssRules, True) if x[0] != 'C'] if sh else []))
            else:
                out.append(('I', r.href, r.media.mediaText, False, '', []))
        elif t == r.STYLE_RULE:
            out.append(('S', r.selectorText, p_style(r.style)))
        elif t == r.FONT_FACE_RULE:
            out.append(('F', p_style(r.style)))
        elif t == r.MEDIA_RULE:
            out.append(('M', r.media.mediaText, p_rules(r.cssRules, deep)))
        elif t == r.PAGE_RULE:
            out.append(('P', r.selectorText, p_style(r.style),
                        [(m.margin, p_style(m.style)) for m in r.cssRules]))
        else:
            out.append(('?', r.cssText))
    return out


def shallow(rules):
    """imports as they are before loading / as only href+media can be seen in cssText"""
    out = []
    for r in rules:
        if r[0] == 'I':
            out.append(('I', r[1], r[2], False, '', []))
        elif r[0] == 'M':
            out.append(('M', r[1], shallow(r[2])))
        else:
            out.append(r)
    return out


def no_comments(rules):
    out = []
    for r in rules:
        if r[0] == 'K':
            continue
        if r[0] == 'M':
            out.append(('M', r[1], no_comments(r[2])))
        elif r[0] == 'I':
            out.append(('I', r[1], r[2], r[3], r[4], no_comments(r[5])))
        else:
            out.append(r)
    return out


# ------------------------------------------------------------------------------------------------
# generators
SELECTORS = ['a', 'b', '.c', '#d', 'a b', 'a > b', 'a, b', 'x:hover', 'ul li.e']
PROP_NAMES = ['background', 'background-image', 'src', 'cursor', 'list-style', 'content', 'border-image', 'x-u',
              'color', 'mask']
TOKS = ['red', '1px', '0', 'no-repeat', '"s"', ',', '/', '50%', '#fff', 'fixed']
MEDIA = ['print', 'screen', 'screen, print', 'tv', 'handheld']
MARGINS = ['@top-left', '@bottom-center', '@right-middle', '@top-right-corner']
FILES = ['x.png', 'y.gif', 'f.woff', 'pic.v2.jpg', 'i', 'a_b-c~d.svg']
DIRS = ['img', 'css', 'sub', 'a.b', 'd1', 'x']

# URL forms and the classes the oracle reasons about
REL_SIMPLE = 'rel'


def gen_rel_path(rng, allow_dots=True):
    parts = []
    if allow_dots:
        r = rng.random()
        if r < 0.25:
            parts += ['..'] * rng.choice([1, 1, 2, 3])
        elif r < 0.35:
            parts.append('.')
    for _ in range(rng.choice([0, 0, 1, 1, 2])):
        parts.append(rng.choice(DIRS))
        if allow_dots and rng.random() < 0.08:
            parts.append('..')
        if allow_dots and rng.random() < 0.04:
            parts.append('.')
    parts.append(rng.choice(FILES))
    return '/'.join(parts)


def gen_url(rng, exotic=0.12):
    """(url, class). classes: rel, relq (query/fragment), pct, abs, schemerel, rootrel, data, and the exotic ones:
    samedoc, trailing, reserved, space, nonascii, dslash"""
    r = rng.random()
    if r < exotic:
        k = rng.choice(['samedoc', 'trailing', 'reserved', 'space', 'nonascii', 'dslash'])
        if k == 'samedoc':
            return rng.choice(['#frag', '?q=1', '', '#', '?', '?a#b']), k
        if k == 'trailing':
            return rng.choice(['img/', '.', '..', './', '../', 'img/.', 'img/..', '../..', 'a/b/']), k
        if k == 'reserved':
            if rng.random() < 0.25:
                return rng.choice(['./a:b.png', './x:y/z.png', '../c:d.gif']), k
            return gen_rel_path(rng, False).replace('.', rng.choice(['@2x.', ';v=1.', '+.', ',.', '!.', '$.', "&.", '=.',
                                                                     '*.', ':.']), 1), k
        if k == 'space':
            return gen_rel_path(rng).replace('.', ' .', 1) if rng.random() < .7 else ' ' + gen_rel_path(rng), k
        if k == 'nonascii':
            return gen_rel_path(rng).replace('.', rng.choice(['é', '日本', '\U0001F600', '\x80']) + '.', 1), k
        return gen_rel_path(rng).replace('/', '//', 1), k
    r = rng.random()
    if r < 0.45:
        return gen_rel_path(rng), 'rel'
    if r < 0.58:
        return gen_rel_path(rng) + rng.choice(['?v=2', '#frag', '?a=1&b=2#f', '?', '#', '?x/../y', '#../z']), 'relq'
    if r < 0.66:
        return gen_rel_path(rng).replace('.', rng.choice(['%41', '%2e', '%20', '%', '%zz']) + '.', 1), 'pct'
    if r < 0.76:
        return rng.choice(['http://h/img/x.png', 'https://cdn.example/a/b.png?x#y', 'http://other/x.png',
                           'HTTP://H/Y.PNG', 'ftp://f/x', 'about:blank', 'mailto:a@b']), 'abs'
    if r < 0.84:
        return rng.choice(['//cdn/x.png', '//h/img/y.png?z', '//other.example/a/../b.png']), 'schemerel'
    if r < 0.94:
        return '/' + gen_rel_path(rng), 'rootrel'
    return rng.choice(['data:image/png;base64,AAA=', 'data:,x']), 'data'


def gen_comps(rng, url_p=0.6, fn_url_p=0.0):
    cs = []
    for _ in range(rng.choice([1, 1, 2, 3, 4])):
        r = rng.random()
        if r < url_p:
            cs.append(('u', gen_url(rng)[0]))
        elif r < url_p + 0.08:
            name = rng.choice(['format', 'local', 'image-set', 'cross-fade'])
            if name == 'format':
                args = [('t', '"woff"')]
            elif name == 'local':
                args = [('t', 'Foo')]
            elif rng.random() < fn_url_p:
                args = [('u', gen_url(rng, 0)[0]), ('t', '1x'), ('t', ','), ('u', gen_url(rng, 0)[0]), ('t', '2x')]
            else:
                args = [('t', '"a.png"'), ('t', '1x')]
            cs.append(('f', name, args))
        else:
            cs.append(('t', rng.choice(TOKS)))
    # no operator at either end or twice in a row (the value parser would reject it)
    out = []
    for c in cs:
        if c[0] == 't' and c[1] in ',/' and (not out or (out[-1][0] == 't' and out[-1][1] in ',/')):
            continue
        out.append(c)
    while out and out[-1][0] == 't' and out[-1][1] in ',/':
        out.pop()
    return out or [('t', 'red')]


def gen_style(rng, **kw):
    st = []
    for _ in range(rng.choice([0, 1, 1, 2, 3])):
        st.append((rng.choice(PROP_NAMES), gen_comps(rng, **kw), rng.choice(['', '', '', 'important'])))
    return st


def gen_body_rule(rng, depth=0, kinds='SSSSMPFKU', **kw):
    k = rng.choice(kinds)
    if k == 'S':
        return ('S', rng.choice(SELECTORS), gen_style(rng, **kw))
    if k == 'F':
        return ('F', gen_style(rng, **kw) or [('src', [('u', 'f.woff')], '')])
    if k == 'M':
        inner = [gen_body_rule(rng, depth + 1, 'SSSPK', **kw) for _ in range(rng.choice([0, 1, 2]))]
        return ('M', rng.choice(MEDIA), inner)
    if k == 'P':
        ms = [(m, gen_style(rng, **kw)) for m in rng.sample(MARGINS, rng.choice([0, 0, 1, 2]))]
        return ('P', rng.choice(['', ':first', ':left']), gen_style(rng, **kw), ms)
    if k == 'K':
        return ('K', '/*%s*/' % rng.choice(['c', ' url(x.png) ', '', '@import "q.css";']))
    return ('U', rng.choice(['@x-unknown a b;', '@foo {\n    a: url(u.png)\n    }']))


def gen_sheet_body(rng, n=None, **kw):
    n = rng.choice([0, 1, 1, 2, 3, 4]) if n is None else n
    return [gen_body_rule(rng, **kw) for _ in range(n)]
