"""C12 — the memo tables (`_TOKENIZER_CACHE`, the tables kept by Tokenizer objects, util.LazyRegex).

model     lean/CssVerif/Model/GlobalsMemo.lean, driver requests `memo …` / `lazy …`
generator histories of `Tokenizer(macros, productions)` calls and `settings.set('DXImageTransform.Microsoft', True)`
          over a catalogue of arguments (None, empty, copies and permutations of the real tables, extended tables,
          tables with an undefined macro, without COMMENT, small custom ones), each run in a fresh process
compared   per step: value / exception (KeyError with its name, IndexError), hit or miss, number of cache entries,
          every (name, pattern) of the tables, the comment and uri patterns  — model vs implementation
oracle     (implementation only) after every call the tables are recomputed by `_expand_macros` /
          `_compile_productions` directly, past the cache, under the module-level tables as they are then: the
          look-up must return exactly that (T12.4); after every step the long-lived Tokenizer objects run once
          (`tokenize('')`) and the tables they worked with are compared with it too (the former finding
          C12-settings-stale-tokenizers, fixed by 7a36f78: `tokenize` re-binds the tables)
"""
import re

from lib.framework import enc

KNOWN_STALE = 'C12-settings-stale-tokenizers'

# -- catalogue --------------------------------------------------------------------------------------------------
# arguments are described symbolically; the worker builds the Python values from the real module-level tables
MACRO_ARGS = ['none', 'empty', 'copy', 'reversed', 'extra', 'missing-h', 'small', 'small-rev', 'small-undef',
              'override-nl']
PROD_ARGS = ['none', 'empty', 'copy', 'no-comment', 'no-uri', 'small', 'small-undef', 'extra-first', 'brace']

SMALL_MACROS = [('a', 'x'), ('b', '{a}y|{a}'), ('c-1', '[{b}]{2,3}')]
SMALL_PRODS = [('BOM', 'q'), ('URI', 'u{a}'), ('COMMENT', 'c{b}{'), ('IDENT', '({c-1})+{x y}')]


def build_macros(tag, M):
    """M = the real cssproductions.MACROS (dict)"""
    if tag == 'none':
        return None
    if tag == 'empty':
        return {}
    if tag == 'copy':
        return dict(M)
    if tag == 'reversed':
        return dict(reversed(list(M.items())))
    if tag == 'extra':
        d = dict(M)
        d['c12extra'] = 'zz'
        return d
    if tag == 'missing-h':
        d = dict(M)
        d.pop('nonascii')
        return d
    if tag == 'small':
        return dict(SMALL_MACROS)
    if tag == 'small-rev':
        return dict(reversed(SMALL_MACROS))
    if tag == 'small-undef':
        return dict(SMALL_MACROS[:1])
    if tag == 'override-nl':
        d = dict(M)
        d['nl'] = 'NL'
        return d
    raise ValueError(tag)


def build_prods(tag, P):
    if tag == 'none':
        return None
    if tag == 'empty':
        return []
    if tag == 'copy':
        return list(P)
    if tag == 'no-comment':
        return [x for x in P if x[0] != 'COMMENT']
    if tag == 'no-uri':
        return [x for x in P if x[0] != 'URI']
    if tag == 'small':
        return list(SMALL_PRODS)
    if tag == 'small-undef':
        return list(SMALL_PRODS) + [('HASH', '#{nosuchmacro}{a}')]
    if tag == 'extra-first':
        return [('C12', 'c12{nl}')] + list(P)
    if tag == 'brace':
        return [('URI', '{'), ('COMMENT', '{}{1a}{a'), ('X', '{a}{{a}}')]
    raise ValueError(tag)


def gen_history(rng, n):
    ops = []
    for _ in range(n):
        r = rng.random()
        if r < 0.12:
            ops.append({'op': 'set'})
            continue
        if r < 0.45 and ops:
            prev = [o for o in ops if o['op'] == 'new']
            if prev:
                ops.append(dict(rng.choice(prev)))          # the same arguments again: a hit unless cleared
                continue
        m = rng.choice(MACRO_ARGS)
        # the real productions need the real macros: pair small tables mostly with small ones
        if m.startswith('small'):
            p = rng.choice(['small', 'small', 'small', 'small-undef', 'brace', 'brace', 'none'])
        else:
            p = rng.choice([x for x in PROD_ARGS if not x.startswith('small')] + ['small'])
        ops.append({'op': 'new', 'm': m, 'p': p})
    return ops


FIXED = [
    ('hit-after-miss', [{'op': 'new', 'm': 'small', 'p': 'small'}, {'op': 'new', 'm': 'small-rev', 'p': 'small'}]),
    ('none-vs-empty', [{'op': 'new', 'm': 'none', 'p': 'none'}, {'op': 'new', 'm': 'empty', 'p': 'empty'},
                       {'op': 'new', 'm': 'empty', 'p': 'none'}]),
    ('raise-stores-nothing', [{'op': 'new', 'm': 'missing-h', 'p': 'none'}, {'op': 'new', 'm': 'missing-h', 'p': 'none'},
                              {'op': 'new', 'm': 'copy', 'p': 'no-comment'}, {'op': 'new', 'm': 'copy', 'p': 'no-uri'}]),
    ('settings-clears', [{'op': 'new', 'm': 'none', 'p': 'none'}, {'op': 'new', 'm': 'copy', 'p': 'none'}, {'op': 'set'},
                         {'op': 'new', 'm': 'none', 'p': 'none'}, {'op': 'new', 'm': 'copy', 'p': 'none'},
                         {'op': 'new', 'm': 'copy', 'p': 'copy'}, {'op': 'set'}, {'op': 'new', 'm': 'none', 'p': 'none'}]),
    ('braces', [{'op': 'new', 'm': 'small', 'p': 'brace'}, {'op': 'new', 'm': 'small-undef', 'p': 'small'}]),
]


# -- the implementation side (runs inside c12_worker, fresh process) -------------------------------------------
def _patterns(tm):
    return [[name, m.__self__.pattern] for name, m in tm]


def run_memo(req):
    import cssutils  # noqa: F401
    from cssutils import tokenize2, cssproductions, prodparser, util
    import cssutils.settings
    T = tokenize2.Tokenizer
    cache = tokenize2._TOKENIZER_CACHE
    probe = object.__new__(T)
    out = {'G': {'macros': list(cssproductions.MACROS.items()), 'prods': [list(x) for x in cssproductions.PRODUCTIONS],
                 'dx': list(cssproductions._DXImageTransform)},
           'import_entries': len(cache), 'import_keys': sorted(cache),
           'import_tables': _patterns(prodparser.tokenizer.tokenmatches), 'steps': []}
    longlived = {'prodparser.tokenizer': prodparser.tokenizer,
                 'Base.__tokenizer2': util.Base._Base__tokenizer2,
                 'CSSParser().__tokenizer': cssutils.CSSParser()._CSSParser__tokenizer}
    # creating the parser above was one more look-up (a hit): the model history starts with two look-ups

    def recompute(m, p):
        """past the cache: what tokenize2.py:52-60 compute under the module-level tables as they are now"""
        try:
            mm = m if m else cssproductions.MACROS
            pp = p if p else cssproductions.PRODUCTIONS
            tm = T._compile_productions(probe, T._expand_macros(probe, mm, pp))
            c = [x[1] for x in tm if x[0] == 'COMMENT'][0]
            u = [x[1] for x in tm if x[0] == 'URI'][0]
            return {'out': 'ok', 'tables': _patterns(tm), 'comment': c.__self__.pattern, 'uri': u.__self__.pattern}
        except KeyError as e:
            return {'out': 'KeyError:' + str(e.args[0])}
        except IndexError:
            return {'out': 'IndexError'}
        except re.error:
            return {'out': 're.error'}

    for op in req['ops']:
        if op['op'] == 'set':
            cssutils.settings.set('DXImageTransform.Microsoft', True)
            step = {'out': 'set', 'entries': len(cache)}
        else:
            m = build_macros(op['m'], cssproductions.MACROS)
            p = build_prods(op['p'], cssproductions.PRODUCTIONS)
            before = len(cache)
            try:
                t = T(m, p)
                step = {'out': 'ok', 'hit': len(cache) == before, 'tables': _patterns(t.tokenmatches),
                        'comment': t.commentmatcher.__self__.pattern, 'uri': t.urimatcher.__self__.pattern}
            except KeyError as e:
                step = {'out': 'KeyError:' + str(e.args[0])}
            except IndexError:
                step = {'out': 'IndexError'}
            except re.error:
                step = {'out': 're.error'}
            step['entries'] = len(cache)
            step['fresh'] = recompute(m, p)
        # a run of every long-lived tokenizer (all were created with the default arguments): `tokenize` starts with
        # `_bind()`, the same look-up as in `__init__` (model: Memo.runTokenizer, request `run:N:N`). The first run is
        # observed like a look-up; the others find the entry the first one left
        first = True
        for _k in sorted(longlived):
            t = longlived[_k]
            before = len(cache)
            try:
                for _tok in t.tokenize(''):
                    pass
                obs = {'out': 'ok', 'hit': len(cache) == before, 'tables': _patterns(t.tokenmatches),
                       'comment': t.commentmatcher.__self__.pattern, 'uri': t.urimatcher.__self__.pattern}
            except KeyError as e:
                obs = {'out': 'KeyError:' + str(e.args[0])}
            except IndexError:
                obs = {'out': 'IndexError'}
            except re.error:
                obs = {'out': 're.error'}
            obs['entries'] = len(cache)
            if first:
                step['run'] = obs
                first = False
        cur = recompute(None, None)
        # the tables the last run of each long-lived object worked with
        step['stale'] = sorted(k for k, t in longlived.items() if _patterns(t.tokenmatches) != cur.get('tables'))
        out['steps'].append(step)
    return out


# -- the model side -------------------------------------------------------------------------------------------------
def enc_items(items):
    if items is None:
        return 'N'
    if not items:
        return 'E'
    return ','.join('%s=%s' % (enc(k), enc(v)) for k, v in items)


def model_line(ops, G, fuel=12):
    M = dict(G['macros'])
    P = [tuple(x) for x in G['prods']]
    glob = ';'.join([enc_items(G['macros']), enc_items(P), '%s=%s' % (enc(G['dx'][0]), enc(G['dx'][1]))])
    words = ['new:N:N', 'new:N:N']         # the import of the package and the parser the worker creates
    for op in ops:
        if op['op'] == 'set':
            words.append('set')
            P.insert(1, tuple(G['dx']))                      # what the arguments built later are copies of
        else:
            m = build_macros(op['m'], M)
            p = build_prods(op['p'], P)
            words.append('new:%s:%s' % (enc_items(None if m is None else list(m.items())), enc_items(p)))
        words.append('run:N:N')            # the runs of the long-lived tokenizers after every step
    return 'memo %d %s %s' % (fuel, glob, ' '.join(words))


def impl_obs(step):
    if step['out'] == 'set':
        return 'set %d' % step['entries']
    if step['out'] == 'ok':
        return ' '.join(['ok', str(int(step['hit'])), str(step['entries']),
                         enc_items([tuple(x) for x in step['tables']]), enc(step['comment']), enc(step['uri'])])
    if step['out'].startswith('KeyError:'):
        return 'err KeyError:%s %d' % (enc(step['out'][9:]), step['entries'])
    return 'err %s %d' % (step['out'], step['entries'])


# -- LazyRegex ---------------------------------------------------------------------------------------------------------
LAZY_PATTERNS = [('f.o', 0), ('f.o', re.I), ('(a)(b)?', re.I), ('^(?:x|y{2})$', re.I | re.ASCII), ('(?P<n>\\d+)', 0), ('(', 0),
                 ('[', re.I), ('a*', re.S | re.M)]
LAZY_TEXTS = ['foo', 'FOO', 'xfoo', 'AB', 'ab', 'yy', 'X', '12 34', '', 'aaa']
LAZY_METHODS = ['match', 'search', 'findall', 'split', 'sub', 'call', 'subn', 'finditer']


def gen_lazy(rng, n):
    ops = []
    for _ in range(n):
        ops.append((rng.choice(LAZY_METHODS), rng.choice(LAZY_TEXTS)))
    return ops


def _canon(x):
    if x is None or isinstance(x, (str, int)):
        return x
    if isinstance(x, re.Match):
        return ['match', x.span(), x.groups(), x.groupdict()]
    if isinstance(x, (list, tuple)):
        return [_canon(y) for y in x]
    return [_canon(y) for y in x]       # iterator


def _call(obj, meth, text):
    if meth == 'call':
        return obj(text) if not isinstance(obj, re.Pattern) else obj.match(text)
    if meth in ('sub', 'subn'):
        return getattr(obj, meth)('-', text)
    return getattr(obj, meth)(text)


def run_lazy(req):
    """every pattern of the catalogue and a sample of the real profile patterns: the same calls on a LazyRegex and on
    `re.compile(pattern, flags)`"""
    import cssutils
    from cssutils.util import LazyRegex
    out = []
    objs = [(p, f, LazyRegex(p, f)) for p, f in LAZY_PATTERNS]
    for prof, name in req.get('profile_props', []):
        lz = cssutils.profile._profilesProperties.get(prof, {}).get(name)
        if isinstance(lz, LazyRegex):
            objs.append((lz.pattern, lz.flags, lz))
    for (p, f, lz), ops in zip(objs, req['ops']):
        try:
            ref = re.compile(p, f)
            refinfo = {'ok': True, 'flags': ref.flags, 'groups': ref.groups}
        except re.error:
            ref, refinfo = None, {'ok': False}
        steps = []
        init = {'set': lz.matcher is not None, 'flags': int(lz.flags), 'groups': lz.groups}
        for meth, text in ops:
            try:
                got = ['ok', _canon(_call(lz, meth, text))]
            except re.error:
                got = ['err', None]
            except AttributeError as e:
                got = ['attr', str(e)]
            if ref is not None:
                want = ['ok', _canon(_call(ref, meth, text))]
            else:
                want = ['err', None]
            steps.append({'got': got, 'want': want, 'set': lz.matcher is not None, 'flags': int(lz.flags),
                          'groups': lz.groups, 'pattern_kept': lz.pattern == p})
        out.append({'pattern': p, 'flags0': int(f), 'ref': refinfo, 'steps': steps, 'init': init})
    return out


# -- finding C12-capture-sheets-shared -------------------------------------------------------------------------------------
def run_capture(req):
    """two parser objects, two documents: what the second one reports must not contain the first document's sheets"""
    from cssutils.script import CSSCaptureHTMLParser
    a = CSSCaptureHTMLParser()
    a.feed('<html><style type="text/css">a{}</style></html>')
    b = CSSCaptureHTMLParser()
    b.feed('<html><p>no style here</p></html>')
    return {'first_parser_sees': len(a.sheets), 'second_parser_sees': len(b.sheets)}
