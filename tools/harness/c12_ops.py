"""C12, history part: the vocabulary of process-level operations, their realisation on the implementation
(`Runner.execute`), their rendering as a step of the Lean model (`model_step`), and the generators.

An *op* is a JSON-able dict. Ops with a `model` rendering are used for the correspondence (model vs
implementation, observation by observation); all ops are used by the implementation-side oracle
(global snapshot around every call, probe battery after arbitrary prefixes vs. after the explicit settings alone).
"""
import itertools
import os
import sys
import tempfile
import types

# ----------------------------------------------------------------------------------------------
# catalogue: text -> sequence of log calls the body makes, as a string of neverraise flags ('1' = neverraise=True).
# The flags are MODEL INPUT (the body script of the step); `calibrate` re-measures them on the implementation on every
# run (in a process of its own, with a wrapped log handler) and the check reports a correspondence break if they moved.
SHEETS = {
    'a{color:red}': '1',
    '': '',
    '/*c*/': '',
    '@media print{a{color:red}}': '1',
    'a{color}': '000',
    'a{color:red;;x}': '11000',
    '}{': '000000',
    '@media {a{b:c}}': '001',
    'a{x:1}': '1',
    '@page{margin:0}': '1',
}
STYLES = {
    'color:red': '1',
    '': '',
    'color:red;top:0': '11',
    'color': '000',
    'color:red;;x': '11000',
    'a{color:red}': '000',
}
DIRECT = {
    # name -> (python expression run in the global mode, flags)
    'MQ screen': ("cssutils.stylesheets.MediaQuery('screen')", ''),
    'MQ screen foo': ("cssutils.stylesheets.MediaQuery('screen foo')", '0'),
    'MQ foo': ("cssutils.stylesheets.MediaQuery('foo')", '000'),
    'ML screen foo': ("cssutils.stylesheets.MediaList('screen foo')", '0'),
    'ML screen, print': ("cssutils.stylesheets.MediaList('screen, print')", ''),
    'PV red;': ("cssutils.css.PropertyValue('red;')", ''),
    'PV f(': ("cssutils.css.PropertyValue('f(')", '00'),
    'Sel a b': ("cssutils.css.Selector('a b')", ''),
    'Sel {{': ("cssutils.css.Selector('{{')", '000'),
    'Decl color': ("cssutils.css.CSSStyleDeclaration('color')", '000'),
    'Decl ok': ("cssutils.css.CSSStyleDeclaration('color:red')", '1'),
    'sheet.cssText ok': ("setattr(cssutils.css.CSSStyleSheet(), 'cssText', 'a{color:red}')", '1'),
    'sheet.cssText bad': ("setattr(cssutils.css.CSSStyleSheet(), 'cssText', 'a{color}')", '000'),
    'edit selectorText': ("setattr(_SHEET.cssRules[0], 'selectorText', '{{')", '0000'),
    'edit setProperty': ("_SHEET.cssRules[0].style.setProperty('color', 'blue')", ''),
}
# imported sheets served by the test fetchers: kind -> (content or behaviour, flags of the imported sheet's body)
IMPORTED = {
    'ok': ('b{color:blue}', '1'),
    'dirty': ('b{color:blue;;}}{', '110000'),
}
FETCHERS = ['none', 'ok', 'dirty', 'nothing', 'badbytes', 'raise-os', 'raise-value', 'raise-rt', 're-ok', 're-dirty']
# (csscombine(cssText='') calls sys.exit: an empty text counts as "no source given", script.py:360)
COMBINE_TEXTS = ['a{color:red}', '/*c*/', '@media print{a{color:red}}', '@page{margin:0}']
RULES = ['a{x:1}', 'a.x{x:1}', 'a.x.y{x:1}', 'b{x:1}', 'a b{x:1}', 'a,b{x:1}', 'a.x,b.y.z{x:1}', '#i{x:1}']
PREFS = [('indent', ['    ', '  ', '\t']), ('keepComments', [True, False]), ('omitLastSemicolon', [True, False]),
         ('lineSeparator', ['\n', '\r\n'])]
BAD_BYTES = b'\xff\xfe\xff'


def flags_steps(flags):
    return ' '.join('log%s' % f for f in flags)


# ----------------------------------------------------------------------------------------------
# rendering of an op as a model step (tokens separated by blanks; see Drv/C12.lean)
def fetch_model(kind, parser_raising_ctx=None):
    """(inner steps, result code, sub steps) of one fetcher call"""
    if kind == 'ok':
        return '', 'C', flags_steps(IMPORTED['ok'][1])
    if kind == 'dirty':
        return '', 'C', flags_steps(IMPORTED['dirty'][1])
    if kind in ('nothing', 'badbytes'):
        return '', 'N', ''
    if kind == 'raise-os':
        return '', 'Ru1', ''
    if kind == 'raise-value':
        return '', 'Ru1', ''
    if kind == 'raise-rt':
        return '', 'Ru0', ''
    if kind == 're-ok':
        # the fetcher itself calls cssutils.parseString('x{color:red}') and CSSStyleDeclaration('color:red')
        return 'pstr L - s ( log1 ) direct ( log1 )', 'C', flags_steps(IMPORTED['ok'][1])
    if kind == 're-dirty':
        # the fetcher calls CSSStyleDeclaration('color') (three raising log calls) in whatever mode is current
        return 'direct ( log0 log0 log0 )', 'C', flags_steps(IMPORTED['ok'][1])
    raise ValueError(kind)


def body_model(op):
    """body script of a sheet parse: an @import first when the op asks for one, then the text's own log calls"""
    parts = []
    if op.get('imp'):
        inner, res, sub = fetch_model(op['fetcher'])
        parts.append('imp ( %s ) %s ( %s )' % (inner, res, sub))
    parts.append(flags_steps(op['flags']))
    return ' '.join(p for p in parts if p)


def model_step(op):
    k = op['op']
    if k == 'setMode':
        return 'mode%d' % op['v']
    if k == 'setPref':
        return 'pref %d %d' % (op['i'], op['v'])
    if k == 'setIndent':
        return 'ind%d' % op['v']
    if k == 'newSer':
        return 'newser'
    if k in ('addProfile', 'removeProfile'):
        return 'prof %s' % ('+'.join(str(x) for x in op['result']) or '-')
    if k == 'newParser':
        return 'newp %d%d' % (1 if op.get('raising') else 0, 1 if op.get('pvalidate', True) else 0)
    if op.get('pobj') is not None:
        p = 'o%d' % op['pobj']
    else:
        # a parser made for this call: CSSParser(raiseExceptions=…, validate=…) or the module-level helper
        p = 'f%d%d' % (1 if op.get('raising') else 0, 1 if op.get('pvalidate', True) else 0)
    v = {None: '-', False: '0', True: '1'}[op.get('validate')]
    inp = {'str': 's', 'bytes': 'b', 'bad': 'x'}.get(op.get('inp', 'str'))
    if k == 'parseString':
        return 'pstr %s %s %s ( %s )' % (p, v, inp, body_model(op))
    if k == 'parseStyle':
        return 'psty %s %s %s ( %s )' % (p, v, inp, flags_steps(op['flags']))
    if k == 'parseFile':
        return 'pfile %s %s %d %s ( %s )' % (p, v, 1 if op['found'] else 0, inp, body_model(op))
    if k == 'parseUrl':
        inner, res, _sub = fetch_model(op['fetcher'])
        return 'purl %s %s ( %s ) %s s ( %s )' % (p, v, inner, res,
                                                flags_steps(IMPORTED[op['fetcher'] if op['fetcher'] in IMPORTED else 'ok'][1]))
    if k == 'direct':
        return 'direct ( %s )' % flags_steps(op['flags'])
    if k == 'combine':
        post = 'log0' if op.get('bogus') else ''
        return 'comb pstr L - s ( %s ) ( %s ) ( )' % (flags_steps(op['flags']), post)
    if k == 'serialize':
        return 'ser %s' % ','.join(op['recs'])
    return None


# ----------------------------------------------------------------------------------------------
class Runner:
    """executes ops on the implementation in THIS process and observes the process-wide state"""

    def __init__(self):
        import cssutils
        import cssutils.script
        from cssutils import prodparser
        self.cssutils = cssutils
        self.prodparser = prodparser
        # messages are part of what a caller observes: collect WARNING and above instead of printing them (the same
        # in every worker process; handlers and level are not part of the modelled state)
        import logging
        self.messages = []
        runner = self

        class Collect(logging.Handler):
            def emit(self, record):
                runner.messages.append('%s %s' % (record.levelname, record.getMessage()))
        lg = cssutils.log._log
        for h in list(lg.handlers):
            lg.removeHandler(h)
        lg.addHandler(Collect())
        lg.propagate = False
        cssutils.log.setLevel(logging.WARNING)
        self.seen = []           # the ONE list every test fetcher appends to; cleared before each op
        self.pobjs = []          # long-lived CSSParser objects (with what they were created from)
        self.tmp = tempfile.mkdtemp(prefix='c12-')
        self.files = {}
        self.sers = [cssutils.ser]
        self.rules = {}
        self.profile_names = {}
        self.sheet = None

    # -- fetchers -------------------------------------------------------------------------------
    def fetcher(self, kind):
        cssutils = self.cssutils
        seen = self.seen

        def f(url):
            seen.append(bool(cssutils.log.raiseExceptions))
            if kind == 'ok':
                return (None, IMPORTED['ok'][0])
            if kind == 'dirty':
                return (None, IMPORTED['dirty'][0])
            if kind == 'nothing':
                return None
            if kind == 'badbytes':
                return ('utf-8', BAD_BYTES)
            if kind == 'raise-os':
                raise OSError('fetcher: no such thing')
            if kind == 'raise-value':
                raise ValueError('fetcher: bad value')
            if kind == 'raise-rt':
                raise RuntimeError('fetcher: boom')
            if kind == 're-ok':
                cssutils.parseString('x{color:red}')
                cssutils.css.CSSStyleDeclaration('color:red')
                return (None, IMPORTED['ok'][0])
            if kind == 're-dirty':
                cssutils.css.CSSStyleDeclaration('color')
                return (None, IMPORTED['ok'][0])
            raise AssertionError(kind)
        return f

    def make_parser(self, raising, pvalidate, fetcher):
        kw = {}
        if raising is not None:
            kw['raiseExceptions'] = raising
        if pvalidate is not None and pvalidate is not True:
            kw['validate'] = pvalidate
        if fetcher != 'none':
            kw['fetcher'] = self.fetcher(fetcher)
        return self.cssutils.CSSParser(**kw)

    def parser_state(self, p):
        """every attribute of a CSSParser object (the tokenizer by its own attributes, the fetcher by identity)"""
        out = {}
        for k, v in sorted(vars(p).items()):
            if k.endswith('__tokenizer'):
                out[k] = sorted((a, repr(b) if not callable(b) and not isinstance(b, list) else
                                 (len(b) if isinstance(b, list) else 'callable')) for a, b in vars(v).items())
            elif callable(v):
                out[k] = 'callable@%d' % id(v)
            else:
                out[k] = repr(v)
        return out

    def file(self, name, data):
        if name not in self.files:
            path = os.path.join(self.tmp, name)
            with open(path, 'wb') as f:
                f.write(data)
            self.files[name] = path
        return self.files[name]

    # -- observation ------------------------------------------------------------------------------
    def read_pushed(self):
        t = self.prodparser.tokenizer
        p = t._pushed
        if isinstance(p, list):
            return [list(x) for x in p]
        items = list(p)
        t._pushed = itertools.chain(items)
        return [list(x) for x in items]

    def state(self):
        cssutils = self.cssutils
        ser = cssutils.ser
        if not any(ser is s for s in self.sers):
            self.sers.append(ser)
        prefs = []
        for name, vals in PREFS:
            v = getattr(ser.prefs, name)
            prefs.append(vals.index(v) if v in vals else -1)
        return {
            'raising': bool(cssutils.log.raiseExceptions),
            'saved': [list(t) for t in self.prodparser.savedTokens],
            'pushed': self.read_pushed(),
            'ser': [i for i, s in enumerate(self.sers) if s is ser][0],
            'prefs': prefs,
            'allprefs': sorted((k, repr(v)) for k, v in vars(ser.prefs).items()),
            'indent': bool(ser.prefs.indentSpecificities),
            'sel_level': ser._selectorlevel,
            'n_sel': len(ser._selectors),
            'level': ser._level,
            'profiles': list(cssutils.profile.profiles),
            'default_profiles': repr(cssutils.profile.defaultProfiles),
            'parsers': ['%d%d' % (bool(p._CSSParser__parseRaising), bool(p._validate)) for p, _ in self.pobjs],
            'parser_objects': [self.parser_state(p) for p, _ in self.pobjs],
        }

    # -- ops ----------------------------------------------------------------------------------------
    def execute(self, op):
        """returns {'out': 'ok' | 'none' | 'raised:<Class>', 'seen': [...], ...}"""
        k = op['op']
        del self.seen[:]
        del self.messages[:]
        out = 'ok'
        extra = {}
        try:
            r = self._do(op, extra)
            if r is None and k == 'parseUrl':
                out = 'none'
            elif k in ('parseString', 'parseStyle', 'parseFile', 'parseUrl'):
                extra['validating'] = bool(r.validating)
        except BaseException as e:      # noqa: B902 -- the class is the observation
            if isinstance(e, (KeyboardInterrupt, SystemExit)):
                raise
            out = 'raised:%s' % type(e).__name__
            extra['msg'] = str(e)[:120]
        res = {'out': out, 'seen': list(self.seen)}
        res.update(extra)
        return res

    def _do(self, op, extra):
        cssutils = self.cssutils
        k = op['op']
        if k == 'setMode':
            cssutils.log.raiseExceptions = bool(op['v'])
            return True
        if k == 'setPref':
            name, vals = PREFS[op['i']]
            setattr(cssutils.ser.prefs, name, vals[op['v']])
            return True
        if k == 'setIndent':
            cssutils.ser.prefs.indentSpecificities = bool(op['v'])
            return True
        if k == 'newSer':
            cssutils.setSerializer(cssutils.CSSSerializer())
            return True
        if k == 'addProfile':
            cssutils.profile.addProfile(op['name'], {'-c12-x': 'a|b'})
            return True
        if k == 'removeProfile':
            cssutils.profile.removeProfile(op['name'])
            return True
        if k == 'newParser':
            self.pobjs.append((self.make_parser(op.get('raising'), op.get('pvalidate', True), op.get('fetcher', 'none')), op))
            return True
        if k == 'pcall':
            return self.pcall(op, extra)
        if k in ('parseString', 'parseStyle', 'parseFile', 'parseUrl'):
            fetcher = op.get('fetcher', 'none')
            if op.get('helper'):
                target = cssutils
            elif op.get('pobj') is not None:
                target = self.pobjs[op['pobj']][0]
            else:
                target = self.make_parser(op.get('raising'), op.get('pvalidate', True), fetcher)
            text = op.get('text', '')
            if op.get('imp'):
                text = '@import "u.css";' + text
            kw = {}
            if op.get('validate') is not None:
                kw['validate'] = op['validate']
            if k == 'parseString':
                data = text
                if op.get('inp') == 'bytes':
                    data = text.encode('utf-8')
                elif op.get('inp') == 'bad':
                    data = BAD_BYTES
                    kw['encoding'] = 'utf-8'
                if op.get('imp'):
                    kw['href'] = 'http://c12.invalid/base/'
                return target.parseString(data, **kw)
            if k == 'parseStyle':
                data = text
                if op.get('inp') == 'bytes':
                    data = text.encode('utf-8')
                elif op.get('inp') == 'bad':
                    data = BAD_BYTES
                return target.parseStyle(data, **kw)
            if k == 'parseFile':
                if not op['found']:
                    return target.parseFile(os.path.join(self.tmp, 'does-not-exist.css'), **kw)
                if op.get('inp') == 'bad':
                    return target.parseFile(self.file('bad.css', BAD_BYTES), encoding='utf-8', **kw)
                name = 'f%d.css' % (abs(hash(text)) % 100000)
                return target.parseFile(self.file(name, text.encode('utf-8')), href='http://c12.invalid/base/x.css', **kw)
            if k == 'parseUrl':
                return target.parseUrl('http://c12.invalid/u.css', **kw)
        if k == 'direct':
            if self.sheet is None or len(self.sheet.cssRules) != 1:
                self.sheet = None
            env = {'cssutils': cssutils, '_SHEET': self._edit_sheet()}
            eval(op['expr'], env)
            return True
        if k == 'ctor':
            # oracle only: a constructor / setter with arbitrary text
            env = {'cssutils': cssutils, 'T': op['text'], '_SHEET': self._edit_sheet()}
            eval(op['expr'], env)
            return True
        if k == 'combine':
            import cssutils.script
            kw = {}
            if op.get('bogus'):
                kw['targetencoding'] = 'bogus'
            if op.get('minify') is not None:
                kw['minify'] = bool(op['minify'])
            extra['text'] = repr(cssutils.script.csscombine(cssText=op['text'], **kw))
            return True
        if k == 'serialize':
            # ONE sheet with these style rules; the level of each rule is read off the text
            sheet = self.sheet_of(op['rules'])
            text = sheet.cssText.decode('utf-8')
            unit = cssutils.ser.prefs.indent
            levels = []
            lines = [ln.rstrip('\r') for ln in text.split('\n')]
            for rt in op['rules']:
                sel = rt[:rt.index('{')].replace(',', ', ')
                lvl = None
                for ln in lines:
                    body = ln.lstrip(' \t')
                    if body.startswith(sel + ' {') or body.startswith(sel + '{'):
                        pre = ln[:len(ln) - len(body)]
                        lvl = (len(pre) // len(unit)) if unit and pre == unit * (len(pre) // len(unit)) else (0 if not pre else -1)
                        break
                levels.append(lvl)
            extra['levels'] = levels
            extra['ser_state'] = [cssutils.ser._selectorlevel, len(cssutils.ser._selectors)]
            return True
        if k == 'sertext':
            extra['text'] = repr(cssutils.CSSParser().parseString(op['text']).cssText)
            return True
        if k == 'resolve':
            sheet = self.make_parser(False, True, op.get('fetcher', 'ok')).parseString(
                '@import "u.css";a{color:red}', href='http://c12.invalid/base/')
            extra['text'] = repr(cssutils.resolveImports(sheet).cssText)
            return True
        raise ValueError('unknown op %r' % (op,))

    def _edit_sheet(self):
        # a small sheet for DOM edits; made by direct construction so that no parser mode is involved
        if self.sheet is None:
            old = self.cssutils.log.raiseExceptions
            self.cssutils.log.raiseExceptions = False
            try:
                s = self.cssutils.css.CSSStyleSheet()
                s.cssText = 'a{color:red}'
            finally:
                self.cssutils.log.raiseExceptions = old
            self.sheet = s
        return self.sheet

    def sheet_of(self, rules):
        key = tuple(rules)
        if key not in self.rules:
            old = self.cssutils.log.raiseExceptions
            self.cssutils.log.raiseExceptions = False
            try:
                s = self.cssutils.css.CSSStyleSheet()
                s.cssText = ' '.join(rules)
            finally:
                self.cssutils.log.raiseExceptions = old
            self.rules[key] = s
        return self.rules[key]

    # -- one parser object, reused: the same call on the long-lived object and on a twin made for this call ----------
    REUSE_SHEET = 'a { color: 1px; top: red; left: 0 } @media print { b { margin: red } } \u00e9 { x: "\u00e9" }'
    REUSE_STYLE = 'color: 1px; margin: red; left: 0'

    def summary(self, r):
        """everything a caller can see of what an entry point returned, plus the messages it logged"""
        if r is None:
            return {'result': None, 'messages': list(self.messages)}
        out = {'cssText': repr(r.cssText), 'validating': bool(r.validating), 'messages': list(self.messages)}
        if hasattr(r, 'cssRules'):
            def styles(rules):
                for rule in rules:
                    if hasattr(rule, 'style'):
                        yield rule.style
                    if hasattr(rule, 'cssRules'):
                        yield from styles(rule.cssRules)
            out['decl_validating'] = [bool(st.validating) for st in styles(r.cssRules)]
            out['valid'] = [[bool(pr.valid) for pr in st.getProperties(all=True)] for st in styles(r.cssRules)]
            out['href'] = r.href
            out['media'] = r.media.mediaText if r.media is not None else None
            out['title'] = r.title
            out['encoding'] = r.encoding
        else:
            out['valid'] = [bool(pr.valid) for pr in r.getProperties(all=True)]
        return out

    def pcall(self, op, extra):
        parser, spec = self.pobjs[op['pobj']]
        twin = self.make_parser(spec.get('raising'), spec.get('pvalidate', True), spec.get('fetcher', 'none'))
        kw = dict(op.get('args') or {})
        entry = op['entry']

        def call(p):
            del self.messages[:]
            try:
                if entry == 'parseStyle':
                    data = self.REUSE_STYLE
                    if 'encoding' in kw:
                        data = data.encode(kw['encoding'])
                    return self.summary(p.parseStyle(data, **kw))
                if entry == 'parseString':
                    data = self.REUSE_SHEET
                    if 'encoding' in kw:
                        data = data.encode(kw['encoding'])
                    return self.summary(p.parseString(data, **kw))
                if entry == 'parseFile':
                    enc = kw.get('encoding') or 'utf-8'
                    path = self.file('reuse-%s.css' % enc, self.REUSE_SHEET.encode(enc))
                    return self.summary(p.parseFile(path, **kw))
                if entry == 'parseUrl':
                    return self.summary(p.parseUrl('http://c12.invalid/reuse.css', **kw))
            except Exception as e:      # noqa: B902
                return {'raised': type(e).__name__, 'messages': list(self.messages)}
            raise ValueError(entry)
        extra['reused'] = call(parser)
        extra['twin'] = call(twin)
        return True

    def rule(self, text):
        if text not in self.rules:
            old = self.cssutils.log.raiseExceptions
            self.cssutils.log.raiseExceptions = False
            try:
                s = self.cssutils.css.CSSStyleSheet()
                s.cssText = text
            finally:
                self.cssutils.log.raiseExceptions = old
            self.rules[text] = s.cssRules[0]
        return self.rules[text]

    def selrec(self, text, table):
        """what do_CSSStyleRule looks at, as model input: `elements:spec;spec` with elements mapped to numbers"""
        rule = self.rule(text)
        els = []
        for s in rule.selectorList:
            e = repr(s.element)
            if e not in table:
                table[e] = len(table) + 1
            if table[e] not in els:
                els.append(table[e])
        specs = ['.'.join(str(x) for x in s.specificity) for s in rule.selectorList]
        return '%s:%s' % ('+'.join(map(str, els)) or '-', ';'.join(specs) or '-')


# ----------------------------------------------------------------------------------------------
# generators
PARSER_KINDS = [(None, True), (True, True), (None, False), (False, True), (True, False)]


def gen_modelled_history(rng, n, n_base_profiles=0, indent_ok=False):
    """ops that all have a model rendering; starts by setting the error mode explicitly and by creating the parser
    objects that are reused through the whole history"""
    mode = rng.randint(0, 1)
    ops = [{'op': 'setMode', 'v': mode}]
    pobjs = []
    for _ in range(rng.randint(2, 4)):
        raising, pv = rng.choice(PARSER_KINDS)
        spec = {'op': 'newParser', 'raising': raising, 'pvalidate': pv, 'fetcher': rng.choice(FETCHERS)}
        pobjs.append(spec)
        ops.append(spec)
    profiles_extra = []

    def prof_result():
        return list(range(n_base_profiles)) + [n_base_profiles + ['c12-p1', 'c12-p2'].index(x) for x in profiles_extra]

    def choose_parser(op, need_fetcher=False):
        """a long-lived object (mostly), a parser made for the call, or the module-level helper"""
        r = rng.random()
        cands = [i for i, sp in enumerate(pobjs) if not need_fetcher or sp['fetcher'] != 'none']
        if r < 0.65 and cands:
            i = rng.choice(cands)
            op['pobj'] = i
            op['raising'] = pobjs[i]['raising']
            op['pvalidate'] = pobjs[i]['pvalidate']
            op['fetcher'] = pobjs[i]['fetcher']
        elif r < 0.85 or need_fetcher:
            op['raising'], op['pvalidate'] = rng.choice(PARSER_KINDS)
            op['fetcher'] = rng.choice([x for x in FETCHERS if x != 'none']) if need_fetcher else rng.choice(FETCHERS)
        else:
            op['helper'] = True
            op['raising'], op['pvalidate'], op['fetcher'] = None, True, 'none'
        op['validate'] = rng.choice([None, None, True, False])
        return op
    for _ in range(n):
        r = rng.random()
        if r < 0.08:
            mode = rng.randint(0, 1)
            ops.append({'op': 'setMode', 'v': mode})
        elif r < 0.12:
            i = rng.randrange(len(PREFS))
            ops.append({'op': 'setPref', 'i': i, 'v': rng.randrange(len(PREFS[i][1]))})
        elif r < 0.14:
            ops.append({'op': 'newSer'})
        elif r < 0.17 and indent_ok:
            ops.append({'op': 'setIndent', 'v': rng.randint(0, 1)})
        elif r < 0.20:
            name = rng.choice(['c12-p1', 'c12-p2'])
            if name in profiles_extra:
                profiles_extra.remove(name)
                ops.append({'op': 'removeProfile', 'name': name, 'result': prof_result()})
            else:
                profiles_extra.append(name)
                ops.append({'op': 'addProfile', 'name': name, 'result': prof_result()})
        elif r < 0.45:
            ops.append(gen_parse_string(rng, choose_parser))
        elif r < 0.55:
            text = rng.choice(list(STYLES))
            op = choose_parser({'op': 'parseStyle', 'text': text, 'flags': STYLES[text],
                                'inp': rng.choice(['str', 'str', 'bytes', 'bad'])})
            ops.append(op)
        elif r < 0.63:
            op = gen_parse_string(rng, choose_parser)
            if op.get('helper'):
                op.pop('imp', None)
            op['op'] = 'parseFile'
            op['found'] = rng.random() < 0.8
            op['inp'] = rng.choice(['bytes', 'bytes', 'bad'])
            ops.append(op)
        elif r < 0.72:
            op = choose_parser({'op': 'parseUrl'}, need_fetcher=True)
            ops.append(op)
        elif r < 0.84:
            name = rng.choice(list(DIRECT))
            ops.append({'op': 'direct', 'name': name, 'expr': DIRECT[name][0], 'flags': DIRECT[name][1]})
        elif r < 0.90:
            text = rng.choice(COMBINE_TEXTS)
            ops.append({'op': 'combine', 'text': text, 'flags': SHEETS[text], 'bogus': bool(mode) and rng.random() < 0.3,
                        'minify': rng.choice([True, False])})
        else:
            ops.append({'op': 'serialize', 'rules': rng.sample(RULES, rng.randint(1, 4))})
    return ops


def add_recs(ops, recs):
    for op in ops:
        if op['op'] == 'serialize':
            op['recs'] = [recs[r] for r in op['rules']]
    return ops


def gen_parse_string(rng, choose_parser):
    text = rng.choice(list(SHEETS))
    op = choose_parser({'op': 'parseString', 'text': text, 'flags': SHEETS[text],
                        'inp': rng.choice(['str', 'str', 'str', 'bytes', 'bad'])})
    if op['fetcher'] != 'none' and rng.random() < 0.6:
        op['imp'] = True
    return op


BAD_TEXTS = ['screen foo', 'screen and', '(', 'not', 'a;b', 'red;', '1px;2', 'f(', 'rgb(1,', 'var(', 'calc(1+', 'url(', '"a',
             'a,,b', ';', '{{', '}', 'x:1;;', '@media', 'screen and (min-width: 1px) x', 'print, foo bar', '/*', '\\',
             'a{b:c}', '@top-left { x:1 } }', 'a:1; b: 2;', 'color: red; ; x', '!important', '']
CTORS = [
    "cssutils.stylesheets.MediaQuery(T)",
    "cssutils.stylesheets.MediaList(T)",
    "cssutils.stylesheets.MediaList().appendMedium(T)",
    "cssutils.css.Selector(T)",
    "cssutils.css.SelectorList(T)",
    "cssutils.css.PropertyValue(T)",
    "cssutils.css.Property('color', T)",
    "cssutils.css.CSSStyleDeclaration(T)",
    "cssutils.css.CSSStyleDeclaration('a:' + T)",
    "cssutils.css.CSSVariablesDeclaration(T)",
    "cssutils.css.CSSVariablesDeclaration('a:' + T)",
    "cssutils.css.MarginRule('@top-left', T)",
    "cssutils.css.CSSPageRule(':first', T)",
    "cssutils.css.CSSMediaRule(T)",
    "cssutils.css.CSSImportRule(mediaText=T)",
    "cssutils.css.CSSStyleRule(T, T)",
    "cssutils.css.Value(T)", "cssutils.css.ColorValue(T)", "cssutils.css.DimensionValue(T)",
    "cssutils.css.URIValue(T)", "cssutils.css.CSSFunction(T)", "cssutils.css.CSSCalc(T)", "cssutils.css.CSSVariable(T)",
    "setattr(cssutils.css.CSSStyleSheet(), 'cssText', T)",
    "setattr(_SHEET.cssRules[0], 'selectorText', T)",
    "setattr(_SHEET.cssRules[0].style, 'cssText', T)",
    "_SHEET.cssRules[0].style.setProperty('color', T)",
    "setattr(cssutils.stylesheets.MediaList('print'), 'mediaText', T)",
    "setattr(cssutils.stylesheets.MediaQuery('print'), 'mediaText', T)",
    # a query object that was created as a member of a list, used on its own afterwards
    "setattr(cssutils.stylesheets.MediaList('screen, print')[0], 'mediaText', T)",
    "setattr(cssutils.parseString('@media screen, tv {a{b:c}}').cssRules[0].media[1], 'mediaText', T)",
    "setattr(cssutils.parseString('@import \"x\" print;').cssRules[0].media[0], 'mediaText', T)",
    "_SHEET.insertRule(T)",
    "cssutils.parseString('@media ' + T + ' {a{b:c}}')",
    "cssutils.parseString('a{color:' + T + '}')",
    "cssutils.parseString('@import \"x\" ' + T + ';')",
    "cssutils.parseStyle(T)",
    "cssutils.parseString('@page{margin:0;@top-left{' + T + '}}')",
    "cssutils.parseString('@variables{a:' + T + '}')",
]


PCALL_ARGS = {
    'validate': [True, False],
    'encoding': ['utf-8', 'latin-1'],
    'href': ['http://c12.invalid/h/x.css'],
    'media': ['print', 'screen, tv'],
    'title': ['T'],
}
PCALL_ENTRIES = {
    'parseStyle': ['validate', 'encoding'],
    'parseString': ['validate', 'encoding', 'href', 'media', 'title'],
    'parseFile': ['validate', 'encoding', 'href', 'media', 'title'],
    'parseUrl': ['validate', 'encoding', 'media', 'title'],
}
CONTENT_FETCHERS = ('ok', 'dirty', 're-ok')


def gen_pcall(rng, pobjs, plain=False):
    """one call on a long-lived parser object; `plain` = without any per-call argument"""
    i = rng.randrange(len(pobjs))
    entries = [e for e in PCALL_ENTRIES if e != 'parseUrl' or pobjs[i]['fetcher'] in CONTENT_FETCHERS]
    entry = rng.choice(entries)
    args = {}
    if not plain:
        for name in PCALL_ENTRIES[entry]:
            if rng.random() < 0.45:
                args[name] = rng.choice(PCALL_ARGS[name])
    return {'op': 'pcall', 'pobj': i, 'entry': entry, 'args': args}


def gen_oracle_history(rng, n, explicit=True, indent=False):
    """anything goes: modelled ops plus constructors / setters with malformed text in both modes, plus calls with
    and without per-call arguments on the long-lived parser objects"""
    ops = []
    base = gen_modelled_history(rng, n, indent_ok=indent)
    pobjs = [op for op in base if op['op'] == 'newParser']
    if indent:
        # the EXPERIMENTAL preference switched on early, sheets with style rules serialised after it
        at = rng.randint(len(pobjs) + 1, max(len(pobjs) + 1, len(base) // 3))
        base.insert(at, {'op': 'setIndent', 'v': 1})
        for _ in range(4):
            base.insert(rng.randint(at + 1, len(base)), {'op': 'serialize', 'rules': rng.sample(RULES, rng.randint(1, 4))})
    for op in base:
        if not explicit and op['op'] in ('setMode', 'setPref', 'newSer', 'addProfile', 'removeProfile', 'setIndent'):
            continue
        ops.append(op)
        if op['op'] == 'newParser':
            continue
        if rng.random() < 0.5:
            ops.append({'op': 'ctor', 'expr': rng.choice(CTORS), 'text': rng.choice(BAD_TEXTS)})
        if rng.random() < 0.35:
            ops.append(gen_pcall(rng, pobjs, plain=rng.random() < 0.5))
        if rng.random() < 0.08:
            ops.append({'op': 'resolve', 'fetcher': rng.choice(['ok', 'dirty', 'nothing', 'raise-os'])})
        if rng.random() < 0.12:
            ops.append({'op': 'battery'})
    for _ in range(3):
        ops.append(gen_pcall(rng, pobjs, plain=True))
    ops.append({'op': 'battery'})
    return ops


def is_explicit(op):
    return op['op'] in ('setMode', 'setPref', 'newSer', 'addProfile', 'removeProfile', 'setIndent', 'newParser')


# ----------------------------------------------------------------------------------------------
# the probe battery (implementation only)
BATTERY_SHEETS = [
    'a{color:red}',
    '@media screen and (min-width: 10px), print {a{margin:0 1px}}',
    '@import "u.css" screen, tv; a{background:url(x.png) no-repeat, red; font: 12px/1.5 "A B", serif}',
    '@page :first{margin:0;@top-left{content:"x"}}',
    '@variables{a:1px;b:2px} a{top:var(a);left:calc(1px + 2px)}',
    'a{color:red;;x} }{ @media {a{b:c}}',
    '@namespace p "u"; p|a > b + c ~ d[x|y="1"]:not(.z)::after{color:rgb(1,2,3)}',
    '/*c*/ a.x{y:1} a.x.y{y:2} b{c:d}',
    'e{} f{/*only a comment*/} @media print{g{}} @font-face{} h{i:j}',
    '@page{} @page :left{margin:1px} k{l:m}',
]
BATTERY_CTORS = [
    ("cssutils.stylesheets.MediaList(T).mediaText", 'screen, print and (min-width: 1px)'),
    ("cssutils.stylesheets.MediaQuery(T).mediaText", 'not screen and (color)'),
    ("cssutils.css.PropertyValue(T).cssText", '1px solid red'),
    ("cssutils.css.PropertyValue(T).cssText", 'a, b / c'),
    ("cssutils.css.Selector(T).selectorText", 'a > b'),
    ("cssutils.css.CSSStyleDeclaration(T).cssText", 'color:red;top:0 !important'),
    ("cssutils.css.CSSVariablesDeclaration(T).cssText", 'a: 1; b: 2'),
    ("cssutils.css.MarginRule('@top-left', T).cssText", 'content: "x"'),
]


def battery_probes(runner):
    """fixed probes as (key, thunk) pairs; every result is a string. Uses fresh parser objects AND parser objects that
    live as long as the process (parser objects are reusable); changes no explicit setting."""
    cssutils = runner.cssutils
    probes = []
    probes.append(('mode', lambda: repr(bool(cssutils.log.raiseExceptions))))
    probes.append(('saved', lambda: repr(runner.prodparser.savedTokens)))

    def fetch(url):
        return (None, 'i{color:blue}')

    def kept(raising):
        name = '_battery_parser_r' if raising else '_battery_parser'
        if not hasattr(runner, name):
            setattr(runner, name, cssutils.CSSParser(raiseExceptions=raising, fetcher=fetch))
        return getattr(runner, name)

    def parse_probe(mk, t):
        def run():
            try:
                return repr(mk().parseString(t, href='http://c12.invalid/b/').cssText)
            except Exception as e:      # noqa: B902
                return '!! %s: %s' % (type(e).__name__, str(e)[:100])
        return run
    for tag, mk in (('fresh', lambda: cssutils.CSSParser(fetcher=fetch)), ('kept', lambda: kept(False)),
                    ('kept-raising', lambda: kept(True))):
        for t in BATTERY_SHEETS:
            probes.append(('%s %r' % (tag, t), parse_probe(mk, t)))

    def ctor_probe(expr, t):
        def run():
            try:
                return repr(eval(expr, {'cssutils': cssutils, 'T': t}))
            except Exception as e:      # noqa: B902
                return '!! %s: %s' % (type(e).__name__, str(e)[:100])
        return run
    for expr, t in BATTERY_CTORS:
        probes.append(('%s [%r]' % (expr, t), ctor_probe(expr, t)))

    # a DOM edit that must raise when (and only when) the process is in raising mode
    def edit_probe(expr):
        def run():
            try:
                s = cssutils.css.CSSStyleSheet()
                try:
                    s.cssText = 'a{color:red}'
                except Exception:       # noqa: B902
                    pass
                eval(expr, {'cssutils': cssutils, 'S': s})
                return 'no exception; %r' % (s.cssText,)
            except Exception as e:      # noqa: B902
                return '!! %s' % type(e).__name__
        return run
    for expr in ("setattr(S.cssRules[0], 'selectorText', '{{')", "S.cssRules[0].style.setProperty('color', ';;')",
                 "S.insertRule('@charset \"x\";', 1)"):
        probes.append(('edit %s' % expr, edit_probe(expr)))
    probes.append(('mode-after', lambda: repr(bool(cssutils.log.raiseExceptions))))
    return probes


def battery(runner):
    """all probes one after the other in this process (after whatever happened before)"""
    return ['%s -> %s' % (k, f()) for k, f in battery_probes(runner)]


def battery_isolated(runner):
    """every probe in a forked copy of this process: each one is the FIRST library call after the explicit settings
    made so far. This is the reference the batteries of the histories are compared with."""
    out = []
    for k, f in battery_probes(runner):
        r, w = os.pipe()
        pid = os.fork()
        if pid == 0:
            code = 0
            try:
                os.close(r)
                data = ('%s -> %s' % (k, f())).encode('utf-8', 'backslashreplace')
                os.write(w, data)
                os.close(w)
            except BaseException:       # noqa: B902
                code = 1
            os._exit(code)
        os.close(w)
        chunks = []
        while True:
            b = os.read(r, 65536)
            if not b:
                break
            chunks.append(b)
        os.close(r)
        os.waitpid(pid, 0)
        out.append(b''.join(chunks).decode('utf-8', 'replace'))
    return out
