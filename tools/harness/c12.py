"""C12 — no hidden state: history-independent results, global modes restored.

models   lean/CssVerif/Model/GlobalsProd.lean (production engine + savedTokens + push-back queue)
         lean/CssVerif/Model/Globals.lean     (error mode, serializer, profiles; entry points, faults)
theorems lean/CssVerif/Props/C12.lean
tie      (a) tools/gen/c12_sites.py -> Gen/C12Sites.lean: every writer of process-wide state, `sites_as_modelled`
         (b) engine correspondence: random grammars x token streams x nested parsers x clean/dirty queues,
             real ProdParser vs model (outcome, wellformed, Seq projection, savedTokens, _pushed)
         (c) history correspondence: random call histories with injected faults in fresh processes vs model
             (outcome class, modes seen by fetchers, mode / serializer / preferences / profiles after every call)
oracle   (implementation only, fresh processes) snapshot of ALL module-level state around every call; explicit
         settings tracked separately; probe battery after arbitrary prefixes == battery after the explicit settings alone
"""
import concurrent.futures
import glob
import json
import os
import subprocess
import sys

from lib.framework import Check, TimeLimit
from harness import c12_engine as E
from harness import c12_ops as O
from harness import c12_memo as MM
from gen import c12_sites, c12_capture, c12_mutables

WORKER = os.path.join(os.path.dirname(os.path.abspath(__file__)), 'c12_worker.py')
KNOWN_INDENT = 'C12-indent-specificities'
KNOWN_CAPTURE = 'C12-capture-sheets-shared'

CLASS_MAP = {
    'SyntaxErr': 'dom', 'InvalidModificationErr': 'dom', 'HierarchyRequestErr': 'dom', 'NoModificationAllowedErr': 'dom',
    'IndexSizeErr': 'dom', 'NamespaceErr': 'dom', 'InvalidCharacterErr': 'dom', 'NotFoundErr': 'dom',
    'UnicodeDecodeError': 'decode', 'FileNotFoundError': 'os', 'OSError': 'user1', 'ValueError': 'user1',
    'RuntimeError': 'user0',
}

# histories that are always run (each in a fresh process): the three leaks of the pinned tree (DESIGN §6) and friends
FIXED = [
    ('decode-error-leaves-mode', [{'op': 'setMode', 'v': 1},
                                  {'op': 'parseString', 'text': 'a{color:red}', 'flags': '1', 'raising': None, 'inp': 'bad',
                                   'fetcher': 'none'}, {'op': 'battery'}]),
    ('style-decode-error-leaves-mode', [{'op': 'setMode', 'v': 1},
                                        {'op': 'parseStyle', 'text': 'color:red', 'flags': '1', 'raising': None, 'inp': 'bad'},
                                        {'op': 'battery'}]),
    ('parser-reused-after-mode-change', [{'op': 'setMode', 'v': 1},
                                         {'op': 'newParser', 'raising': True, 'pvalidate': True, 'fetcher': 'none'},
                                         {'op': 'parseString', 'text': 'a{color:red}', 'flags': '1', 'raising': True,
                                          'pobj': 0, 'inp': 'str', 'fetcher': 'none'},
                                         {'op': 'setMode', 'v': 0},
                                         {'op': 'parseString', 'text': 'a{color:red}', 'flags': '1', 'raising': True,
                                          'pobj': 0, 'inp': 'str', 'fetcher': 'none'}, {'op': 'battery'}]),
    ('raising-parser-raises', [{'op': 'setMode', 'v': 0},
                               {'op': 'parseString', 'text': 'a{color}', 'flags': '000', 'raising': True, 'inp': 'str',
                                'fetcher': 'none'}, {'op': 'battery'}]),
    ('fetcher-raises-in-import', [{'op': 'setMode', 'v': 1},
                                  {'op': 'parseString', 'text': '', 'flags': '', 'raising': None, 'inp': 'str', 'imp': True,
                                   'fetcher': 'raise-rt'}, {'op': 'battery'}]),
    ('fetcher-raises-in-parseUrl', [{'op': 'setMode', 'v': 0}, {'op': 'parseUrl', 'fetcher': 'raise-rt', 'raising': True},
                                    {'op': 'battery'}]),
    ('missing-file', [{'op': 'setMode', 'v': 1},
                      {'op': 'parseFile', 'text': '', 'flags': '', 'raising': None, 'inp': 'bytes', 'found': False,
                       'fetcher': 'none'}, {'op': 'battery'}]),
    ('standalone-mediaquery', [{'op': 'setMode', 'v': 0},
                               {'op': 'ctor', 'expr': 'cssutils.stylesheets.MediaQuery(T)', 'text': 'screen foo'},
                               {'op': 'battery'}]),
    ('appendMedium', [{'op': 'setMode', 'v': 0},
                      {'op': 'ctor', 'expr': 'cssutils.stylesheets.MediaList().appendMedium(T)', 'text': 'screen foo'},
                      {'op': 'battery'}]),
    ('mediaquery-setter', [{'op': 'setMode', 'v': 0},
                           {'op': 'ctor', 'expr': "setattr(cssutils.stylesheets.MediaQuery('print'), 'mediaText', T)",
                            'text': 'screen and (min-width: 1px) x'}, {'op': 'battery'}]),
    ('list-member-query-reused', [{'op': 'setMode', 'v': 0},
                                  {'op': 'ctor', 'expr': "setattr(cssutils.stylesheets.MediaList('screen, print')[0], 'mediaText', T)",
                                   'text': 'screen foo'}, {'op': 'battery'}]),
    ('empty-rules-serialised', [{'op': 'setMode', 'v': 0},
                                {'op': 'sertext', 'text': 'e{} f{/*c*/} @media print{g{}} h{i:j}'}, {'op': 'battery'}]),
    ('indent-specificities', [{'op': 'setMode', 'v': 0}, {'op': 'setIndent', 'v': 1},
                              {'op': 'serialize', 'rules': ['a.x{x:1}']}, {'op': 'serialize', 'rules': ['a.x.y{x:1}']},
                              {'op': 'sertext', 'text': 'a.x{y:1}'}, {'op': 'sertext', 'text': 'a.x.y{q:1}'},
                              {'op': 'setIndent', 'v': 0}, {'op': 'serialize', 'rules': ['a.x.y{x:1}', 'a{x:1}']},
                              {'op': 'battery'}]),
    ('value-with-semicolon', [{'op': 'setMode', 'v': 0},
                              {'op': 'ctor', 'expr': 'cssutils.css.PropertyValue(T)', 'text': 'red; blue'},
                              {'op': 'ctor', 'expr': 'cssutils.css.CSSVariablesDeclaration(T)', 'text': 'a: 1; b: 2'},
                              {'op': 'battery'}]),
    ('csscombine', [{'op': 'setMode', 'v': 1}, {'op': 'setPref', 'i': 0, 'v': 1},
                    {'op': 'combine', 'text': 'a{color:red}', 'flags': '1', 'bogus': False, 'minify': True},
                    {'op': 'combine', 'text': 'a{color:red}', 'flags': '1', 'bogus': True, 'minify': True},
                    {'op': 'battery'}]),
    ('raising-media-list', [{'op': 'setMode', 'v': 1},
                            {'op': 'ctor', 'expr': 'cssutils.stylesheets.MediaList(T)', 'text': 'screen foo, print'},
                            {'op': 'ctor', 'expr': 'cssutils.stylesheets.MediaList(T)', 'text': 'screen and, print'},
                            {'op': 'battery'}]),
]


def _reuse_histories():
    """one parser object, earlier calls with a per-call argument, later calls without: for every entry point that takes
    the argument first and every entry point afterwards"""
    out = []
    from harness.c12_ops import PCALL_ENTRIES, PCALL_ARGS
    for pv in (True, False):
        for first in PCALL_ENTRIES:
            for name in PCALL_ENTRIES[first]:
                ops = [{'op': 'setMode', 'v': 0}, {'op': 'newParser', 'raising': None, 'pvalidate': pv, 'fetcher': 'ok'}]
                for value in PCALL_ARGS[name]:
                    ops.append({'op': 'pcall', 'pobj': 0, 'entry': first, 'args': {name: value}})
                    for later in PCALL_ENTRIES:
                        ops.append({'op': 'pcall', 'pobj': 0, 'entry': later, 'args': {}})
                out.append(('reuse-%s-%s-%s' % ('v' if pv else 'nv', first, name), ops))
    return out


FIXED = FIXED + _reuse_histories()


def run_worker(req, timeout=1500):
    try:
        p = subprocess.run([sys.executable, WORKER], input=json.dumps(req).encode('utf-8'), stdout=subprocess.PIPE,
                           stderr=subprocess.PIPE, timeout=timeout)
    except subprocess.TimeoutExpired:
        raise TimeLimit()
    if p.returncode == 3:
        raise TimeLimit()
    if p.returncode != 0:
        raise RuntimeError('c12 worker failed: %s' % p.stderr.decode('utf-8', 'replace')[-800:])
    return json.loads(p.stdout.decode('utf-8'))


def explicit_prefix_key(ops):
    return json.dumps([op for op in ops if O.is_explicit(op) or op['op'] == 'battery'], sort_keys=True)


def indent_region(ops):
    """the known finding's region: `prefs.indentSpecificities = True` was set on the serializer that is current"""
    region = False
    for op in ops:
        if op['op'] == 'setIndent' and op['v']:
            region = True
        elif op['op'] == 'newSer':
            region = False
    return region


def squash(s):
    return ''.join(s.replace('\\n', ' ').replace('\\t', ' ').split())


class C12(Check):
    id = 'C12'
    props_module = 'CssVerif.Props.C12'
    driver_exe = 'drv_c12'
    sources = ('cssutils/parse.py', 'cssutils/prodparser.py', 'cssutils/tokenize2.py', 'cssutils/errorhandler.py',
               'cssutils/util.py', 'cssutils/__init__.py', 'cssutils/script.py', 'cssutils/profiles.py',
               'cssutils/serialize.py', 'cssutils/stylesheets/mediaquery.py', 'cssutils/stylesheets/medialist.py',
               'cssutils/css/cssimportrule.py', 'cssutils/settings.py', 'cssutils/cssproductions.py', 'conftest.py')
    trusted_base = (
        'hand-written models Model/GlobalsProd.lean (ProdParser.parse, Choice/Sequence.nextProd, _SorTokens, savedTokens, '
        '_pushed) and Model/Globals.lean (CSSParser entry points, __parseSetting, csscombine, the indentSpecificities memo), '
        'tied to the sources by the engine and history correspondences of this run and by the regenerated writer table',
        'the abstraction of a call body as a script of log calls / @import fetches / production-parser call trees: '
        'completeness of that alphabet rests on the writer table (Gen/C12Sites.lean, AST scan) and on the '
        'implementation-side snapshot of all module-level state around every call',
        'hand-written model Model/GlobalsMemo.lean (_TOKENIZER_CACHE look-up, settings.set, _expand_macros / '
        '_compile_productions up to re.compile, LazyRegex), tied by the memo correspondence of this run (real MACROS / '
        'PRODUCTIONS, every pattern text compared) and by the regenerated table of all module-level mutables and writers',
        'tools/harness/c12_*.py (generators, canonical observations, worker processes), tools/gen/c12_sites.py and '
        'tools/gen/c12_mutables.py (objects are recognised by name; aliases through parameters / locals are not followed)',
    )
    assumptions = (
        'user callbacks (fetchers) may call the library but do not assign cssutils.log.raiseExceptions, preferences or '
        'profiles themselves (`quiet`); the mode restore of the parse entry points is proved without that assumption',
        'termination of the production engine is not used: every C12 theorem holds for every fuel and every outcome',
        'at most one token is in the tokenizer push-back queue when it is drained (true of every grammar in the code '
        'base; the driver reports `unsupported` otherwise and the case is skipped and counted)',
        'logging handlers are not part of the modelled state (output only); the memo tables are (Model/GlobalsMemo.lean): '
        'arguments of Tokenizer(...) are None / dict / list of pairs, str() of the cache key is injective on them, '
        're.compile is a parameter of the theorems (cases in which it raises are counted and skipped by the memo stream)',
    )
    rule = ('engine: random environments of 1-3 grammars (Sequence/Choice/Prod trees, all flags, nested parsers through '
            'toSeq, hand-back discipline kept in 2/3 and broken on purpose in 1/3 of the cases) x token streams from a '
            '14-symbol alphabet (list source or real tokenizer on a rendered text) x error mode x clean / dirty '
            'savedTokens and _pushed. histories: 20-60 calls over all entry points, helper functions, constructors with '
            'malformed text, csscombine, resolveImports, serialisation, explicit settings; faults: undecodable bytes, '
            'missing file, fetcher raising OSError/ValueError/RuntimeError or re-entering the library, raising parsers. '
            'memo: histories of 5-18 Tokenizer(macros, productions) / settings.set steps over 10 x 9 argument shapes '
            'derived from the real tables, each in a fresh process; LazyRegex: catalogue and sampled profile patterns x '
            'random method calls. '
            'non-trivial = an engine case in which a token was handed back, pushed or popped, or a history that '
            'contains at least two different fault classes, or a memo history with a hit and at least three kinds of outcome')

    # ------------------------------------------------------------------------------------------
    def translate(self, ctx):
        files, rows = c12_sites.generate(ctx.repo)
        ctx.notes['writer_sites'] = len(rows)
        gfiles, data = c12_capture.generate(ctx.repo)
        ctx.notes['captured_grammars'] = ['%d:%s' % (i, g['name']) for i, g in enumerate(data['grammars'])]
        ctx.notes['captured_standalone'] = data['standalone']
        files.update(gfiles)
        mfiles, (defs, writes, fields) = c12_mutables.generate(ctx.repo)
        ctx.notes['module_level_mutables'] = len(defs)
        ctx.notes['mutable_writers'] = len(writes)
        files.update(mfiles)
        return files

    def search(self, ctx):
        """look for a concrete failing input: the cheap streams (memo tables, fixed histories) first at thorough size,
        the whole thorough run only if they find nothing"""
        ctx.tier_counts = 'thorough'
        ctx.search_mode = True
        self.pool = concurrent.futures.ThreadPoolExecutor(max_workers=min(12, (os.cpu_count() or 4)))
        try:
            for phase in (self.corr_memo, self.corr_lazy, self.oracle_fixed):
                ctx.phase(phase, ctx)
        finally:
            self.pool.shutdown(wait=False)
        if not ctx.violations and not os.environ.get('C12_SHALLOW_SEARCH'):     # (set while trying out mutations)
            self.run(ctx)

    def run(self, ctx):
        try:
            ctx.notes['repo_head'] = subprocess.run(['git', '-C', ctx.repo, 'rev-parse', '--short', 'HEAD'],
                                                    stdout=subprocess.PIPE, timeout=20).stdout.decode().strip()
        except Exception:       # noqa: B902
            pass
        self.pool = concurrent.futures.ThreadPoolExecutor(max_workers=min(12, (os.cpu_count() or 4)))
        try:
            # every phase runs even if an earlier one could not (ctx.phase records that as a broken obligation)
            for phase in (self.corpus, self.corr_engine, self.corr_memo, self.corr_lazy, self.calibrate, self.corr_history,
                          self.oracle_fixed,
                          self.oracle_history):
                ctx.phase(phase, ctx)
        finally:
            self.pool.shutdown(wait=False)

    # -- corpus ----------------------------------------------------------------------------------------
    def corpus(self, ctx):
        d = os.path.join(ctx.verif, 'tools', 'corpus', 'C12')
        n = 0
        for path in sorted(glob.glob(os.path.join(d, '*.json'))):
            item = json.load(open(path))
            n += 1
            if item['kind'] == 'engine':
                case = E.case_from_line(item['line'])
                self.engine_cases(ctx, [case], 'corpus')
            elif item['kind'] == 'history':
                ops = O.add_recs(item['ops'], self.recs())
                self.check_history(ctx, ops, 'corpus:' + os.path.basename(path))
                if all(O.model_step(op) for op in ops if op['op'] != 'battery'):
                    mops = [op for op in ops if op['op'] != 'battery']
                    base = self.base_profiles()
                    res = run_worker({'mode': 'history', 'ops': mops})
                    m = ctx.driver([self.hist_line(mops, len(base))])[0] if ctx.model_ok else None
                    self.compare_history(ctx, mops, res, m, base)
        ctx.notes['corpus_cases'] = n

    # -- engine correspondence ----------------------------------------------------------------------------
    def corr_engine(self, ctx):
        rng = ctx.sub_rng('engine')
        n = ctx.n(5000, 300000)
        cases = []
        for i in range(n):
            cases.append(E.make_case(rng, discipline=(i % 3 != 0)))
        self.engine_cases(ctx, cases, 'gen')

    def engine_cases(self, ctx, cases, tag):
        import cssutils
        cssutils.log.setLevel(100)
        old_mode = cssutils.log.raiseExceptions
        lines = [E.model_line(c) for c in cases]
        out = ctx.driver(lines) if ctx.model_ok else [None] * len(lines)
        try:
            for idx, (c, line, m) in enumerate(zip(cases, lines, out)):
                stats = {} if idx % 8 == 0 else None     # instrumented sample: how often the queues are really used
                r = E.impl_reply(c, stats)
                first = r.split(' ')[0]
                moved = ' / - / -' not in r or bool(c['saved']) or bool(c['pushed'])
                if stats:
                    if stats['handed_back']:
                        ctx.count('engine-sample:token-handed-back')
                        moved = True
                    if stats['popped']:
                        ctx.count('engine-sample:token-popped')
                    if stats['pushed']:
                        ctx.count('engine-sample:token-pushed')
                        moved = True
                    ctx.count('engine-sample:cases')
                ctx.case(key=line, nontrivial=moved, kind='engine:%s:%s%s' % (tag, first, ':dirty' if c['saved'] or c['pushed'] else ''),
                         sample={'engine': line, 'impl': r})
                if m is None:
                    continue
                if m.startswith('unsupported') or m.startswith('nofuel'):
                    ctx.count('engine:model-' + m.split(' ')[0])
                    continue
                if first in ('timeout', 'recursion'):
                    ctx.count('engine:impl-' + first)
                    continue
                if m != r:
                    ctx.disagree('ProdParser.parse (engine)', {'line': line, 'text': c.get('text')}, r, m)
                # oracle, independent of the model: a clean start and a grammar environment that keeps the hand-back
                # discipline end with an empty savedTokens list
                if not c['saved'] and c.get('disciplined') and first != 'timeout':
                    sv = r.split(' / ')[1]
                    if sv != '-':
                        ctx.violate('T12.2 a completed stand-alone production parser call leaves savedTokens empty',
                                    {'engine_line': line}, {'impl': r})
        finally:
            cssutils.log.raiseExceptions = old_mode


    # -- memo tables ---------------------------------------------------------------------------------------------
    def corr_memo(self, ctx):
        rng = ctx.sub_rng('memo')
        hists = [(name, ops) for name, ops in MM.FIXED]
        for i in range(ctx.n(20, 400)):
            hists.append(('gen', MM.gen_history(rng, rng.randint(5, 18))))
        self.memo_histories(ctx, hists)
        self.oracle_capture(ctx)

    def oracle_capture(self, ctx):
        """the former finding C12-capture-sheets-shared (fixed by a279ab6): two CSSCaptureHTMLParser objects, two documents —
        what the second one reports must not contain the first document's sheets (fresh process)"""
        res = run_worker({'mode': 'capture'})
        ctx.case(key='capture-two-parsers', nontrivial=res['first_parser_sees'] == 1, kind='capture',
                 sample=res)
        if res['second_parser_sees']:
            ctx.violate('T12.1 what a CSSCaptureHTMLParser reports does not depend on the documents other parser objects '
                        'were fed before', {'capture': 'two parsers, two documents'}, res)

    def memo_histories(self, ctx, hists):
        results = list(self.pool.map(lambda h: run_worker({'mode': 'memo', 'ops': h[1]}), hists))
        lines = [MM.model_line(ops, res['G']) for (_, ops), res in zip(hists, results)]
        model = ctx.driver(lines) if ctx.model_ok else [None] * len(lines)
        for (tag, ops), res, m in zip(hists, results, model):
            self.judge_memo(ctx, tag, ops, res, m)

    def judge_memo(self, ctx, tag, ops, res, model_line):
        mobs = model_line.split(' | ') if model_line else None
        if mobs is not None:
            # the two look-ups before the history: the import of the package (a miss) and one more parser (a hit)
            t0 = MM.enc_items([tuple(x) for x in res['import_tables']])
            for j, hit in ((0, '0'), (1, '1')):
                w = mobs[j].split(' ') if j < len(mobs) else []
                if w[:3] != ['ok', hit, '1'] or w[3] != t0 or res['import_entries'] != 1:
                    ctx.disagree('the tokenizer tables after the import of the package', {'memo_ops': []},
                                 'entries=%d %s' % (res['import_entries'], t0[:200]), ' '.join(w)[:260])
                    break
        seen_set = False
        differed = False
        kinds = set()
        for i, (op, st) in enumerate(zip(ops, res['steps'])):
            got = MM.impl_obs(st)
            kinds.add(st['out'].split(':')[0] + (':hit' if st.get('hit') else ''))
            if op['op'] == 'set':
                seen_set = True
            if st['out'] == 're.error' or st.get('fresh', {}).get('out') == 're.error':
                ctx.count('memo:re.error-not-modelled')
                break
            if mobs is not None:
                want = mobs[2 * i + 2] if 2 * i + 2 < len(mobs) else '(missing)'
                wrun = mobs[2 * i + 3] if 2 * i + 3 < len(mobs) else '(missing)'
                grun = MM.impl_obs(st['run'])
                if not want.startswith('err diverges') and wrun != grun and not differed:
                    differed = True
                    ctx.disagree('Tokenizer.tokenize re-binds its tables (memo) after step %d' % i,
                                 {'memo_ops': ops[:i + 1]}, grun[:600], wrun[:600])
                if want.startswith('err diverges'):
                    ctx.count('memo:model-nofuel')
                    break
                if want != got and not differed:
                    differed = True           # reported once; the oracle below still looks at every step
                    ctx.disagree('Tokenizer.__init__ / settings.set (memo) step %d' % i, {'memo_ops': ops[:i + 1]},
                                 got[:600], want[:600])
            # oracle, independent of the model: the look-up returns what the computation gives past the cache
            if op['op'] == 'new':
                f = st['fresh']
                same = f['out'] == st['out'] and (st['out'] != 'ok' or (
                    f['tables'] == st['tables'] and f['comment'] == st['comment'] and f['uri'] == st['uri']))
                if not same:
                    ops = self.shrink_memo(ops[:i + 1])
                    i = len(ops) - 1
                    ctx.violate('T12.4 a Tokenizer gets the tables that the computation gives for its arguments under the '
                                'module-level MACROS / PRODUCTIONS as they are now (look-up = recomputation)',
                                {'memo_ops': ops[:i + 1]},
                                {'looked_up': st['out'], 'recomputed': f['out'],
                                 'first_difference': next(([a, b] for a, b in zip(st.get('tables') or [], f.get('tables') or [])
                                                           if a != b), None),
                                 'lengths': [len(st.get('tables') or []), len(f.get('tables') or [])]})
                    break
            if st['stale']:
                # (the former finding C12-settings-stale-tokenizers is fixed by 7a36f78: no region left)
                ctx.violate('every living Tokenizer runs with the tables a new Tokenizer() would get',
                            {'memo_ops': ops[:i + 1]}, {'stale': st['stale']})
                break
        ctx.case(key=json.dumps(ops, sort_keys=True), nontrivial=('ok:hit' in kinds and len(kinds) >= 3),
                 kind='memo:%s:%s' % (tag if tag == 'gen' else 'fixed', 'set' if seen_set else 'noset'),
                 sample={'memo_ops': ops[:6]})
        for k in kinds:
            ctx.count('memo-step:' + k)

    def memo_fails(self, ops):
        try:
            st = run_worker({'mode': 'memo', 'ops': ops}, timeout=120)['steps'][-1]
        except Exception:       # noqa: B902
            return False
        f = st.get('fresh')
        return bool(f) and not (f['out'] == st['out'] and (st['out'] != 'ok' or (
            f['tables'] == st['tables'] and f['comment'] == st['comment'] and f['uri'] == st['uri'])))

    def shrink_memo(self, ops, budget=16):
        """delete steps (keeping the last) while the look-up of the last step still differs from its recomputation"""
        if getattr(self, '_memo_shrunk', 0) >= 3:
            return ops
        self._memo_shrunk = getattr(self, '_memo_shrunk', 0) + 1
        cur = list(ops)
        i = 0
        while i < len(cur) - 1 and budget > 0:
            cand = cur[:i] + cur[i + 1:]
            budget -= 1
            if self.memo_fails(cand):
                cur = cand
            else:
                i += 1
        return cur

    def corr_lazy(self, ctx):
        import cssutils
        from cssutils.util import LazyRegex
        rng = ctx.sub_rng('lazy')
        props = []
        for prof, table in cssutils.profile._profilesProperties.items():
            for name, v in table.items():
                if isinstance(v, LazyRegex):
                    props.append([prof, name])
        props = rng.sample(props, min(len(props), ctx.n(40, 400)))
        rounds = ctx.n(2, 8)
        reqs = []
        for r in range(rounds):
            ops = [MM.gen_lazy(rng, rng.randint(1, 6)) for _ in range(len(MM.LAZY_PATTERNS) + len(props))]
            if r == 0:
                # the catalogue patterns meet every catalogue text once, in the order of the catalogue (so that the
                # same pattern with other flags is used right after its twin)
                for k in range(len(MM.LAZY_PATTERNS)):
                    ops[k] = [('match', t) for t in MM.LAZY_TEXTS] + [('search', t) for t in MM.LAZY_TEXTS[:3]]
            reqs.append({'mode': 'lazy', 'ops': ops, 'profile_props': props})
        results = list(self.pool.map(run_worker, reqs))
        lines, items = [], []
        for req, res in zip(reqs, results):
            for ops, o in zip(req['ops'], res):
                ref = o['ref']
                lines.append('lazy %d %d %d %d %d' % (int(ref['ok']), o['flags0'], ref.get('flags', 0), ref.get('groups', 0),
                                                    len(o['steps'])))
                items.append((ops, o))
        model = ctx.driver(lines) if ctx.model_ok else [None] * len(lines)
        for (ops, o), m in zip(items, model):
            inp = {'lazy_pattern': o['pattern'][:200], 'flags': o['flags0'], 'calls': ops}
            got = ['%s:%d:%d:%s' % ('ok' if s['got'][0] == 'ok' else ('err' if s['got'][0] == 'err' else 'none-attr'),
                                    int(s['set']), s['flags'], 'N' if s['groups'] is None else s['groups'])
                   for s in o['steps']]
            if m is not None and m.split(' ') != got:
                ctx.disagree('util.LazyRegex (memo)', inp, ' '.join(got), m)
            init = o['init']
            if init['set'] or init['flags'] != o['flags0'] or init['groups'] is not None:
                ctx.disagree('util.LazyRegex before its first use', inp, json.dumps(init), 'no matcher, the flags given')
            for (meth, text), s in zip(ops, o['steps']):
                if s['got'] != s['want'] or not s['pattern_kept']:
                    ctx.violate('T12.4 a LazyRegex method answers what re.compile(pattern, flags) answers, after any '
                                'history of calls', dict(inp, method=meth, text=text),
                                {'lazy': s['got'], 're.compile': s['want'], 'pattern_kept': s['pattern_kept']})
                    break
            ctx.case(key=json.dumps([o['pattern'], o['flags0'], ops]), nontrivial=len(ops) >= 2,
                     kind='lazy:%s' % ('compiles' if o['ref']['ok'] else 're.error'),
                     sample={'lazy_pattern': o['pattern'][:60], 'calls': ops[:4]})

    # -- catalogue calibration ----------------------------------------------------------------------------
    def calibrate(self, ctx):
        cal = run_worker({'mode': 'calibrate'})
        bad = []
        for sect, exp in (('sheets', O.SHEETS), ('styles', O.STYLES)):
            for t, f in exp.items():
                if cal[sect].get(t) != f:
                    bad.append((sect, t, cal[sect].get(t), f))
        for name, (_, f) in O.DIRECT.items():
            if cal['direct'].get(name) != f:
                bad.append(('direct', name, cal['direct'].get(name), f))
        for kind, (_, f) in O.IMPORTED.items():
            if cal['imported'].get(kind) != f:
                bad.append(('imported', kind, cal['imported'].get(kind), f))
        for sect, t, got, want in bad:
            ctx.disagree('catalogue: log calls made by a body (neverraise flags)', {'section': sect, 'entry': t}, got, want)
        ctx.notes['catalogue_entries'] = len(O.SHEETS) + len(O.STYLES) + len(O.DIRECT) + len(O.IMPORTED)

    # -- history correspondence ----------------------------------------------------------------------------
    def base_profiles(self):
        import cssutils
        return list(cssutils.profile.profiles)

    def recs(self):
        if not hasattr(self, '_recs'):
            import cssutils
            old = cssutils.log.raiseExceptions
            r = O.Runner()
            table = {}
            self._recs = {t: r.selrec(t, table) for t in O.RULES}
            cssutils.log.raiseExceptions = old
        return self._recs

    def corr_history(self, ctx):
        rng = ctx.sub_rng('history')
        base = self.base_profiles()
        n_hist = ctx.n(24, 600)
        hists = []
        for i in range(n_hist):
            ops = O.gen_modelled_history(rng, rng.randint(20, 60), n_base_profiles=len(base), indent_ok=(i % 3 == 0))
            hists.append(O.add_recs(ops, self.recs()))
        results = list(self.pool.map(lambda ops: run_worker({'mode': 'history', 'ops': ops}), hists))
        lines = [self.hist_line(ops, len(base)) for ops in hists]
        model = ctx.driver(lines) if ctx.model_ok else [None] * len(lines)
        for ops, res, m in zip(hists, results, model):
            self.compare_history(ctx, ops, res, m, base)

    def hist_line(self, ops, nbase):
        steps = ' '.join(O.model_step(op) for op in ops)
        return 'hist 1 %s 1000 %s' % ('+'.join(str(i) for i in range(nbase)) or '-', steps)

    def impl_observation(self, op, r, prev_state, base):
        st = r['state']
        out = r['out']
        if out in ('ok', 'none'):
            res = 'ok'
        elif out.startswith('raised:'):
            res = CLASS_MAP.get(out[7:], out)
        else:
            res = out
        obs = ['s%d' % int(x) for x in r['seen']]
        if out == 'none':
            obs.append('n')
        if 'validating' in r:
            obs.append('v%d' % int(r['validating']))
        if op['op'] == 'serialize' and 'levels' in r:
            obs.append('l' + '+'.join(str(x) for x in r['levels']))
        names = base + ['c12-p1', 'c12-p2']
        prefs = list(st['prefs'])
        while prefs and prefs[-1] == 0:
            prefs.pop()
        prof = [names.index(x) if x in names else 999 for x in st['profiles']]
        return ' '.join([res, ','.join(obs) or '-', str(int(st['raising'])), str(int(not st['saved'])),
                         str(int(st['ser'] == prev_state['ser'])) if prev_state else '1',
                         '+'.join(map(str, prefs)) or '-', str(int(st['indent'])),
                         '+'.join(map(str, prof)) or '-', ','.join(st['parsers']) or '-'])

    def compare_history(self, ctx, ops, res, model_line, base):
        faults = set()
        mobs = model_line.split(' | ') if model_line else None
        prev = None
        for i, (op, r) in enumerate(zip(ops, res)):
            got = self.impl_observation(op, r, prev, base)
            prev = r['state']
            if r['out'].startswith('raised:'):
                faults.add(r['out'])
            if mobs is not None:
                want = mobs[i] if i < len(mobs) else '(missing)'
                # the model strips nothing: normalise its preference vector the same way
                w = want.split(' ')
                if len(w) == 9:
                    # `validating` of results that only a callback or csscombine itself sees is not observed here:
                    # keep the one the caller of this entry point gets (the last), drop the others
                    o = w[1].split(',') if w[1] != '-' else []
                    vs = [j for j, x in enumerate(o) if x in ('v0', 'v1')]
                    keep = vs[-1] if (vs and op['op'] in ('parseString', 'parseStyle', 'parseFile', 'parseUrl')
                                      and w[0] == 'ok' and 'n' not in o) else None
                    o = [x for j, x in enumerate(o) if x not in ('v0', 'v1') or j == keep]
                    w[1] = ','.join(o) or '-'
                    p = w[5].split('+') if w[5] != '-' else []
                    while p and p[-1] == '0':
                        p.pop()
                    w[5] = '+'.join(p) or '-'
                    want = ' '.join(w)
                if want != got:
                    ctx.disagree('history step %d (%s)' % (i, op['op']), {'ops': ops[:i + 1]}, got, want)
                    break
        ctx.case(key=json.dumps(ops, sort_keys=True), nontrivial=len(faults) >= 2, kind='history:%d-faults' % min(len(faults), 3),
                 sample={'history_ops': [O.model_step(op) for op in ops[:8]], 'faults': sorted(faults)})
        for op in ops:
            ctx.count('op:' + op['op'])

    # -- oracle --------------------------------------------------------------------------------------------
    def oracle_fixed(self, ctx):
        hists = [O.add_recs([dict(op) for op in ops], self.recs()) for _, ops in FIXED]
        results = list(self.pool.map(lambda ops: run_worker({'mode': 'history', 'ops': ops, 'snapshot': True}), hists))
        self.references(hists)
        for (name, _), ops, res in zip(FIXED, hists, results):
            self.judge_history(ctx, ops, res, 'fixed:' + name)

    def oracle_history(self, ctx):
        rng = ctx.sub_rng('oracle')
        n_hist = ctx.n(24, 600)
        hists = []
        for i in range(n_hist):
            ops = O.gen_oracle_history(rng, rng.randint(15, 45), explicit=(i % 2 == 0), indent=(i % 6 == 0))
            hists.append(O.add_recs(ops, self.recs()))
        results = list(self.pool.map(lambda ops: run_worker({'mode': 'history', 'ops': ops, 'snapshot': True}), hists))
        self.references(hists)
        ctx.notes['distinct_explicit_settings_with_isolated_reference'] = len(self._ref)
        for ops, res in zip(hists, results):
            self.judge_history(ctx, ops, res, 'gen')

    def battery_prefixes(self, ops):
        """for every battery of the history: the explicit settings made before it (as a cache key and as ops)"""
        out = []
        explicit = []
        for op in ops:
            if O.is_explicit(op):
                explicit.append(op)
            elif op['op'] == 'battery':
                out.append((json.dumps(explicit, sort_keys=True), list(explicit)))
        return out

    def references(self, histories):
        """the battery after the explicit settings alone, every probe in a process of its own (forked right after the
        settings were made): computed once per distinct sequence of explicit settings, in parallel"""
        if not hasattr(self, '_ref'):
            self._ref = {}
        todo = {}
        for ops in histories:
            for key, explicit in self.battery_prefixes(ops):
                if key not in self._ref and key not in todo:
                    todo[key] = explicit
        keys = list(todo)
        results = list(self.pool.map(lambda k: run_worker({'mode': 'history', 'ops': todo[k] + [{'op': 'battery'}],
                                                            'isolated': True}), keys))
        for k, res in zip(keys, results):
            self._ref[k] = res[-1]['battery']

    def reference(self, ops):
        self.references([ops])
        return [self._ref[key] for key, _ in self.battery_prefixes(ops)]

    def check_history(self, ctx, ops, tag):
        res = run_worker({'mode': 'history', 'ops': ops, 'snapshot': True})
        return self.judge_history(ctx, ops, res, tag)

    def judge_history(self, ctx, ops, res, tag, report=True):
        """implementation-side oracle over one history; returns the list of (clause, index, detail, known)"""
        found = []
        prev = None
        faults = set()
        for i, (op, r) in enumerate(zip(ops, res)):
            st = r['state']
            if 'battery' not in r and r['out'].startswith('raised:'):
                faults.add(r['out'])
            if prev is not None and not O.is_explicit(op):
                for field, clause in (('raising', 'T12.1 the error mode (cssutils.log.raiseExceptions) is as it was before the call'),
                                      ('ser', 'T12.1 the global serializer object is as it was before the call'),
                                      ('allprefs', 'T12.1 the serializer preferences are as they were before the call'),
                                      ('indent', 'T12.1 the serializer preferences are as they were before the call'),
                                      ('profiles', 'T12.1 the profile registry is as it was before the call'),
                                      ('default_profiles', 'T12.1 the default profiles are as they were before the call'),
                                      ('level', 'the serializer nesting level is back to its value'),
                                      ('parser_objects', 'T12.1 no attribute of any CSSParser object is changed by a call')):
                    if st[field] != prev[field]:
                        found.append((clause, i, {'field': field, 'before': prev[field], 'after': st[field]}, None))
                if op['op'] == 'pcall' and r.get('reused') != r.get('twin'):
                    a, b = r.get('reused') or {}, r.get('twin') or {}
                    diff = {k: {'reused_parser': a.get(k), 'fresh_parser': b.get(k)} for k in sorted(set(a) | set(b))
                            if a.get(k) != b.get(k)}
                    found.append(('a parser object can be reused any number of times with identical results: a call on a '
                                  'parser that has served other calls (with other per-call arguments) returns what the '
                                  'same call returns on a parser just created', i,
                                  {'call': '%s(%s)' % (op['entry'], ', '.join('%s=%r' % kv for kv in sorted(op['args'].items()))),
                                   'differs': diff}, None))
                if st['saved']:
                    found.append(('T12.2 savedTokens is empty after every completed call', i, {'saved': st['saved']}, None))
                for field in ('sel_level', 'n_sel'):
                    if st[field] != prev[field]:
                        found.append(('the serializer carries nothing from one call to the next', i,
                                      {'field': field, 'before': prev[field], 'after': st[field]}, None))
                sd = r.get('snapdiff') or []
                memo = [k for k in sd if "cssutils.ser.['_selector" in k]
                other = [k for k in sd if k not in memo and not k.startswith("cssutils.ser.['prefs']")
                         and not k.startswith("cssutils.ser#") and not k.startswith("cssutils.ser.#")]
                if other:
                    found.append(('no module-level or class-level state of the package is changed by a call', i,
                                  {'changed': other[:8]}, None))
                if memo:
                    found.append(('the serializer carries nothing from one call to the next', i, {'changed': memo[:4]}, None))
            prev = st
        # batteries against the explicit settings alone
        if any(op['op'] == 'battery' for op in ops):
            ref = self.reference(ops)
            mine = [(i, r['battery']) for i, (op, r) in enumerate(zip(ops, res)) if op['op'] == 'battery']
            for (i, b), rb in zip(mine, ref):
                if b != rb:
                    diffs = [(x, y) for x, y in zip(b, rb) if x != y]
                    known = None
                    found.append(('T12.3 the probe battery after this history equals the battery after the explicit '
                                  'settings alone (fresh process)', i,
                                  {'first_difference': {'after_history': diffs[0][0][:300], 'fresh': diffs[0][1][:300]}
                                   if diffs else {'lengths': [len(b), len(rb)]}}, known))
        if report:
            seen_clauses = set()
            for clause, i, detail, known in found:
                if known:
                    ctx.violate(clause, None, None, known=known)
                    continue
                if clause in seen_clauses:
                    continue
                seen_clauses.add(clause)
                # minimise the first witness of every clause only (each trial is a fresh process)
                done = self.__dict__.setdefault('_shrunk', set())
                if clause not in done and len(done) < 4:
                    done.add(clause)
                    witness = self.shrink(ops[:i + 1], clause)
                else:
                    witness = ops[:i + 1]
                ctx.violate(clause, {'ops': witness, 'from': tag}, detail)
            ctx.case(key=json.dumps(ops, sort_keys=True), nontrivial=len(faults) >= 2,
                     kind='oracle:%s:%d-faults' % (tag.split(':')[0], min(len(faults), 3)),
                     sample={'oracle_ops': [op.get('expr') or op.get('text') or op['op'] for op in ops[:8]],
                             'faults': sorted(faults)})
        return found

    def fails(self, ops, clause):
        if ops and ops[-1]['op'] != 'battery' and 'T12.3' in clause:
            ops = ops + [{'op': 'battery'}]
        try:
            res = run_worker({'mode': 'history', 'ops': ops, 'snapshot': 'module-level' in clause}, timeout=120)
        except Exception:       # noqa: B902
            return False
        return any(c == clause and not k for c, _, _, k in self.judge_history(None, ops, res, 'shrink', report=False))

    def shrink(self, ops, clause, budget=24):
        """greedy deletion of ops (keeping the last one) while the same clause still fails"""
        cur = list(ops)
        # first try short suffixes
        for k in (1, 2, 3, 5, 8):
            if budget <= 0 or k >= len(cur):
                break
            cand = cur[-k:]
            budget -= 1
            if self.fails(cand, clause):
                cur = cand
                break
        i = 0
        while i < len(cur) - 1 and budget > 0:
            cand = cur[:i] + cur[i + 1:]
            budget -= 1
            if self.fails(cand, clause):
                cur = cand
            else:
                i += 1
        return cur

    # -- known findings / replay -----------------------------------------------------------------------------
    def known(self, ctx, finding):
        if finding['id'] == KNOWN_INDENT and finding.get('status') == 'known':
            w = finding['witness']['data']
            a = run_worker({'mode': 'history', 'ops': [{'op': 'setIndent', 'v': 1}, {'op': 'sertext', 'text': w['second']}]})
            b = run_worker({'mode': 'history', 'ops': [{'op': 'setIndent', 'v': 1}, {'op': 'sertext', 'text': w['first']},
                                                      {'op': 'sertext', 'text': w['second']}]})
            return a[-1].get('text') != b[-1].get('text')
        if finding['id'] == MM.KNOWN_STALE:
            res = run_worker({'mode': 'memo', 'ops': finding['witness']['data']['memo_ops']})
            return bool(res['steps'][-1]['stale'])
        if finding['id'] == KNOWN_CAPTURE:
            return bool(run_worker({'mode': 'capture'})['second_parser_sees'])
        return True

    def replay(self, ctx, data):
        w = data.get('witness') or {}
        if 'ops' in w:
            self.check_history(ctx, w['ops'], 'replay')
        elif 'memo_ops' in w:
            self.memo_histories(ctx, [('replay', w['memo_ops'])])
        elif 'engine_line' in w:
            self.engine_cases(ctx, [E.case_from_line(w['engine_line'])], 'replay')
        else:
            for b in data.get('broken', []):
                inp = b.get('input') or {}
                if 'line' in inp:
                    self.engine_cases(ctx, [E.case_from_line(inp['line'])], 'replay')
                elif 'memo_ops' in inp:
                    self.memo_histories(ctx, [('replay', inp['memo_ops'])])
                elif 'ops' in inp:
                    ops = inp['ops']
                    res = run_worker({'mode': 'history', 'ops': ops})
                    base = self.base_profiles()
                    m = ctx.driver([self.hist_line(ops, len(base))])[0]
                    self.compare_history(ctx, ops, res, m, base)


CHECK = C12()
