#!/bin/sh
# run every claimed check once (tier $1, default quick; PROPS="C01 C02" restricts) and print one line per property
HERE="$(cd "$(dirname "$0")/.." && pwd)"; cd "$HERE"
TIER="${1:-quick}"
PROPS="${PROPS:-$(python3 -c "import json;print(' '.join(c['property_id'] for c in json.load(open('MANIFEST.json'))['checks']))")}"
for p in $PROPS; do
  t0=$(date +%s)
  out=$(./check $p --tier $TIER 2>&1); rc=$?
  t1=$(date +%s)
  echo "$p rc=$rc $((t1-t0))s $(echo "$out" | grep -E "^VIOLATION|INFRA" | head -1) $(echo "$out" | grep -c '^KNOWN-FINDING') known | $(echo "$out" | tail -1 | cut -c1-120)"
done
