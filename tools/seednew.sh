#!/bin/sh
# verify NEW seeded changes delivered in a directory (<dir>/<Cxx-k>/{patch.diff,demo.py,meta.json}) against the current
# /repo HEAD and the current checks, N at a time, in scratch worktrees of /verif and /repo; then import them into seeded/.
# usage: tools/seednew.sh <dir> [N=8]       logs: <dir>/../log/<seed>.log
HERE="$(cd "$(dirname "$0")/.." && pwd)"; cd "$HERE"
SRC="$1"; N="${2:-8}"
OUT="$(dirname "$SRC")/log"; rm -rf "$OUT"; mkdir -p "$OUT"
i=0
for d in "$SRC"/C*-*; do i=$(( (i % N) + 1 )); eval "G$i=\"\$G$i $d\""; done
for i in $(seq 1 "$N"); do
  git worktree remove --force /tmp/sn-$i 2>/dev/null
  git worktree add -q --detach /tmp/sn-$i HEAD || exit 2
  cp -r "$HERE/lean/.lake" /tmp/sn-$i/lean/.lake
  eval "ds=\$G$i"
  ( for d in $ds; do p=$(basename $d | cut -d- -f1)
        /tmp/sn-$i/tools/seedcheck.sh "$d" $p > "$OUT/$(basename $d).log" 2>&1
    done ) &
done
wait
for i in $(seq 1 "$N"); do git worktree remove --force /tmp/sn-$i; done
for d in "$SRC"/C*-*; do
  n=$(basename $d); p=$(echo $n | cut -d- -f1); k=$(echo $n | cut -d- -f2); log="$OUT/$n.log"
  d0=$(grep -A1 "demo on unchanged" $log | tail -1 | cut -c1-10); d1=$(grep -A1 "demo with change" $log | tail -1 | cut -c1-10)
  suite=$(grep -A1 "suite with change" $log | tail -1 | cut -c1-50)
  viol=$(grep -E "^VIOLATION" $log | head -1 | sed 's/replay=[^ ]*/replay=<file>/')
  summ=$(grep ' tier=' $log | tail -1 | sed 's/^[^:]*: //' | cut -c1-200)
  echo "$n demo[$d0|$d1] suite[$suite] ${viol:-NOT-CAUGHT}"
  case "$d0$d1" in exit=0*exit=1*) ;; *) echo "   (demo does not flip: not imported)"; continue;; esac
  echo "$suite" | grep -q "2 failed, 410 passed" || { echo "   (suite differs: not imported)"; continue; }
  if [ -n "$viol" ]; then
    case "$viol" in *no-failing-input-found*) how="quick tier: correspondence / proof obligation broke, no failing input found (VIOLATION ... no-failing-input-found); $summ";; *) how="quick tier: VIOLATION with a concrete replay; $summ";; esac
    python3 tools/seedimport.py "$d" $p $k yes "$how" >/dev/null
  else
    python3 tools/seedimport.py "$d" $p $k no "MISSED by the quick tier at first run ($summ)" >/dev/null
  fi
done
